"""C13 OSCORE sequence-number persistence: no sender sequence number is issued twice
across restarts, crashes and exhaustion.

Decided on the syntax trees of aiocoap/oscore.py (which cannot be imported here):

C13.a  exhaustion: MAX_SEQNO = 2**40-1; new_sequence_number returns the old value,
       stores old+1, and does so only under old < MAX_SEQNO (raises otherwise).
C13.b  persist before use: between the increment and the return post_seqnoincrease
       completes normally; post_seqnoincrease skips the store only under
       seq <= persisted, otherwise the bound grows by the chunk *before* _store and
       _store completes before the function ends; __init__ starts from the loaded value.
C13.c  atomic store: temp file in the directory of the target, write -> flush ->
       fsync -> close -> replace on every path, payload's "next-to-send" is
       sequence_number_persisted.
C13.d  reader/writer agreement of file name, JSON keys and window fields.
C13.e  "unknown" window: written iff the flag is false, flag cleared before the
       first store after a strike-out, loader maps it back (and a dict / a missing
       file to flag true).
C13.f  clean shutdown writes the exact state before releasing the lock.
C13.g  _load assumes an empty window only when no state file exists.
C13.h  the recovered window starts exactly at the Echo-verified number (C12.c).
C13.i  distinct numbers give distinct nonces (C11.c).
C13.j  initialize_from_persisted restores the file's fields verbatim.
C13.k  the number that initialises an unknown window in unprotect is the incoming message's own partial
       IV, never the local request's (C12.f).
C13.l  nothing initialize_from_persisted runs besides its verbatim stores (methods of the window it calls on
       itself, transitively, found by the fields they store to) decides the restored window.

Idioms accepted in _store (anything else stops the rule with an analysis error):
  * temp file: `h, name = tempfile.mkstemp(dir=D, ...)` (dir as keyword or third
    positional) or `f = tempfile.NamedTemporaryFile(dir=D, delete=False, ...)`;
  * file object: `io.open(h, ...)`, `open(h, ...)`, `os.fdopen(h, ...)`, bound by
    `with ... as f` or by assignment; or no file object at all (`os.write(h, data)`);
  * write: `f.write(x)`, `os.write(h, x)`, `json.dump(obj, f)`;
  * flush: `f.flush()`; not required for `os.write` or an unbuffered open
    (`buffering=0` / third positional 0);
  * fsync: `os.fsync(f.fileno())`, `os.fsync(h)`, `os.fdatasync(...)` of the same;
  * close: leaving the `with` block that binds the file object, `f.close()`, `os.close(h)`;
  * rename: `os.replace(name, T)` / `os.rename(name, T)` with
    `T = os.path.join(D, <constant>)`; D must be the same attribute chain as the
    temp file's directory.

Spelling-independence (helpers in _kit_c13.py): the anchored methods are looked at with helper methods that
inline.py had to leave as calls expanded where that is still sound (call in tail position: any helper shape; top-level
statement call: returns become "continue with the rest of the caller"); paths are resolved through locals, read-only
single-return properties and module/class string constants (os.path.join(D, N), D + "/" + N, f"{D}/N"); the dict that is
serialised is evaluated per path of the path model (literal, dict(...), d[k] = v under if/else, conditional expressions,
update/setdefault/del/pop, default-then-overwrite), and its values are judged per arm of a conditional expression under
the decisions of the path; reads of the loaded object are d[k] / d.get(k) / d.pop(k) directly or through locals; field
stores include the parallel form `self.a, self.b = x, y`; receivers and the lock are followed through local aliases;
callbacks may be the bound method, a lambda / local def / functools.partial that only calls it; callee names are
resolved through the module's imports (`from tempfile import mkstemp`); statements inside `finally` are located in
every CFG copy.

Second pass.  (1) Values chosen by a conditional expression / min / max (also nested, also inside arithmetic) are looked
at as the branches they stand for (_kit_c13.choices_as_branches), so the chunk after post_seqnoincrease is a polynomial per
path and "stays positive" is decided by its minimum over chunk, limit >= 1 or by the path's own conditions -- not by
comparing with three reference spellings.  (2) What _load does "when the state file is missing / was read / held the
marker" is decided on the feasible paths from the open() on (_kit_c13.RegionPaths: exceptional edges included,
constants bound to locals propagated and branches they decide pruned), not by where a statement stands relative to
the `except FileNotFoundError` handler: a presence flag set in the handler and tested later, an early return, a
status string, a flag computed from the marker comparison are all the same paths.  The local the file is decoded
into may be bound elsewhere too (None in the handler); every read of it must see the decoded content on every
feasible path.

Sixth pass.  The stand-in for "no state file" may be any object with an identity of its own, not only a constant: a
class-level sentinel (`_NO_FILE = Sentinel(..)` read as self.X / cls.X / type(self).X / Class.X), a module-level one
(`_MISSING = object()`, also imported or aliased), an Enum member, a local `missing = object()`; bound in the
FileNotFoundError handler (also of an expanded helper that returns it) or before the try, and tested afterwards with
is / is not / == / != / in (..), either way round, as guard clause or nested.  _kit_c13.Sentinels gives such an expression
a Token when it provably denotes one object (single binding, never stored to anywhere in the program, ordinary class),
const_eval decides identity / equality between tokens and between an object token and a constant, and RegionPaths
prunes the branches this decides -- the decoded file is never identical to an object the program made, so "is the
sentinel" is exactly "open() failed" and "is not the sentinel" exactly "the file was decoded".  A read of the local
that only asks which object it is (operand of such a comparison, isinstance, truth test) is not a read of the file's
content (C13.d).  A file that decodes to None stays possible on the paths that decoded the file: `content is None`
is not decided there, so None as the stand-in is still reported (a file containing null would be taken for a fresh
context).

Outside the property's fault model (crash points and clean stops), reported as a
note only: if `_store()` raises (disk full, EIO) after `sequence_number_persisted`
was advanced, the in-memory bound stays ahead of the file and the next chunk-1
numbers are issued without being covered on disk.
"""

from fractions import Fraction

from ..rulekit import *
from ..norm import Normalizer, Poly, NormError
from .c12 import (
    mcalls, reach_cut, after_normal, must_complete, witness, facts_at, has_fact, fact_matches,
    sym_paths, canon, cmp_nf, _min_over_positive, _window_fields,
)
from ._kit_c13 import (
    qual, deep_resolve, rchain, full_resolve, path_parts, tail_expanded, DictStates, DictVal, arms, truth_under,
    key_read, key_reads_in, is_verbatim_read, field_assigns, recv_is, callable_target, unexpanded_helper_calls, _single_values, const_str,
    choices_as_branches, RegionPaths, entry_constants, Token, const_eval, UNKNOWN, sentinels,
)

R = Rules(
    "C13",
    explanation=(
        "Structural clauses of sequence-number persistence decided on the syntax trees of oscore.py: "
        "MAX_SEQNO is 2**40-1 and new_sequence_number hands out the old counter value and stores old+1 only under "
        "old < MAX_SEQNO; between that increment and the return post_seqnoincrease completes; the file-backed "
        "post_seqnoincrease skips the store only when sender_sequence_number <= sequence_number_persisted and "
        "otherwise advances the bound by the chunk before calling _store, which must complete before the function "
        "ends; _store creates its temp file in the target's directory and on every path writes, flushes, fsyncs and "
        "closes it before os.replace onto basedir/sequence.json, writing sequence_number_persisted under "
        "next-to-send; file name, JSON keys and window fields agree between _store/persist and "
        "_load/initialize_from_persisted; the received entry is the constant 'unknown' exactly when "
        "replay_window_persisted is false, the strike-out callback of the window is _replay_window_changed which "
        "clears the flag before storing, _load maps 'unknown' to flag false and an uninitialised window and a dict "
        "or a missing file to flag true; _destroy sets flag and exact counter before _store and stores before "
        "releasing the lock.  Paper step: with these premises every number returned is smaller than the "
        "next-to-send value in the last completely renamed file, so a reload never hands it out again.  File-system "
        "semantics of replace/fsync and behaviour under I/O errors are not decided."
    ),
    rule_text="symbolic execution of the loop-free counter methods over polynomial normal forms, must-pass/ordering rules on CFGs with exceptional edges cut, writer/reader table comparison",
)

FSC = "oscore.FilesystemSecurityContext"
SEQ = "self.sender_sequence_number"
PERS = "self.sequence_number_persisted"
CHUNK = "self.sequence_number_chunksize"
LIMIT = "self.sequence_number_chunksize_limit"
FLAG = "self.replay_window_persisted"
WINDOW = "self.recipient_replay_window"
Q, P, C, L, W = (Poly.atom(x) for x in "qPCLW")


def _path_nf(q):
    nf = set()
    for t in q.facts():
        _, e, pol, N, _, _, benv = t
        try:
            key, kp = canon(cmp_nf(N, e))
        except NormError:
            continue
        nf.add((key, kp == pol))
    return nf


def _implied(nf, target, positive=()):
    """Do the comparison facts imply target < 0 over the integers?"""
    for key, val in nf:
        if key[0] != "lt":
            continue
        p = key[1] if val else -key[1] - Poly.const(1)
        m = _min_over_positive(p - target, set(positive))
        if m is not None and m >= 0:
            return True
    return False


def _locs(cfg, nodes):
    """every CFG node of the given constructs (a `finally` body has one copy per way of leaving its try)"""
    return {i for n in nodes for i in cfg.locate(n)}


def _self_calls(root, name):
    return [c for c in mcalls(root, name) if chain(c.func.value) == "self"]


def _show_conds(q):
    return "; ".join("%s is %s" % (stmt_text(t[1], 50), t[2]) for t in q.facts()) or "(none)"


# ---------------------------------------------------------------------------


@R.clause("C13.a", "MAX_SEQNO = 2**40-1; new_sequence_number returns the old value and increments by one only below MAX_SEQNO")
def a(ctx):
    mx = ctx.prog.module_const("oscore", "MAX_SEQNO")
    try:
        v = Normalizer().poly(mx).const_value()
    except NormError:
        v = None
    ctx.ob("MAX_SEQNO == 2**40 - 1", v is not None and v == 2 ** 40 - 1, None, None, construct="MAX_SEQNO = %s" % stmt_text(mx), detail="value %s" % v)
    fi = ctx.prog.func("oscore.CanProtect.new_sequence_number")
    ctx.need(is_plain_sync(fi), "new_sequence_number is not a plain function")
    ctx.need(not writes_to_name(fi.node, "MAX_SEQNO") and "MAX_SEQNO" not in params(fi), "MAX_SEQNO is shadowed in new_sequence_number")
    paths = sym_paths(fi, {SEQ: "q"}, rename={"MAX_SEQNO": "M"})
    normal = [q for q in paths if q.normal()]
    ctx.floor("normal paths of new_sequence_number", len(normal), 1)
    M = Poly.atom("M")
    for q in normal:
        st = q.stores(SEQ)
        pin = st[-1][3] if st else fi.node
        step = (q.cp[SEQ] - Q).const_value()
        ctx.ob("the counter advances (by one) for every number handed out", step is not None and step >= 1, fi, pin, detail="counter after the call = %r (q = before)" % q.cp[SEQ],
               construct=stmt_text(pin) if st else "new_sequence_number")
        ret = None
        if q.end[0] == "return" and q.end[1] is not None:
            try:
                ret = q.end[2].poly(q.end[1])
            except NormError:
                ret = None
        off = (ret - Q).const_value() if ret is not None else None
        ctx.ob("the number handed out is the counter value before the increment (below the new counter, not below the old one)",
               off is not None and step is not None and 0 <= off < step, fi, q.end[3] if q.end[0] == "return" else fi.node, detail="returned %r, counter afterwards %r (q = counter before)" % (ret, q.cp[SEQ]))
        nf = _path_nf(q)
        ok = ret is not None and _implied(nf, ret - M)
        conds = [t[1] for t in q.facts()]
        ctx.ob("a number is handed out only while the counter is below MAX_SEQNO", ok, fi, conds[-1] if conds else fi.node, detail="path conditions: %s" % _show_conds(q),
               construct=stmt_text(conds[-1]) if conds else "new_sequence_number")
    ctx.ob("an exhausted context refuses (raises) instead of wrapping", any(q.end[0] == "raise" for q in paths), fi, fi.node, construct="new_sequence_number")


@R.clause("C13.b", "persist before use: post_seqnoincrease completes before the number is returned; the bound grows before _store; _store completes before the end")
def b(ctx):
    fi = ctx.prog.func("oscore.CanProtect.new_sequence_number")
    cfg = cfg_of(fi)
    incs = [n for k, n in stores_to(fi.node, SEQ, nested=False)]
    ctx.floor("stores to sender_sequence_number in new_sequence_number", len(incs), 1)
    posts = _locs(cfg, _self_calls(fi.node, "post_seqnoincrease"))
    for n in incs:
        nid = cfg.loc1(n)
        ok = bool(posts) and must_complete(cfg, nid, posts)
        ctx.ob("after the increment no path returns without post_seqnoincrease() having completed", ok, fi, n,
               detail=None if ok else "path: %s" % witness(cfg, nid, cfg.exit, cut_normal=posts))

    # conditional expressions / min / max in pure assignments are looked at as the branches they stand for, so that
    # every value the chunk (or the bound) can take is a polynomial on a path of its own, with the condition as a fact
    pf = choices_as_branches(ctx.prog, ctx.prog.func(FSC + ".post_seqnoincrease"))
    ctx.need(is_plain_sync(pf), "post_seqnoincrease is not a plain function")
    pcfg = cfg_of(pf)
    ctx.prog.func(FSC + "._store")  # anchor: a renamed _store is an analysis error, a missing call a violation
    store_calls = _self_calls(pf.node, "_store")
    snodes = _locs(pcfg, store_calls)
    for k, n in stores_to(pf.node, PERS, nested=False):
        nid = pcfg.loc1(n)
        ok = must_complete(pcfg, nid, snodes)
        ctx.ob("once the bound is advanced no path reaches the end without _store() having completed", ok, pf, n,
               detail=None if ok else "path: %s" % witness(pcfg, nid, pcfg.exit, cut_normal=snodes))
    paths = sym_paths(pf, {SEQ: "q", PERS: "P", CHUNK: "C"}, consts={LIMIT: "L"})
    normal = [q for q in paths if q.normal()]
    ctx.floor("normal paths of post_seqnoincrease", len(normal), 2)
    nstore_paths = 0
    uses_limit = False
    for q in normal:
        sc = [t for t in q.calls() if t[1] in store_calls]
        pst = q.stores(PERS)
        if not sc:
            ok = _implied(_path_nf(q), Q - P - Poly.const(1))
            conds = [t[1] for t in q.facts()]
            ctx.ob("the store is skipped only when sender_sequence_number <= sequence_number_persisted", ok, pf, conds[-1] if conds else pf.node,
                   detail="path conditions: %s" % _show_conds(q), construct=stmt_text(conds[-1]) if conds else "post_seqnoincrease")
            ctx.ob("the bound is not moved without being stored", q.cp[PERS] == P, pf, pst[-1][3] if pst else pf.node, construct=stmt_text(pst[-1][3]) if pst else "post_seqnoincrease")
            continue
        nstore_paths += 1
        snap = sc[-1][2][0][PERS]
        ctx.ob("the bound written by _store is the old bound plus the chunk (advanced before the store)", snap == P + C, pf, sc[-1][1],
               detail="sequence_number_persisted at the _store call = %r (P = before, C = chunk)" % snap)
        ctx.ob("the bound in memory after the call is the one that was stored", q.cp[PERS] == snap, pf, pst[-1][3] if pst else sc[-1][1],
               detail="after = %r, stored = %r" % (q.cp[PERS], snap))
        back = (q.cp[SEQ] - Q).const_value()
        ctx.ob("post_seqnoincrease never moves the counter backwards", back is not None and back >= 0, pf, (q.stores(SEQ) or [(0, 0, 0, pf.node)])[-1][3],
               construct=stmt_text(q.stores(SEQ)[-1][3]) if q.stores(SEQ) else "post_seqnoincrease")
        cst = q.stores(CHUNK)
        # Necessary condition: the chunk is >= 1 after the call whenever chunk and limit were >= 1 before (then the
        # next store advances the bound past the counter again).  Decided on the value the chunk has on this path: a
        # polynomial with non-negative coefficients over chunk (C) and limit (L) whose minimum over C, L >= 1 is >= 1
        # (kept: C, doubled: 2*C, capped: L, either arm of min(2*C, L) however it is spelled), or a value the path's own
        # conditions bound from below (`max(1, C // 2)`: the arm C // 2 is taken under 1 < C // 2).
        chunk = q.cp[CHUNK]
        lb = _min_over_positive(chunk, {"C", "L"})
        ok = (lb is not None and lb >= 1) or _implied(_path_nf(q), Poly.const(0) - chunk, positive=("C", "L"))
        ctx.ob("the chunk stays positive: it is kept, doubled, or capped by the limit", ok, pf, cst[-1][3] if cst else pf.node,
               detail="chunk after = %r (C = chunk before, L = limit; conditions: %s)" % (chunk, _show_conds(q)), construct=stmt_text(cst[-1][3]) if cst else "post_seqnoincrease")
        uses_limit = uses_limit or any(a == "L" for mono in chunk.t for a, _e in mono)
    ctx.ob("post_seqnoincrease has a path that stores", nstore_paths >= 1, pf, pf.node, construct="post_seqnoincrease")
    ctx.note("not decided (outside the crash/clean-stop fault model): when _store() raises after sequence_number_persisted was advanced, "
             "the in-memory bound stays ahead of the file and up to chunk-1 further numbers are issued uncovered")

    # __init__: counters start from what _load read
    init = ctx.prog.func(FSC + ".__init__")
    icfg = cfg_of(init)
    loads = _locs(icfg, _self_calls(init.node, "_load"))
    ctx.floor("_load() calls in __init__", len(loads), 1)
    fas = field_assigns(init.node)
    pst = [(v, n) for ch, v, n in fas if ch == PERS]
    ctx.floor("stores to sequence_number_persisted in __init__", len(pst), 1)
    ctx.need(len(pst) == len(stores_to(init.node, PERS, nested=False)), "__init__ changes sequence_number_persisted other than by plain assignment")
    single = _single_values(init.node)
    for v, n in pst:
        # the value may reach the assignment through locals; each of them must be taken after _load() completed as well
        e_, fresh = v, True
        for _ in range(4):
            if isinstance(e_, ast.Name) and e_.id in single:
                fresh = fresh and after_normal(icfg, loads, icfg.loc1(writes_to_name(init.node, e_.id)[0]))
                e_ = single[e_.id]
            else:
                break
        ctx.ob("__init__ sets the persisted bound to the loaded sender_sequence_number", e_ is not None and chain(e_) == SEQ and fresh, init, n)
        ctx.ob("the bound is initialised after _load() completed", after_normal(icfg, loads, icfg.loc1(n)), init, n)
    ctx.ob("every normal path of __init__ initialises the bound", must_complete(icfg, icfg.entry, _locs(icfg, [n for _, n in pst])), init, pst[0][1])
    later = [n for k, n in stores_to(init.node, SEQ, nested=False) if any(icfg.loc1(n) in icfg.reach({icfg.loc1(x)}) for _, x in pst)]
    ctx.ob("the counter is not changed in __init__ after the bound was taken from it", not later, init, later[0] if later else pst[0][1])
    a_ = init.node.args
    allp = a_.posonlyargs + a_.args
    defaults = dict(zip([x.arg for x in allp[len(allp) - len(a_.defaults):]], a_.defaults))
    defaults.update({k.arg: d_ for k, d_ in zip(a_.kwonlyargs, a_.kw_defaults) if d_ is not None})

    def const_int(e):
        """value of a constant expression, named module-level constants included"""
        env = {}
        for x in ast.walk(e):
            if isinstance(x, ast.Name) and x.id not in env:
                try:
                    env[x.id] = ctx.prog.module_const(init.module.name, x.id)
                except AnalysisError:
                    pass
        try:
            return norm.consteval(e, env)
        except NormError:
            return None

    def positive_start(field, label, what):
        fst = [(v, n) for ch, v, n in fas if ch == field]
        ctx.floor("stores to %s in __init__" % label, len(fst), 1)
        ctx.need(len(fst) == len(stores_to(init.node, field, nested=False)), "__init__ changes %s other than by plain assignment" % label)
        for v, n in fst:
            v = deep_resolve(init.node, v) if v is not None else None
            ok = isinstance(v, ast.Name) and v.id in defaults and not writes_to_name(init.node, v.id)
            val = None
            if ok:
                val = const_int(defaults[v.id])
                ok = isinstance(val, int) and not isinstance(val, bool) and val >= 1
            elif v is not None:
                # or a positive constant itself
                val = const_int(v)
                ok = isinstance(val, int) and not isinstance(val, bool) and val >= 1
            ctx.ob("the initial %s is a constructor parameter whose default is a positive constant" % what, ok, init, n, detail="default %r" % val)

    positive_start(CHUNK, "sequence_number_chunksize", "chunk")
    if uses_limit:
        # a capped chunk is positive because the cap is: same premise for the limit as for the start value, and nothing
        # else in the class changes it
        positive_start(LIMIT, "sequence_number_chunksize_limit", "chunk limit")
        others = {f: hits for f, hits in field_writers(ctx.prog, "sequence_number_chunksize_limit", modules=[init.module.name]).items() if f != init.short}
        ctx.ob("the chunk limit is set by the constructor only", not others, init, init.node, construct="writers of sequence_number_chunksize_limit",
               detail="also written in %s" % ", ".join(sorted(others)) if others else None)


# ---------------------------------------------------------------------------
# _store


class _Store:
    pass


def _cs(ctx, fi):
    """resolver of named string constants (module / class level) in the scope of fi"""
    return lambda x: const_str(ctx.prog, fi, x)


def _fn(ctx, short):
    """anchor function with helper methods called in tail position expanded (see _kit_c13.tail_expanded)"""
    return tail_expanded(ctx.prog, ctx.prog.func(short))


def _kw(call, name, pos=None):
    for k in call.keywords:
        if k.arg == name:
            return k.value
    if pos is not None and pos < len(call.args) and not any(isinstance(a, ast.Starred) for a in call.args[: pos + 1]):
        return call.args[pos]
    return None


def _trace_calls(fnode, e, pred, depth=4):
    """calls (nodes of the function's own tree) satisfying pred that the value of `e` is computed from: those inside `e`
    and, through single-assignment locals, those inside the values the names in `e` stand for"""
    out = []
    for x in ast.walk(e):
        if isinstance(x, ast.Call) and pred(x):
            out.append(x)
        elif isinstance(x, ast.Name) and isinstance(x.ctx, ast.Load) and depth:
            ws = writes_to_name(fnode, x.id)
            v = assigned_value(fnode, x.id)
            if v is not None and len(ws) == 1:
                out.extend(_trace_calls(fnode, v, pred, depth - 1))
    return out


def _store_model(ctx):
    cached = ctx.prog.__dict__.get("_c13_store_model")
    if cached is not None:
        return cached
    m = _Store()
    m.fi = fi = _fn(ctx, FSC + "._store")
    m.cfg = cfg = cfg_of(fi)
    ctx.need(is_plain_sync(fi), "_store is not a plain function")
    # parent map for `with` containment
    m.parent = {}
    for p in ast.walk(fi.node):
        for ch in ast.iter_child_nodes(p):
            m.parent[id(ch)] = p
    # temp file
    m.fd = m.tmpname = m.fobj = None
    m.tmpdir = None
    m.creates = []
    for n in walk_no_nested(fi.node):
        if isinstance(n, ast.Assign) and isinstance(n.value, ast.Call):
            cn = qual(fi, n.value.func)
            if cn == "tempfile.mkstemp":
                t = n.targets[0]
                ctx.need(len(n.targets) == 1 and isinstance(t, (ast.Tuple, ast.List)) and len(t.elts) == 2 and all(isinstance(e, ast.Name) for e in t.elts),
                         "mkstemp result is not unpacked into (handle, name)")
                m.fd, m.tmpname = t.elts[0].id, ast.Name(id=t.elts[1].id, ctx=ast.Load())
                m.tmpdir = _kw(n.value, "dir", 2)
                m.creates.append(n)
            elif cn == "tempfile.NamedTemporaryFile":
                t = n.targets[0]
                ctx.need(len(n.targets) == 1 and isinstance(t, ast.Name), "NamedTemporaryFile result is not bound to a local")
                d = _kw(n.value, "delete")
                ctx.need(isinstance(d, ast.Constant) and d.value is False, "NamedTemporaryFile without delete=False")
                m.fobj = t.id
                m.tmpname = ast.Attribute(value=ast.Name(id=t.id, ctx=ast.Load()), attr="name", ctx=ast.Load())
                m.tmpdir = _kw(n.value, "dir", 7)
                m.creates.append(n)
    ctx.need(len(m.creates) == 1, "_store creates its temp file by an idiom outside the rule's vocabulary (mkstemp / NamedTemporaryFile)")
    ctx.need(m.fd is None or len(writes_to_name(fi.node, m.fd)) == 1, "the temp file handle is rebound")
    ctx.need(not isinstance(m.tmpname, ast.Name) or len(writes_to_name(fi.node, m.tmpname.id)) == 1, "the temp file name is rebound")
    # file object opened on the handle
    m.withs = []  # With statements that close the file object on exit
    m.unbuffered = False
    m.openers = []
    if m.fd is not None:
        for c in calls_in(fi.node):
            if qual(fi, c.func) in ("io.open", "open", "os.fdopen") and c.args and isinstance(c.args[0], ast.Name) and c.args[0].id == m.fd:
                m.openers.append(c)
        ctx.need(len(m.openers) <= 1, "the temp file handle is opened more than once")
        for c in m.openers:
            b = _kw(c, "buffering", 2)
            m.unbuffered = isinstance(b, ast.Constant) and b.value == 0
            par = m.parent.get(id(c))
            if isinstance(par, ast.withitem):
                w = m.parent.get(id(par))
                ctx.need(par.optional_vars is not None and isinstance(par.optional_vars, ast.Name), "the opened temp file is not bound by `with ... as f`")
                m.fobj = par.optional_vars.id
                m.withs.append(w)
            elif isinstance(par, ast.Assign) and len(par.targets) == 1 and isinstance(par.targets[0], ast.Name):
                m.fobj = par.targets[0].id
            else:
                ctx.need(False, "the opened temp file is neither bound by `with` nor assigned to a local")
    if m.fobj is not None:
        ctx.need(len(writes_to_name(fi.node, m.fobj)) == 1, "the temp file object is rebound")
        for w in walk_no_nested(fi.node):
            if isinstance(w, ast.With) and w not in m.withs:
                for it in w.items:
                    if isinstance(it.context_expr, ast.Name) and it.context_expr.id == m.fobj:
                        m.withs.append(w)

    def is_f(e):
        return m.fobj is not None and isinstance(e, ast.Name) and e.id == m.fobj

    def is_fd(e):
        if m.fd is not None and isinstance(e, ast.Name) and e.id == m.fd:
            return True
        b = match("$f.fileno()", e)
        return b is not None and is_f(b["f"])

    m.writes, m.flushes, m.fsyncs, m.closes, m.renames = [], [], [], [], []
    m.raw_write = False
    for c in calls_in(fi.node):
        cn = qual(fi, c.func) or ""
        if isinstance(c.func, ast.Attribute) and is_f(c.func.value):
            if c.func.attr in ("write", "writelines"):
                m.writes.append((c, c.args[0] if c.args else None))
            elif c.func.attr == "flush":
                m.flushes.append(c)
            elif c.func.attr == "close":
                m.closes.append(c)
        elif cn == "os.write" and c.args and is_fd(c.args[0]):
            m.writes.append((c, c.args[1] if len(c.args) > 1 else None))
            m.raw_write = True
        elif cn == "json.dump" and len(c.args) >= 2 and is_f(c.args[1]):
            m.writes.append((c, c))
        elif cn in ("os.fsync", "os.fdatasync") and c.args and is_fd(c.args[0]):
            m.fsyncs.append(c)
        elif cn == "os.close" and c.args and is_fd(c.args[0]):
            m.closes.append(c)
        elif cn in ("os.replace", "os.rename") and len(c.args) == 2:
            m.renames.append(c)
    ctx.prog.__dict__["_c13_store_model"] = m
    return m


def _inside(m, node, container):
    n = node
    while n is not None:
        if n is container:
            return True
        n = m.parent.get(id(n))
    return False


def _payload(ctx, m):
    """What _store serialises, decided per path: {key: [(value expr, statement)]} (union over the paths) and
    m.payload = [(serialising call, path, DictVal)].  The object handed to json.dumps / json.dump is evaluated with the
    dict model of _kit_c13.DictStates at the serialising statement, so a dict literal, dict(...), d[k] = v under if/else,
    a conditional expression as value, update()/setdefault() and a default that is overwritten later all give the same
    contents; values are split into the arms of conditional expressions where they are judged."""
    if getattr(m, "payload", None) is not None:
        return m.entries
    fi = m.fi
    sites = []
    for c, arg in m.writes:
        if arg is None:
            continue
        if arg is c:  # json.dump(obj, f)
            sites.append(c)
            continue
        sites.extend(_trace_calls(fi.node, arg, lambda x: qual(fi, x.func) == "json.dumps" and bool(x.args)))
    sites = list({id(c): c for c in sites}.values())
    ctx.need(len(sites) >= 1, "what _store writes is not json.dumps(...)/json.dump(...) of an object the rule can trace")
    ds = DictStates(fi, const=lambda x: const_str(ctx.prog, fi, x))
    payload = []
    entries = {}
    seen = set()
    for dc in sites:
        nid = m.cfg.loc1(dc)
        # the dict model follows normal flow only: contents put together in a try body that was left by an exception
        # would be missed, so such a shape is refused
        ctx.need(not any(nd.kind == "handler" and nid in m.cfg.reach({nd.id}) for nd in m.cfg.nodes),
                 "the serialising statement of _store can be reached through an exception handler; the rule follows the dict only along normal flow")
        states = ds.at(nid, dc.args[0])
        ctx.need(len(states) >= 1, "the serialising statement of _store is on no normal path")
        for path, dv in states:
            ctx.need(isinstance(dv, DictVal), "the serialised object is not a dict the rule can follow: %s" % stmt_text(dc.args[0], 60))
            ctx.need(dv.opaque is None, "the persisted dict is built in a way the rule cannot follow (%s)" % dv.opaque)
            payload.append((dc, path, dv))
            for k, (v, n) in dv.entries.items():
                key = (k, dump(v), id(n))
                if key not in seen:
                    seen.add(key)
                    entries.setdefault(k, []).append((v, n))
    m.ds, m.payload, m.entries = ds, payload, entries
    return entries


def _target_parts(ctx, fi, e):
    jp = path_parts(ctx.prog, fi, e)
    ctx.need(jp is not None, "the rename target is not <directory>/<constant name> in a spelling the rule knows (os.path.join(D, N), D + '/' + N, f'{D}/N')")
    return jp


@R.clause("C13.c", "_store: temp file in the target's directory; write, flush, fsync, close, then replace, on every path; next-to-send is sequence_number_persisted")
def c(ctx):
    m = _store_model(ctx)
    fi, cfg = m.fi, m.cfg
    ctx.floor("rename calls in _store", len(m.renames), 1)
    ctx.floor("write calls in _store", len(m.writes), 1)
    def locs(nodes):
        # every CFG copy of the statements (a `finally` body exists once per way of leaving the try)
        return {i for n in nodes for i in cfg.locate(n)}

    W_ = locs(c for c, _ in m.writes)
    FL = locs(m.flushes)
    FS = locs(m.fsyncs)
    CL = locs(m.closes)
    RP = locs(m.renames)
    need_flush = not (m.unbuffered or (m.raw_write and all(qual(fi, c.func) == "os.write" for c, _ in m.writes)))
    create = m.creates[0]
    for r, rn in [(r, rn) for r in m.renames for rn in cfg.locate(r)]:
        src, dst = r.args
        ctx.ob("the file renamed onto the target is the temp file that was written", same(deep_resolve(fi.node, src), m.tmpname) or same(src, m.tmpname), fi, r)
        tdir, tname = _target_parts(ctx, fi, dst)
        tdir_r = full_resolve(ctx.prog, fi, tdir)
        ok = m.tmpdir is not None and chain(tdir_r) is not None and chain(tdir_r).startswith("self.") and same(full_resolve(ctx.prog, fi, m.tmpdir), tdir_r) \
            and not stores_to(fi.node, chain(tdir_r))
        ctx.ob("the temp file is created in the directory of the target (same file system, so the rename is atomic)", ok, fi, create,
               detail="temp dir %s, target dir %s" % (stmt_text(m.tmpdir) if m.tmpdir is not None else "(default temp dir)", stmt_text(tdir)))
        ok = after_normal(cfg, W_, rn)
        ctx.ob("the data is written before the rename", ok, fi, r, detail=None if ok else "path: %s" % witness(cfg, cfg.entry, rn, cut_normal=W_))
        if need_flush:
            for c_, wn in [(c_, wn) for c_, _ in m.writes for wn in cfg.locate(c_)]:
                ok = bool(FL) and must_complete(cfg, wn, FL, to=rn)
                ctx.ob("every write is flushed before the rename", ok, fi, c_, detail=None if ok else "path: %s" % witness(cfg, wn, rn, cut_normal=FL))
        pre = FL if need_flush else W_
        ctx.floor("flush/write sites preceding fsync", len(pre), 1)
        for n in sorted(pre):
            ok = bool(FS) and must_complete(cfg, n, FS, to=rn)
            ctx.ob("the %s is followed by os.fsync before the rename" % ("flush" if need_flush else "write"), ok, fi, cfg.nodes[n].ast,
                   detail=None if ok else "path: %s" % witness(cfg, n, rn, cut_normal=FS))
        closed_by_with = [w for w in m.withs if not _inside(m, r, w)]
        syncs = m.fsyncs or [c_ for c_, _ in m.writes]
        for s, sn in [(s, sn) for s in syncs for sn in cfg.locate(s)]:
            ok = any(_inside(m, s, w) for w in closed_by_with) or (bool(CL) and must_complete(cfg, sn, CL, to=rn))
            ctx.ob("the temp file is closed between fsync and the rename", ok, fi, r,
                   detail=None if ok else "the rename happens while the file may still be open (path: %s)" % witness(cfg, sn, rn, cut_normal=CL))
        for s in m.fsyncs:
            late = [c_ for c_, _ in m.writes for wn in cfg.locate(c_) if wn in reach_cut(cfg, locs([s]), cut_normal=FS, include_src=False) and rn in cfg.reach({wn})
                    and not must_complete(cfg, wn, FS, to=rn)]
            ctx.ob("nothing is written between the last fsync and the rename", not late, fi, late[0] if late else s)
    ok = must_complete(cfg, cfg.entry, RP)
    ctx.ob("every normal return of _store has replaced the file", ok, fi, m.renames[0], detail=None if ok else "path: %s" % witness(cfg, cfg.entry, cfg.exit, cut_normal=RP))
    entries = _payload(ctx, m)
    ctx.need(bool(entries), "persisted dict has no entries")
    missing = [dc for dc, path, dv in m.payload if "next-to-send" not in dv.entries]
    ctx.ob("the persisted dict has a next-to-send entry (on every path)", not missing, fi, missing[0] if missing else m.writes[0][0],
           construct=stmt_text(m.writes[0][0]))
    for v, n in entries.get("next-to-send", []):
        # every value the entry can take (both arms of a conditional expression) must be the bound
        ok = all(chain(leaf) == PERS for leaf, _h in arms(v))
        ctx.ob("the value written under next-to-send is sequence_number_persisted (the bound, not the counter)", ok, fi, n, detail="value %s" % stmt_text(v),
               construct="'next-to-send': %s" % stmt_text(v))


# ---------------------------------------------------------------------------
# reader side


class _Load:
    pass


def _is_json_load_of(fi, v, fnames, open_calls=()):
    """v is json.load(F) or json.loads(F.read()), F being one of the names of the file object or the open call itself"""
    if not isinstance(v, ast.Call) or not v.args:
        return False
    q = qual(fi, v.func)
    a = v.args[0]

    def is_file(x):
        return (isinstance(x, ast.Name) and x.id in fnames) or any(x is o for o in open_calls)

    if q == "json.load":
        return is_file(a)
    if q == "json.loads":
        b = match("$f.read()", a)
        return b is not None and is_file(b["f"])
    return False


def _assign_pairs(fnode):
    """(target, value, statement) of every plain binding, the parallel form `a, b = x, y` split"""
    for n in walk_no_nested(fnode):
        if isinstance(n, ast.Assign):
            for t in n.targets:
                if isinstance(t, (ast.Tuple, ast.List)) and isinstance(n.value, (ast.Tuple, ast.List)) and len(t.elts) == len(n.value.elts) \
                        and not any(isinstance(x, ast.Starred) for x in list(t.elts) + list(n.value.elts)):
                    for tt, vv in zip(t.elts, n.value.elts):
                        yield tt, vv, n
                else:
                    yield t, n.value, n
        elif isinstance(n, ast.AnnAssign) and n.value is not None:
            yield n.target, n.value, n


def _load_model(ctx, target_name):
    """The place where _load (with helpers called in tail position expanded) reads <dir>/<target_name>: an
    `open(<path>)` for every spelling of the path that path_parts resolves, whose file object (bound by `with ... as f`
    or `f = open(...)`, or the call itself) is handed to json.load / json.loads(f.read()) and the result bound to a
    local.  The local may be bound elsewhere too (e.g. to None where the file is missing); what it holds where it is
    read is decided per feasible path (see _load_paths)."""
    cache = ctx.prog.__dict__.setdefault("_c13_load_model", {})
    if target_name in cache:
        return cache[target_name]
    m = _Load()
    m.fi = fi = _fn(ctx, FSC + "._load")
    m.cfg = cfg_of(fi)
    m.var = None
    m.dir = None
    m.open_call = None
    m.load_stmt = m.load_value = None
    m.token = Token("content of %s" % target_name)
    m.opens = []
    for c in calls_in(fi.node):
        if qual(fi, c.func) in ("open", "io.open") and c.args:
            jp = path_parts(ctx.prog, fi, c.args[0])
            if jp is not None and jp[1] == target_name:
                m.opens.append(c)
    if not m.opens:
        left = unexpanded_helper_calls(ctx.prog, fi)
        ctx.need(not left, "_load delegates to %s, which cannot be expanded in place; the part that reads %s may live there"
                 % (", ".join(sorted({stmt_text(c.func, 40) for c in left})), target_name))
    parent = {}
    for p_ in ast.walk(fi.node):
        for ch in ast.iter_child_nodes(p_):
            parent[id(ch)] = p_
    loads = []
    for o in m.opens:
        par = parent.get(id(o))
        scope, fnames = fi.node, set()
        if isinstance(par, ast.withitem) and isinstance(par.optional_vars, ast.Name):
            # `with open(..) as f`: f means this file inside the block (the name may be used for other files elsewhere)
            scope = parent.get(id(par))
            inner = {id(x) for x in ast.walk(scope)} - {id(scope)}
            if not any(id(w) in inner for w in writes_to_name(fi.node, par.optional_vars.id)):
                fnames.add(par.optional_vars.id)
        elif isinstance(par, ast.Assign) and len(par.targets) == 1 and isinstance(par.targets[0], ast.Name) and len(writes_to_name(fi.node, par.targets[0].id)) == 1:
            fnames.add(par.targets[0].id)
        for t, v, st in _assign_pairs(scope):
            if isinstance(t, ast.Name) and _is_json_load_of(fi, v, fnames, [o]):
                loads.append((o, t.id, v, st))
    if len(loads) == 1:
        o, m.var, m.load_value, m.load_stmt = loads[0]
        m.open_call = o
        # what json.load / json.loads returns without hooks is plain data (None, bool, numbers, strings, lists, dicts)
        m.token.plain_data = not m.load_value.keywords
        m.dir = path_parts(ctx.prog, fi, o.args[0])[0]
    cache[target_name] = m
    return m


# calls that cannot fail with FileNotFoundError: the error comes from resolving a path (open, stat, rename, ...), not
# from decoding, converting or reading an object that is already open
_NO_FNF_FUNCS = {"json.load", "json.loads", "int", "float", "str", "bool", "bytes", "len", "isinstance", "dict", "list", "tuple", "set", "repr",
                 "min", "max", "os.path.join", "os.fspath"}
_NO_FNF_METHODS = {"read", "readline", "readlines", "decode", "encode", "get", "items", "keys", "values", "strip", "split", "fileno", "close"}


def _node_exprs(node):
    a = node.ast
    if a is None:
        return []
    if node.kind == "with":
        return [it.context_expr for it in a.items]
    if node.kind == "for":
        return [a.iter]
    if node.kind == "handler":
        return []
    return [a]


def _fnf_calls(fi, node):
    """the calls evaluated by the CFG node that may raise FileNotFoundError"""
    out = []
    for e in _node_exprs(node):
        for c in walk_no_nested(e):
            if not isinstance(c, ast.Call) or is_log_call(c):
                continue
            if qual(fi, c.func) in _NO_FNF_FUNCS:
                continue
            if isinstance(c.func, ast.Attribute) and c.func.attr in _NO_FNF_METHODS:
                continue
            out.append(c)
    return out


def _handler_classes(h):
    if h.type is None:
        return None
    names = h.type.elts if isinstance(h.type, ast.Tuple) else [h.type]
    return [chain(x) for x in names]


def _load_paths(ctx, lm):
    """Feasible paths of _load from the open() of the state file on (RegionPaths): constants bound to locals are
    propagated, so that a presence flag set next to the json.load / in the FileNotFoundError handler and tested later
    is the same as code in the `else` clause / the handler; the local the content is bound to holds lm.token where that
    binding reaches.  An exceptional edge into a handler for FileNotFoundError only is followed from statements that can
    raise that error (anything but decoding / reading an open file, see _NO_FNF_*)."""
    if getattr(lm, "rp", None) is not None:
        return lm.rp
    fi, cfg = lm.fi, lm.cfg
    on = cfg.loc1(lm.open_call)
    lm.open_nid = on

    def special(value, env, node):
        return lm.token if value is lm.load_value else None

    def exc_feasible(src, dst):
        if dst.kind == "handler":
            cls = _handler_classes(dst.ast)
            if cls and all(c == "FileNotFoundError" for c in cls):
                return bool(_fnf_calls(fi, src)) or src.kind == "raise"
        return True

    # what stands for "no file" may be any object with an identity of its own, not only None / False: a class- or
    # module-level sentinel (`self._NO_FILE`, `_MISSING = object()`), an Enum member, a local `missing = object()`
    # (_kit_c13.Sentinels); bound in the handler or before the try, tested with is / == / in afterwards
    resolve = sentinels(ctx.prog).resolver(fi)
    lm.rp = RegionPaths(fi, on, env0=entry_constants(fi, cfg, on, resolve=resolve), special=special, exc_feasible=exc_feasible, resolve=resolve)
    lm.rp.paths()
    ctx.need(not lm.rp.cut, "_load loops after opening the state file; the rule follows loop-free code there")
    return lm.rp


def _absent_before(lm, p, i, handlers):
    """on path p, before position i, the open() of the state file failed into one of the given handlers"""
    return any(p.took(lm.open_nid, h, "exc", before=i) for h in handlers)


def _loaded_before(lm, p, i):
    """on path p, before position i, the statement that decodes the state file completed"""
    ln = set(lm.cfg.locate(lm.load_stmt))
    return any(j < i and p.completed(j) for j in p.positions(ln))


def _discriminating_reads(fnode, var):
    """Loads of `var` that only ask *which* object it is, never what is in it: an operand of is / is not / == / != /
    in <display> / not in <display>, the first argument of isinstance(), or the name itself as (part of) a condition
    (`if x`, `not x`, `x and ...` inside a condition).  Such a read is how the code tells the decoded file from a
    stand-in (None, a sentinel) in the first place; it reads no key, so it does not matter to the reader/writer
    agreement what the local holds there."""
    parent = {}
    for p_ in walk_no_nested(fnode):
        for ch in ast.iter_child_nodes(p_):
            parent[id(ch)] = p_
    out = set()

    def in_condition(n):
        """n's value is used for its truth only"""
        p_ = parent.get(id(n))
        if isinstance(p_, ast.UnaryOp) and isinstance(p_.op, ast.Not):
            return True
        if isinstance(p_, (ast.If, ast.While, ast.IfExp, ast.Assert)) and p_.test is n:
            return True
        if isinstance(p_, ast.BoolOp):
            return in_condition(p_)
        return False

    for n in walk_no_nested(fnode):
        if not (isinstance(n, ast.Name) and n.id == var and isinstance(n.ctx, ast.Load)):
            continue
        p_ = parent.get(id(n))
        if isinstance(p_, ast.Compare):
            operands = [p_.left] + list(p_.comparators)
            ok = True
            for i, op in enumerate(p_.ops):
                l, r = operands[i], operands[i + 1]
                if l is not n and r is not n:
                    continue
                if isinstance(op, (ast.Is, ast.IsNot, ast.Eq, ast.NotEq)):
                    continue
                if isinstance(op, (ast.In, ast.NotIn)) and l is n and isinstance(r, (ast.Tuple, ast.List, ast.Set)):
                    continue
                ok = False  # `k in x`, `x < y`: reads the content
            if ok:
                out.add(id(n))
        elif isinstance(p_, ast.Call) and isinstance(p_.func, ast.Name) and p_.func.id == "isinstance" and p_.args and p_.args[0] is n:
            out.add(id(n))
        elif in_condition(n):
            out.add(id(n))
    return out


def _reads_see_file(ctx, lm):
    """wherever _load reads the content of the local the file was decoded into, it holds that content: on every
    feasible path (reads that only discriminate the object -- `x is None`, `x is self._MISSING` -- excepted)"""
    fi, cfg = lm.fi, lm.cfg
    rp = _load_paths(ctx, lm)
    which = _discriminating_reads(fi.node, lm.var)
    uses = set()
    for n in walk_no_nested(fi.node):
        if isinstance(n, ast.Name) and n.id == lm.var and isinstance(n.ctx, ast.Load) and id(n) not in which:
            uses.update(cfg.locate(n))
    for nid in uses:
        if not cfg.is_reachable(nid):
            continue
        if nid in cfg.reach({cfg.entry}, avoid={lm.open_nid}, include_src=True):
            return False  # read on a path that never opened the file
        for p in rp.through({nid}):
            for i in p.positions({nid}):
                if p.envs[i].get(lm.var) is not lm.token:
                    return False
    return True


def _reader_keys(ctx, m):
    keys = {}
    for k, n in key_reads_in(m.fi.node, m.var, _cs(ctx, m.fi)):
        keys.setdefault(k, []).append(n)
    return keys


def _writer_side(ctx):
    sm = _store_model(ctx)
    ctx.floor("rename calls in _store", len(sm.renames), 1)
    jp = _target_parts(ctx, sm.fi, sm.renames[0].args[1])
    entries = _payload(ctx, sm)
    return sm, jp, entries


def _is_persist(v):
    return isinstance(v, ast.Call) and isinstance(v.func, ast.Attribute) and v.func.attr == "persist" and not v.args and not v.keywords


def _window_keys(entries):
    """keys of the persisted dict under which (on some path, in some arm) a window's persist() output is stored"""
    return sorted(k for k, vs in entries.items() if any(_is_persist(leaf) for v, _ in vs for leaf, _h in arms(v)))


def _strip_int(v):
    if isinstance(v, ast.Call) and isinstance(v.func, ast.Name) and v.func.id == "int" and len(v.args) == 1 and not v.keywords:
        return v.args[0]
    return v


@R.clause("C13.d", "file name, JSON keys and window fields agree between the writers (_store, persist) and the readers (_load, initialize_from_persisted)")
def d(ctx):
    sm, (tdir, tname), entries = _writer_side(ctx)
    lm = _load_model(ctx, tname)
    ctx.ob("_load reads the file _store renames onto (%s)" % tname, lm.var is not None, sm.fi, sm.renames[0], detail="no `x = json.load(<open(<dir>/%s)>)` in _load" % tname)
    if lm.var is None:
        return
    lf = lm.fi
    ctx.ob("reader and writer use the same directory", same(full_resolve(ctx.prog, sm.fi, tdir), full_resolve(ctx.prog, lf, lm.dir)), lf, lm.open_call,
           detail="writer %s, reader %s" % (stmt_text(tdir), stmt_text(lm.dir)))
    # the local may be bound on other paths as well (None where the file is missing): what matters is that every read
    # of it sees the decoded file
    ctx.need(_reads_see_file(ctx, lm), "the local the state file is decoded into (%s) may hold something else where _load reads it" % lm.var)
    rkeys = _reader_keys(ctx, lm)
    ctx.need(None not in rkeys, "_load reads the persisted object with a non-constant key")
    wk, rk = set(entries), set(rkeys)
    for k in sorted(wk | rk):
        if k in wk and k in rk:
            ctx.ob("key %r is written by _store and read by _load" % k, True, lf, rkeys[k][0])
        elif k in rk:
            ctx.ob("every key _load reads is written by _store", False, lf, rkeys[k][0], detail="key %r is never written (written: %s)" % (k, sorted(wk)))
        else:
            ctx.ob("every key _store writes is read by _load", False, sm.fi, entries[k][0][1], detail="key %r is never read (read: %s)" % (k, sorted(rk)),
                   construct="%r: %s" % (k, stmt_text(entries[k][0][0])))
    ctx.floor("keys of sequence.json", len(wk), 2)
    # the counter: next-to-send -> sender_sequence_number
    fromfile = []
    for ch, v, n in field_assigns(lf.node):
        if ch != SEQ or v is None:
            continue
        rv = deep_resolve(lf.node, v, keep={lm.var})
        reads = key_reads_in(rv, lm.var, _cs(ctx, lf))
        if reads:
            fromfile.append((n, rv, reads))
    ctx.floor("assignments of sender_sequence_number from the file in _load", len(fromfile), 1)
    for n, rv, reads in fromfile:
        # unchanged: the entry itself or int(entry)
        ok = is_verbatim_read(_strip_int(rv), lm.var, "next-to-send", _cs(ctx, lf))
        ctx.ob("the counter is restored from next-to-send, unchanged", ok, lf, n)
    # the window: key under which persist() is stored == key handed to initialize_from_persisted
    wkeys = _window_keys(entries)
    ctx.need(len(wkeys) == 1, "persist() output is stored under %d keys" % len(wkeys))
    ifp = mcalls(lf.node, "initialize_from_persisted")
    ctx.floor("initialize_from_persisted calls in _load", len(ifp), 1)
    for c_ in ifp:
        a0 = deep_resolve(lf.node, c_.args[0], keep={lm.var}) if c_.args else None
        r = key_read(a0, lm.var, _cs(ctx, lf)) if a0 is not None else None
        k = r[0] if r is not None else None
        ctx.ob("the window is restored from the entry persist() was stored under", k == wkeys[0] and is_verbatim_read(a0, lm.var, k, _cs(ctx, lf)), lf, c_, detail="written under %r, read from %r" % (wkeys[0], k))
        ctx.ob("the window restored is the context's recipient_replay_window (the one persisted)", recv_is(lf.node, c_.func.value, WINDOW), lf, c_)
    for k, vs in entries.items():
        for v, n in vs:
            for leaf, _h in arms(v):
                if _is_persist(leaf):
                    ctx.ob("the window persisted is the context's recipient_replay_window", recv_is(sm.fi.node, leaf.func.value, WINDOW), sm.fi, n)
    # ReplayWindow.persist <-> initialize_from_persisted
    pf = ctx.prog.func("oscore.ReplayWindow.persist")
    pcfg = cfg_of(pf)
    rets = [n for n in walk_no_nested(pf.node) if isinstance(n, ast.Return)]
    ctx.need(len(rets) >= 1 and all(r_.value is not None for r_ in rets), "ReplayWindow.persist does not return a value")
    pds = DictStates(pf, const=_cs(ctx, pf))
    wmap = {}
    for r_ in rets:
        for path, dv in pds.at(pcfg.loc1(r_), r_.value):
            ctx.need(isinstance(dv, DictVal) and dv.opaque is None, "ReplayWindow.persist does not return a dict with constant keys the rule can follow")
            for k, (v, n) in dv.entries.items():
                wmap.setdefault(k, set()).add(chain(v))
            for k in set(wmap) - set(dv.entries):
                wmap[k].add(None)
    wmap = {k: (next(iter(vs)) if len(vs) == 1 else None) for k, vs in wmap.items()}
    rf = ctx.prog.func("oscore.ReplayWindow.initialize_from_persisted")
    rp = params(rf)
    ctx.need(len(rp) == 1, "initialize_from_persisted signature changed")
    rmap = {}
    for ch, v, n in field_assigns(rf.node):
        if v is None:
            continue
        rv = _strip_int(deep_resolve(rf.node, v, keep={rp[0]}))
        r = key_read(rv, rp[0], _cs(ctx, rf))
        if r is not None and r[0] is not None:
            rmap[r[0]] = ch
    ctx.floor("fields restored by initialize_from_persisted", len(rmap), 2)
    for k in sorted(set(wmap) | set(rmap)):
        ctx.ob("window entry %r is written from and restored into the same field" % k, wmap.get(k) == rmap.get(k) and wmap.get(k) is not None, rf if k in rmap else pf, rf.node if k in rmap else pf.node,
               detail="persist: %s, initialize_from_persisted: %s" % (wmap.get(k), rmap.get(k)), construct="%r: %s / %s" % (k, wmap.get(k), rmap.get(k)))
    ctx.ob("the persisted window consists of index and bitfield", set(wmap.values()) == {"self._index", "self._bitfield"}, pf, rets[0], detail="fields %s" % sorted(map(str, wmap.values())))


def _marker_tests(ctx, lm, wkey):
    """(outcomes on which the window entry equals a string constant, outcomes on which it differs): T/F pseudo-nodes of
    tests `<entry> == "c"`, `"c" == <entry>`, `!=`, `<entry> in ("c",)`, `not in`, where <entry> is a read of `wkey` from
    the loaded object, directly or through locals, and "c" is a string literal or a module/class constant naming one."""
    lf, lcfg = lm.fi, lm.cfg
    unkT, unkF = [], []
    for n in lcfg.nodes:
        if n.kind not in ("T", "F") or n.ast is None or not isinstance(n.ast, ast.Compare) or len(n.ast.ops) != 1:
            continue
        op, l, r = n.ast.ops[0], n.ast.left, n.ast.comparators[0]
        cs = lambda x: const_str(ctx.prog, lf, x)
        if isinstance(op, (ast.Eq, ast.NotEq)):
            cst = [cs(x) for x in (l, r) if cs(x) is not None]
            oth = [x for x in (l, r) if cs(x) is None]
            positive = isinstance(op, ast.Eq)
        elif isinstance(op, (ast.In, ast.NotIn)) and isinstance(r, (ast.Tuple, ast.List, ast.Set)) and len(r.elts) == 1:
            cst = [cs(x) for x in r.elts if cs(x) is not None]
            oth = [l]
            positive = isinstance(op, ast.In)
        else:
            continue
        if len(cst) != 1 or len(oth) != 1:
            continue
        src = deep_resolve(lf.node, oth[0], keep={lm.var})
        rd = key_read(src, lm.var, _cs(ctx, lf))
        if rd is not None and rd[0] == wkey:
            is_eq = positive == (n.kind == "T")
            (unkT if is_eq else unkF).append((n, cst[0]))
    return unkT, unkF


def _nofile_handlers(lm, broad=False):
    """handler nodes that a failing open() of the state file reaches, by exception class"""
    lcfg = lm.cfg
    on = lcfg.loc1(lm.open_call)
    accepted = ("FileNotFoundError", "OSError", "IOError") if broad else ("FileNotFoundError",)
    out = []
    for d_, lab in lcfg.succ[on]:
        if lab != "exc" or lcfg.nodes[d_].kind != "handler":
            continue
        h = lcfg.nodes[d_].ast
        if h.type is None:
            continue
        names = h.type.elts if isinstance(h.type, ast.Tuple) else [h.type]
        if names and all(chain(x) in accepted for x in names):
            out.append(d_)
    return out


@R.clause("C13.e", "'unknown' is written iff the flag is false; the strike-out callback clears the flag before storing; _load maps it back")
def e(ctx):
    sm, (tdir, tname), entries = _writer_side(ctx)
    fi, cfg = sm.fi, sm.cfg
    wkeys = _window_keys(entries)
    ctx.need(len(wkeys) == 1, "persist() output is stored under %d keys" % len(wkeys))
    wkey = wkeys[0]
    # The flag is read, not changed, while the contents are put together: its value in a condition anywhere on the
    # path is its value at the serialising statement.
    ctx.need(not stores_to(fi.node, FLAG, nested=False), "_store changes replay_window_persisted while it builds the file contents")
    pm = sm.ds.pm
    flag_expr = ast.parse(FLAG, mode="eval").body
    single = _single_values(fi.node)
    # locals that name (a boolean function of) the flag: `known = self.replay_window_persisted`, `unknown = not self....`
    flag_locals = {x: v for x, v in single.items() if any(isinstance(n_, ast.Attribute) and chain(n_) == FLAG for n_ in ast.walk(v))}

    def flag_truth(path, hyps):
        """truth of the flag on `path` under the arm conditions `hyps`, seeing through locals that stand for it"""
        hyps = list(hyps)
        for t, pol in list(hyps):
            if isinstance(t, ast.Name) and t.id in flag_locals:
                hyps.append((flag_locals[t.id], pol))
        for x, v in flag_locals.items():
            tv = pm.truth(ast.Name(id=x, ctx=ast.Load()), path)
            if tv is not None:
                hyps.append((v, tv))
        return truth_under(pm, path, tuple(hyps), flag_expr)

    consts = set()
    nconst = 0
    judged = {}  # (statement, leaf) -> [statement, leaf, real-window-only-under-flag, path description of a counterexample]
    unset = []
    for dc, path, dv in sm.payload:
        if wkey not in dv.entries:
            unset.append((dc, path))
            continue
        v, n = dv.entries[wkey]
        for leaf, hyps in arms(v):
            if any(pm.truth(t, path) is (not pol) for t, pol in hyps):
                continue  # this arm cannot be taken on this path
            if isinstance(leaf, ast.Constant):
                nconst += 1
                consts.add(leaf.value)
                continue
            named = const_str(ctx.prog, fi, leaf)
            if named is not None:  # the marker through a module / class constant
                nconst += 1
                consts.add(named)
                continue
            # `a and b or c` and similar value-selecting boolean operators are not split into arms
            ctx.need(not isinstance(leaf, ast.BoolOp), "the window entry is selected by and/or (%s); the rule splits conditional expressions and if/else only" % stmt_text(leaf, 60))
            flag = flag_truth(path, hyps)
            rec = judged.setdefault((id(n), dump(leaf)), [n, leaf, True, None])
            if flag is not True:
                rec[2] = False
                rec[3] = "%s%s" % (pm.describe(path), "".join("; %s is %s" % (stmt_text(t, 40), pol) for t, pol in hyps))
    for n, leaf, ok, where in judged.values():
        ctx.ob("a real window is written only when replay_window_persisted is true (otherwise the file would keep a window that goes stale)", ok, fi, n,
               detail=None if ok else "written on the path: %s" % where)
        ctx.ob("what is written then is the window's persist() output", _is_persist(leaf), fi, n)
    ctx.floor("marker stores in _store", nconst, 1)
    ctx.need(len(consts) <= 1, "several different markers are written")
    marker = consts.pop() if consts else None
    # every path to the write has set the entry
    for dc in {id(dc): dc for dc, _p, _d in sm.payload}.values():
        bad = [p for x, p in unset if x is dc]
        ctx.ob("the window entry is set on every path before the data is serialised", not bad, fi, dc,
               detail=None if not bad else "not set on the path: %s" % pm.describe(bad[0]))

    # _replay_window_changed
    rf = _fn(ctx, FSC + "._replay_window_changed")
    rcfg = cfg_of(rf)
    ctx.need(is_plain_sync(rf), "_replay_window_changed is not a plain function")
    ctx.prog.func(FSC + "._store")
    stores = _self_calls(rf.node, "_store")
    snodes = _locs(rcfg, stores)
    for k, n in stores_to(rf.node, FLAG, nested=False):
        nid = rcfg.loc1(n)
        ok = must_complete(rcfg, nid, snodes)
        ctx.ob("once the flag is cleared no path returns without _store() having completed", ok, rf, n, detail=None if ok else "path: %s" % witness(rcfg, nid, rcfg.exit, cut_normal=snodes))
    paths = sym_paths(rf, {FLAG: "W"})
    normal = [q for q in paths if q.normal()]
    ctx.floor("normal paths of _replay_window_changed", len(normal), 1)
    wkey_ = canon(("truth", "W"))
    for q in normal:
        sc = [t for t in q.calls() if t[1] in stores]
        nf = _path_nf(q)
        already = (wkey_[0], not wkey_[1]) in nf and not q.stores(FLAG)
        if not sc:
            conds = [t[1] for t in q.facts()]
            ctx.ob("the callback returns without storing only when the flag is already false (file already says unknown)", already, rf, conds[-1] if conds else rf.node,
                   detail="path conditions: %s" % _show_conds(q), construct=stmt_text(conds[-1]) if conds else "_replay_window_changed")
            continue
        snap = sc[-1][2][0][FLAG]
        fst = q.stores(FLAG)
        ctx.ob("after the callback the flag still says what the last store wrote (marker for false, the current window for true)", q.cp[FLAG] == snap, rf, fst[-1][3] if fst else sc[-1][1],
               detail="flag at the _store call = %r, afterwards %r" % (snap, q.cp[FLAG]))

    # wiring: the window's strike-out callback is _replay_window_changed
    lm = _load_model(ctx, tname)
    ctx.need(lm.var is not None, "_load does not read %s" % tname)
    lf, lcfg = lm.fi, lm.cfg
    ci, winit, sizech, cbfield = _window_fields(ctx)
    wins = [(v, n) for ch, v, n in field_assigns(lf.node) if ch == WINDOW]
    ctx.floor("assignments of recipient_replay_window in _load", len(wins), 1)
    cbparam = params(winit)[1]
    for v, w in wins:
        v = deep_resolve(lf.node, v) if v is not None else None
        cb = None
        if isinstance(v, ast.Call):
            cb = _kw(v, cbparam, 1)
        # the callback may be the bound method, or any callable that does nothing but call it (lambda, partial, local def)
        ctx.ob("the window's strike-out callback is self._replay_window_changed", cb is not None and callable_target(lf, cb) == "self._replay_window_changed", lf, w)
    so = ctx.prog.func("oscore.ReplayWindow.strike_out")
    ctx.ob("strike_out invokes the stored callback", any(rchain(so.node, c_.func) == "self." + cbfield for c_ in calls_in(so.node)), so, so.node, construct="ReplayWindow.strike_out")

    # _load: marker -> flag false; dict -> initialize_from_persisted and flag true; missing file -> flag true
    unkT, unkF = _marker_tests(ctx, lm, wkey)
    ctx.floor("branches of _load comparing the window entry with the marker", len(unkT), 1)
    ctx.floor("branches of _load comparing the window entry with the marker", len(unkF), 1)
    flag_stores = {}  # CFG node -> value expression
    for ch, v, n in field_assigns(lf.node):
        if ch != FLAG:
            continue
        ctx.need(v is not None, "_load changes replay_window_persisted other than by assignment")
        for nid in lcfg.locate(n):
            flag_stores[nid] = v
    ctx.need(len({id(v) for v in flag_stores.values()}) == len(stores_to(lf.node, FLAG, nested=False)), "_load changes replay_window_persisted other than by assignment")
    ifp = _locs(lcfg, mcalls(lf.node, "initialize_from_persisted"))
    # Decided over the feasible paths of _load from the open() on (constants bound to locals propagated, exceptional
    # edges included): what the flag is when _load returns is its last completed store on the path -- a constant, a
    # local bound to one on that path, or a boolean expression over conditions the path has decided
    # (`self.replay_window_persisted = received != "unknown"`); a window counts as restored when an
    # initialize_from_persisted call completed after the comparison.
    rp = _load_paths(ctx, lm)
    normal = [p for p in rp.paths() if p.end in ("return", "fall")]
    from ..paths import Path as _Path

    def final_flag(p):
        """True / False, or None when the path stores no flag or a value the path does not decide"""
        for i in range(len(p.nodes) - 1, -1, -1):
            if p.completed(i) and p.nodes[i] in flag_stores:
                v = flag_stores[p.nodes[i]]
                val = const_eval(v, p.envs[i])
                if isinstance(val, bool):
                    return val
                if val is UNKNOWN:
                    as_path = _Path(p.nodes, p.decisions, {}, p.end)
                    tv = rp.pm.truth(v, as_path)
                    return tv if tv is not None else rp.pm.truth(deep_resolve(lf.node, v, keep={lm.var}), as_path)
                return None
        return None

    def stores_flag(p):
        return any(p.completed(i) and p.nodes[i] in flag_stores for i in range(len(p.nodes)))

    def restored_after(p, nid):
        at = p.nodes.index(nid)
        return any(i > at and p.completed(i) for i in p.positions(ifp))

    def where(ps, bad):
        w = [p for p in ps if bad(p)]
        return None if not w else "on the path: %s" % rp.describe(w[0])

    for n, val in unkT:
        ctx.ob("the marker _load recognises is the one _store writes", val == marker, lf, n.ast, detail="writer %r, reader %r" % (marker, val))
    for n, val in unkF:
        ps = [p for p in normal if n.id in p.nodes]
        ok = bool(ifp) and bool(ps) and all(restored_after(p, n.id) for p in ps)
        ctx.ob("a persisted window is restored through initialize_from_persisted", ok, lf, n.ast, detail=where(ps, lambda p: not restored_after(p, n.id)))
        ok = bool(ps) and all(final_flag(p) is True for p in ps)
        ctx.ob("a restored window sets replay_window_persisted = True (the file holds a real window until the first strike-out)", ok, lf, n.ast,
               detail=where(ps, lambda p: final_flag(p) is not True))
    # missing file
    handlers = _nofile_handlers(lm, broad=True)
    ctx.floor("handlers for a missing sequence file in _load", len(handlers), 1)
    for hn in handlers:
        h = lcfg.nodes[hn].ast
        ps = [p for p in normal if hn in p.nodes]
        ok = bool(ps) and all(final_flag(p) is True for p in ps)
        ctx.ob("with no sequence file the flag is true, so the first strike-out writes the marker", ok, lf, h, construct="except %s" % (stmt_text(h.type) if h.type is not None else ""),
               detail=where(ps, lambda p: final_flag(p) is not True))
    ok = must_complete(lcfg, lcfg.entry, set(flag_stores)) or (must_complete(lcfg, lcfg.entry, {lm.open_nid}) and all(stores_flag(p) for p in normal))
    ctx.ob("every normal path of _load sets the flag", ok, lf, lf.node, construct="_load", detail=where(normal, lambda p: not stores_flag(p)))


@R.clause("C13.f", "clean shutdown: _destroy sets flag and exact counter before _store, and stores before releasing the lock")
def f(ctx):
    fi = _fn(ctx, FSC + "._destroy")
    cfg = cfg_of(fi)
    ctx.need(is_plain_sync(fi), "_destroy is not a plain function")
    ctx.prog.func(FSC + "._store")
    stores = _self_calls(fi.node, "_store")
    snodes = _locs(cfg, stores)
    # a release site is anything called on the lock object or unlinking its file, whether the lock is named
    # self.lockfile or through a local taken from it
    rel = [c_ for c_ in calls_in(fi.node) if (rchain(fi.node, c_.func) or "").startswith("self.lockfile.")]
    rel += [c_ for c_ in calls_in(fi.node) if qual(fi, c_.func) in ("os.unlink", "os.remove") and c_.args and (rchain(fi.node, c_.args[0]) or "").startswith("self.lockfile")]
    ctx.floor("lock release sites in _destroy", len(rel), 1)
    for c_ in rel:
        ctx.ob("the lock is released only after _store() completed", all(after_normal(cfg, snodes, x) for x in cfg.locate(c_) if cfg.is_reachable(x)) and bool(cfg.locate(c_)), fi, c_)
    for k, n in stores_to(fi.node, "self.lockfile", nested=False):
        ctx.ob("the lock is dropped only after _store() completed", all(after_normal(cfg, snodes, x) for x in cfg.locate(n) if cfg.is_reachable(x)) and bool(cfg.locate(n)), fi, n)
    paths = sym_paths(fi, {FLAG: "W", PERS: "P", SEQ: "q"})
    normal = [q for q in paths if q.normal()]
    ctx.floor("normal paths of _destroy", len(normal), 1)
    for q in normal:
        sc = [t for t in q.calls() if t[1] in stores]
        if not sc:
            ctx.ob("every normal path of _destroy stores the state", False, fi, fi.node, construct="_destroy", detail="path conditions: %s" % _show_conds(q))
            continue
        cp = sc[-1][2][0]
        fst, pst = q.stores(FLAG), q.stores(PERS)
        over = (cp[PERS] - cp[SEQ]).const_value()
        ctx.ob("the bound written on shutdown is the exact counter (or the untouched bound), never below the counter", cp[PERS] == P or (over is not None and over >= 0), fi, pst[-1][3] if pst else sc[-1][1],
               detail="sequence_number_persisted at the _store call = %r (q = sender_sequence_number, P = bound before)" % cp[PERS], construct=stmt_text(pst[-1][3]) if pst else stmt_text(sc[-1][1]))


# ---------------------------------------------------------------------------

@R.clause("C13.g", "_load: an empty replay window is assumed only when no state file exists; a window read from the file is exactly what was persisted")
def g_load_window(ctx):
    """Added after an independently written breaking change initialised an empty window for a file whose persisted
    window was all-null (what a clean stop writes for a context still waiting for its Echo exchange): every request
    seen before the crash was then accepted again.  Necessary condition: in _load the only initialiser reachable
    after sequence.json has been read is initialize_from_persisted(<the file's entry>); initialize_empty (and any
    direct store to the window's fields) is confined to the path on which opening the file failed with
    FileNotFoundError.

    The state file is the one _store renames onto (any spelling of the path: literal join, local, property); _load is
    looked at with helper methods it calls in tail position expanded, so the reading part may live in a helper."""
    try:
        _sm, (_tdir, tname), _entries = _writer_side(ctx)
    except AnalysisError:
        tname = "sequence.json"  # the writer is outside the rule's vocabulary (reported by C13.c/d): fall back to the documented name
    lm = _load_model(ctx, tname)
    fi, cfg = lm.fi, lm.cfg
    opens = lm.opens
    ctx.ob("_load opens %s" % tname, len(opens) == 1, fi, opens[0] if opens else fi.node, construct="_load: open(%s)" % tname)
    if len(opens) != 1:
        return
    ctx.ob("_load decodes what it opened into a local (json.load)", lm.var is not None, fi, opens[0])
    if lm.var is None:
        return
    nofile = _nofile_handlers(lm)
    ctx.ob("a missing state file is handled separately (FileNotFoundError)", len(nofile) == 1, fi, opens[0])
    inits = [c for c in calls_in(fi.node) if isinstance(c.func, ast.Attribute) and c.func.attr in ("initialize_empty", "initialize_from_freshlyseen", "initialize_from_persisted")]
    # method values taken without a call (partial(window.initialize_empty), cb = window.initialize_empty) are outside the vocabulary
    called = {id(c.func) for c in inits}
    refs = [n for n in walk_no_nested(fi.node) if isinstance(n, ast.Attribute) and n.attr in ("initialize_empty", "initialize_from_freshlyseen", "initialize_from_persisted")
            and id(n) not in called]
    ctx.need(not refs, "_load takes a window initialiser as a value instead of calling it")
    ctx.floor("window initialisers in _load", len(inits), 2)
    # "Only when no state file exists" is a statement about runs, not about where the call stands: it is decided on the
    # feasible paths from the open() on (_load_paths).  A path has seen the file missing when the open() itself left
    # along the exceptional edge into the FileNotFoundError handler; it has read the file when the decoding statement
    # completed.  Whether the call then sits in the handler, after an early return guarded by a presence flag, or in a
    # branch on `content is None` makes no difference.
    rp = _load_paths(ctx, lm)
    ctx.need([c for c in _fnf_calls(fi, cfg.nodes[lm.open_nid])] == [lm.open_call],
             "the statement that opens the state file makes other calls that may fail with FileNotFoundError")
    before_open = cfg.reach({cfg.entry}, avoid={lm.open_nid}, include_src=True)
    for c in inits:
        nids = [x for x in cfg.locate(c) if cfg.is_reachable(x)]
        early = [x for x in nids if x in before_open]
        hits = [(p, i) for p in rp.through(nids) for i in p.positions(nids)]
        if c.func.attr == "initialize_empty":
            bad = [(p, i) for p, i in hits if not _absent_before(lm, p, i, nofile) or _loaded_before(lm, p, i)]
            ctx.ob("an empty replay window is assumed only when no state file exists", not early and not bad, fi, c,
                   detail="reached without the file having been found missing: %s" % rp.describe(bad[0][0]) if bad else ("reached without opening the file" if early else None))
        elif c.func.attr == "initialize_from_persisted":
            bad = [(p, i) for p, i in hits if _absent_before(lm, p, i, nofile) or not _loaded_before(lm, p, i)]
            ctx.ob("the persisted window is restored only from a file that was read", not early and not bad, fi, c,
                   detail="reached without the file having been read: %s" % rp.describe(bad[0][0]) if bad else ("reached without opening the file" if early else None))
        else:
            ctx.ob("_load never marks a number as freshly seen", False, fi, c)
    direct = [n for ch, v, n in field_assigns(fi.node) if ch.rsplit(".", 1)[-1] in ("_index", "_bitfield")]
    ctx.ob("_load does not write the window's fields directly", not direct, fi, direct[0] if direct else fi.node, construct=stmt_text(direct[0]) if direct else "_load: direct window stores")


@R.clause("C13.h", "after an unclean stop nothing seen before the crash is accepted again: the recovered window starts exactly at the Echo-verified number (replay-window arithmetic, shared with C12.c)")
def h_shared(ctx):
    """The crash-recovery half of C13 rests on ReplayWindow.initialize_from_freshlyseen anchoring the window *at* the
    number verified through the Echo exchange (index = seen, only that bit set), so that every lower number -- all
    of which may have been accepted before the crash -- is outside the window.  An independently written breaking
    change anchored the window `size-1` below it.  The obligations are those of C12.c."""
    from . import c12
    c12.c(ctx)


@R.clause("C13.i", "distinct sequence numbers give distinct nonces: the partial IV is the number's minimal big-endian rendering and the nonce layout is injective in it (shared with C11.c)")
def i_shared(ctx):
    from . import c11
    c11.c(ctx)


@R.clause("C13.j", "a persisted window is restored verbatim: initialize_from_persisted stores exactly the file's index and bitfield (a null window stays uninitialised)")
def j_verbatim(ctx):
    """Added after an independently written breaking change coerced the persisted fields with `int(... or 0)`: the
    all-null window a clean stop writes for a context still waiting for its Echo exchange came back as an initialised,
    empty window and every pre-crash request was accepted again.

    Accepted as "verbatim": persisted[key], persisted.get(key) / .get(key, None) (an absent key gives None, i.e. an
    uninitialised window, which triggers Echo recovery -- the safe side), directly, through single-assignment locals, or
    in the parallel form `self._index, self._bitfield = persisted["index"], persisted["bitfield"]`."""
    fi = ctx.prog.func("oscore.ReplayWindow.initialize_from_persisted")
    p = params(fi)[0]
    ctx.need(not writes_to_name(fi.node, p), "initialize_from_persisted rebinds its parameter")
    fas = field_assigns(fi.node)
    for attr, key in (("_index", "index"), ("_bitfield", "bitfield")):
        st = [(v, n) for ch, v, n in fas if ch == "self." + attr]
        ok = len(st) == 1 and st[0][0] is not None and is_verbatim_read(deep_resolve(fi.node, st[0][0], keep={p}), p, key, _cs(ctx, fi))
        other = [n for k, n in stores_to(fi.node, "self." + attr, nested=False) if not any(n is s[1] for s in st)]
        ok = ok and not other
        ctx.ob("%s is restored exactly as persisted under %r" % (attr, key), ok, fi, st[0][1] if st else fi.node, construct=stmt_text(st[0][1]) if st else "initialize_from_persisted: %s" % attr)


def _self_name(f):
    a = f.node.args
    names = [x.arg for x in a.posonlyargs + a.args]
    return names[0] if names else None


def _window_effects(prog, clsqn, g, fields, memo):
    """The window fields that running method `g` may leave changed: those it stores to directly (any kind of store to
    <self>.<field>) and those stored to by the methods of its class (and their overrides in subclasses) it calls on its
    own receiver, transitively.  None when the receiver escapes to code this cannot follow (bare use of the receiver:
    passed as an argument, aliased, setattr/vars; super(); a method taken as a value).  A call through a *data*
    attribute (`self.strike_out_callback()`) runs code outside the class that holds no reference to the fields' owner
    other than through the methods accounted for here; it contributes nothing."""
    if g.qn in memo:
        return memo[g.qn]
    memo[g.qn] = set()  # recursion: the fixed point is reached through the other members of the cycle
    me = _self_name(g)
    out = set()
    if me is None:
        return out
    for f in fields:
        if stores_to(g.node, "%s.%s" % (me, f)):
            out.add(f)
    parents = {}
    for n in ast.walk(g.node):
        for ch in ast.iter_child_nodes(n):
            parents[id(ch)] = n
    for n in ast.walk(g.node):
        if isinstance(n, ast.Call) and isinstance(n.func, ast.Name) and n.func.id == "super":
            memo[g.qn] = None
            return None
        if not (isinstance(n, ast.Name) and n.id == me):
            continue
        par = parents.get(id(n))
        if not (isinstance(par, ast.Attribute) and par.value is n):
            memo[g.qn] = None
            return None
        if par.attr in fields:
            continue
        if par.attr in ("__dict__", "__setattr__", "__class__"):
            memo[g.qn] = None
            return None
        targets = _methods_named(prog, clsqn, par.attr)
        if not targets:
            continue  # data attribute
        gp = parents.get(id(par))
        if not (isinstance(gp, ast.Call) and gp.func is par):
            memo[g.qn] = None  # bound method (or property) taken as a value
            return None
        for t in targets:
            sub = _window_effects(prog, clsqn, t, fields, memo)
            if sub is None:
                memo[g.qn] = None
                return None
            out |= sub
    memo[g.qn] = out
    return out


def _methods_named(prog, clsqn, name):
    """every function `recv.<name>` may denote for a receiver of class clsqn or one of its subclasses"""
    out = []
    for q in [clsqn] + [s for s in prog.subclasses(clsqn) if s != clsqn]:
        m = prog.lookup_method(q, name)
        if m is not None and not any(m is x for x in out):
            out.append(m)
    return out


@R.clause("C13.l", "restoring a persisted window changes the window by nothing but the verbatim stores: a method of the window that initialize_from_persisted runs and that sets _index/_bitfield itself is overwritten by the verbatim stores on every path to the return (a null window stays uninitialised whatever else the restore does)")
def l_restore_writers(ctx):
    """Added after an independently written change (fifth round: validation of the persisted window) made
    initialize_from_persisted call self.initialize_empty() and return when the file's index and bitfield are both null:
    the window a clean stop writes for a context still waiting for its Echo exchange (unclean stop -> 'unknown' ->
    uninitialised -> clean stop persists None/None) came back initialised and empty, and every request seen before the
    crash was accepted again without Echo.  C13.j looks at the stores initialize_from_persisted makes itself; the
    necessary condition is about the window's state when the restore *returns*: on every normally returning path the
    last thing that set _index (_bitfield) is a verbatim store of the file's entry.  So the invariant is taken over ALL
    writers of the two fields that run as part of the restore: the function's own stores (C13.j: each verbatim) and,
    here, every method of the window's class (or an override) it calls on itself, transitively -- found by what they
    store to, not by name.  Such a call is harmless exactly when every non-exceptional path from it to the normal exit
    passes the verbatim store of each field it may set (default-then-overwrite); a path that raises restores nothing and
    _load turns it into LoadError.  Queries (is_initialized), reads of other fields (the size), validation that raises
    and calls through data attributes do not write the fields and are not looked at.

    Refused (not reported): the receiver escaping (aliased, passed on, super()), a method taken as a value, and a
    delegation guarded by an *equality* of a persisted entry with a constant (`if persisted["index"] == 0 and ...:
    self.initialize_empty()` stores what the file says; deciding that needs the callee's values)."""
    prog = ctx.prog
    fi = prog.func("oscore.ReplayWindow.initialize_from_persisted")
    ctx.need(fi.cls is not None, "initialize_from_persisted is not a method")
    clsqn = fi.cls.qn
    p = params(fi)[0]
    me = _self_name(fi)
    fields = ("_index", "_bitfield")
    cfg = cfg_of(fi)
    cs = _cs(ctx, fi)
    fas = field_assigns(fi.node)
    verb = {}
    for f, key in zip(fields, ("index", "bitfield")):
        verb[f] = set()
        for ch, v, n in fas:
            if ch == "%s.%s" % (me, f) and v is not None and is_verbatim_read(deep_resolve(fi.node, v, keep={p}), p, key, cs):
                verb[f] |= {x for x in cfg.locate(n) if cfg.is_reachable(x)}
    memo = {fi.qn: set()}  # recursion into the restore itself adds nothing that is not looked at here
    parents = {}
    for n in ast.walk(fi.node):
        for c in ast.iter_child_nodes(n):
            parents[id(c)] = n
    ctx.need(not any(isinstance(n, ast.Call) and isinstance(n.func, ast.Name) and n.func.id == "super" for n in ast.walk(fi.node)),
             "initialize_from_persisted delegates through super()")
    found = 0
    for n in ast.walk(fi.node):
        if not (isinstance(n, ast.Name) and n.id == me):
            continue
        par = parents.get(id(n))
        ctx.need(isinstance(par, ast.Attribute) and par.value is n, "initialize_from_persisted hands the window itself to other code (%s)" % stmt_text(par if par is not None else n, 60))
        if par.attr in fields:
            continue
        ctx.need(par.attr not in ("__dict__", "__setattr__", "__class__"), "initialize_from_persisted writes the window reflectively")
        targets = _methods_named(prog, clsqn, par.attr)
        if not targets:
            continue
        call = parents.get(id(par))
        ctx.need(isinstance(call, ast.Call) and call.func is par, "initialize_from_persisted takes the window method %s as a value" % par.attr)
        eff = set()
        for t in targets:
            sub = _window_effects(prog, clsqn, t, fields, memo)
            ctx.need(sub is not None, "ReplayWindow.%s hands the window to code the rule cannot follow" % par.attr)
            eff |= sub
        if not eff:
            continue
        found += 1
        nids = [x for x in cfg.locate(call) if cfg.is_reachable(x)]
        left = sorted(f for f in eff if not all(cfg.must_pass(x, verb[f]) for x in nids))
        if left:
            # value-dependent delegation: under `persisted[k] == <constant>` the callee may store just what the file says
            for x in nids:
                for test, pol, _pid in cfg.guards(x):
                    if not pol or not isinstance(test, ast.Compare) or len(test.ops) != 1 or not isinstance(test.ops[0], ast.Eq):
                        continue
                    sides = [deep_resolve(fi.node, s, keep={p}) for s in (test.left, test.comparators[0])]
                    ctx.need(not any(key_read(s, p, cs) is not None for s in sides),
                             "initialize_from_persisted delegates to %s under an equality test of a persisted entry" % par.attr)
        ctx.ob("what initialize_from_persisted runs besides its verbatim stores does not decide the restored window", not left, fi, call,
               detail="%s() sets %s and a path from it returns without the verbatim store of the file's entry: the window is then not what was persisted (a null window -- clean stop while waiting for Echo -- must stay uninitialised)" % (par.attr, ", ".join(left)) if left else None)
    if not found:
        ctx.ob("initialize_from_persisted runs no other writer of the window's fields", True, fi, fi.node, construct="initialize_from_persisted: delegated writers")
    ctx.note("%d field-writing method call(s) inside initialize_from_persisted" % found)


@R.clause("C13.k", "an unknown (uninitialised) window is never initialised from this node's own numbers: the number handed to the replay window in unprotect is the incoming message's OWN partial IV, a message without one contributes nothing (shared with C12.f)")
def k_shared(ctx):
    """Added after an independently written breaking change (fourth round) let the response arm of the recovery in
    CanUnprotect.unprotect call initialize_from_freshlyseen(int.from_bytes(<partial IV bytes>)) without requiring that
    the response carried a partial IV of its own.  For an ordinary response those bytes are the partial IV of the
    LOCAL request (request_id.partial_iv), i.e. this node's sender sequence number: a context reloaded after an unclean
    stop (window 'unknown', C13.e/g) that first acts as a client got its window for the peer "initialised" at an
    unrelated, typically small number, and every request of the peer seen before the crash with a higher number was
    accepted again without any Echo exchange -- the last sentence of the property.

    Necessary condition (in terms of today's code): whatever reaches ReplayWindow.initialize_from_freshlyseen /
    is_valid / strike_out in unprotect is, on every path and in every arm of a conditional expression, either the
    sentinel None or the big-endian integer of bytes that were read from the COSE_PIV entry of the incoming message's
    own unprotected header map, under evidence that the entry existed (the `COSE_PIV in <map>` outcome, a read that
    raises without the key, or an `is not None` test of a lenient read).  It is a statement about definitions that
    reach the call (def-use over the value-aware path model of c12.window_site_facts), not about the `if seqno is not
    None` guard: the guard may be spelled any way, moved, or replaced by a sentinel / flag, as long as no definition
    taken from request_id (or anything else that is not the message's own option) reaches the window.  The rule and its
    evaluator live in c12.f_own_piv (the condition is the same fact C12 needs for replay protection within a lifetime);
    C13 owes it for the crash-recovery half, like C13.h."""
    from . import c12
    c12.f_own_piv(ctx)


F_ = "aiocoap/oscore.py"
R.seed("C13.a", F_, "        if retval >= MAX_SEQNO:", "        if retval > MAX_SEQNO:", ">= -> > in the exhaustion test")
R.seed("C13.a", F_, "MAX_SEQNO = 2**40 - 1", "MAX_SEQNO = 2**40", "limit one too high")
R.seed("C13.a", F_, "        self.sender_sequence_number += 1\n        self.post_seqnoincrease()", "        self.sender_sequence_number += 0\n        self.post_seqnoincrease()", "counter does not advance")
R.seed("C13.a", F_, "        self.post_seqnoincrease()\n        return retval", "        self.post_seqnoincrease()\n        return self.sender_sequence_number", "hands out the value that the next call hands out again... and the first number twice after reload")
R.seed("C13.a", F_, "        if retval >= MAX_SEQNO:\n            raise ContextUnavailable(\"Sequence number too large, context is exhausted.\")\n", "", "no exhaustion test")
R.seed("C13.b", F_, "        self.post_seqnoincrease()\n        return retval", "        return retval\n        self.post_seqnoincrease()", "return before post_seqnoincrease")
R.seed("C13.b", F_, "        self.post_seqnoincrease()\n        return retval", "        try:\n            self.post_seqnoincrease()\n        except OSError:\n            pass\n        return retval", "failed persist ignored")
_POST_OLD = (
    "            self.sequence_number_persisted += self.sequence_number_chunksize\n"
    "\n"
    "            self.sequence_number_chunksize = min(\n"
    "                self.sequence_number_chunksize * 2, self.sequence_number_chunksize_limit\n"
    "            )\n"
    "            # FIXME: this blocks -- see https://github.com/chrysn/aiocoap/issues/178\n"
    "            self._store()\n"
)
_POST_NEW = (
    "            self._store()\n"
    "            self.sequence_number_persisted += self.sequence_number_chunksize\n"
    "\n"
    "            self.sequence_number_chunksize = min(\n"
    "                self.sequence_number_chunksize * 2, self.sequence_number_chunksize_limit\n"
    "            )\n"
)
R.seed("C13.b", F_, _POST_OLD, _POST_NEW, "_store() before the +=: the file keeps the old bound")
R.seed("C13.b", F_, "        if self.sender_sequence_number > self.sequence_number_persisted:", "        if self.sender_sequence_number > self.sequence_number_persisted + 1:", "store skipped one number too long")
R.seed("C13.b", F_, "            # FIXME: this blocks -- see https://github.com/chrysn/aiocoap/issues/178\n            self._store()\n", "            # FIXME: this blocks -- see https://github.com/chrysn/aiocoap/issues/178\n", "bound advanced in memory only")
R.seed("C13.b", F_, "        self.sequence_number_chunksize = sequence_number_chunksize_start\n\n        self.sequence_number_persisted = self.sender_sequence_number", "        self.sequence_number_chunksize = sequence_number_chunksize_start\n\n        self.sequence_number_persisted = 0", "bound restarts at 0: the file moves backwards")
R.seed("C13.b", F_, "            self.sequence_number_persisted += self.sequence_number_chunksize\n", "            self.sequence_number_persisted = self.sequence_number_chunksize\n", "bound set to the chunk instead of advanced by it")
R.seed("C13.b", F_, "                self.sequence_number_chunksize * 2, self.sequence_number_chunksize_limit\n", "                self.sequence_number_chunksize - 10, self.sequence_number_chunksize_limit\n", "chunk can reach 0: the bound stops advancing")
R.seed("C13.c", F_, "            os.fsync(tmpfile.fileno())\n", "            pass\n", "no fsync")
R.seed("C13.c", F_, "            os.fsync(tmpfile.fileno())\n\n        os.replace(tmpnam, os.path.join(self.basedir, \"sequence.json\"))", "            os.replace(tmpnam, os.path.join(self.basedir, \"sequence.json\"))\n            os.fsync(tmpfile.fileno())", "fsync and replace swapped")
R.seed("C13.c", F_, "            dir=self.basedir, prefix=", "            prefix=", "temp file in the default temp directory")
R.seed("C13.c", F_, "data = {\"next-to-send\": self.sequence_number_persisted}", "data = {\"next-to-send\": self.sender_sequence_number}", "counter written instead of the bound")
R.seed("C13.c", F_, "            tmpfile.flush()\n", "", "no flush before fsync")
R.seed("C13.c", F_, "            os.fsync(tmpfile.fileno())\n\n        os.replace(tmpnam, os.path.join(self.basedir, \"sequence.json\"))", "            os.fsync(tmpfile.fileno())\n            os.replace(tmpnam, os.path.join(self.basedir, \"sequence.json\"))", "renamed while still open")
R.seed("C13.c", F_, "            tmpfile.write(json.dumps(data).encode(\"utf8\"))\n            tmpfile.flush()\n            os.fsync(tmpfile.fileno())\n", "            tmpfile.flush()\n            os.fsync(tmpfile.fileno())\n            tmpfile.write(json.dumps(data).encode(\"utf8\"))\n", "written after the fsync")
R.seed("C13.c", F_, "        os.replace(tmpnam, os.path.join(self.basedir, \"sequence.json\"))", "        if self.replay_window_persisted:\n            os.replace(tmpnam, os.path.join(self.basedir, \"sequence.json\"))", "file not replaced on one path")
R.seed("C13.d", F_, "int(sequence[\"next-to-send\"])", "int(sequence[\"next_to_send\"])", "reader key differs")
R.seed("C13.d", F_, "        return {\"index\": self._index, \"bitfield\": self._bitfield}", "        return {\"index\": self._bitfield, \"bitfield\": self._index}", "fields swapped in persist")
R.seed("C13.d", F_, "            with open(os.path.join(self.basedir, \"sequence.json\")) as f:", "            with open(os.path.join(self.basedir, \"sequences.json\")) as f:", "reader opens another file")
R.seed("C13.d", F_, "        self._bitfield = persisted[\"bitfield\"]", "        self._bitfield = persisted[\"bits\"]", "window key differs")
R.seed("C13.d", F_, "            received = sequence[\"received\"]", "            received = sequence[\"next-to-send\"]", "window restored from the wrong entry")
R.seed("C13.e", F_, "            self.replay_window_persisted = False\n            self._store()", "            self.replay_window_persisted = False", "flag cleared but nothing stored: the stale window stays in the file")
R.seed("C13.e", F_, "        if not self.replay_window_persisted:\n            data[\"received\"] = \"unknown\"", "        if self.replay_window_persisted:\n            data[\"received\"] = \"unknown\"", "marker condition inverted")
R.seed("C13.e", F_, "                self.replay_window_persisted = True\n\n    # This is called internally", "                self.replay_window_persisted = False\n\n    # This is called internally", "restored window with flag false: the file keeps a window that goes stale")
R.seed("C13.e", F_, "            windowsize, self._replay_window_changed", "            windowsize, lambda: None", "callback not wired")
R.seed("C13.e", F_, "            self.replay_window_persisted = False\n            self._store()", "            self._store()\n            self.replay_window_persisted = False", "stored before the flag is cleared")
R.seed("C13.e", F_, "            if received == \"unknown\":", "            if received == \"Unknown\":", "marker spelled differently on the reader side")
R.seed("C13.e", F_, "            self.recipient_replay_window.initialize_empty()\n            self.replay_window_persisted = True", "            self.recipient_replay_window.initialize_empty()\n            self.replay_window_persisted = False", "no file and flag false: strike-outs are never recorded as unknown")
R.seed("C13.f", F_, "        self._store()\n\n        del self.sender_key\n        del self.recipient_key\n\n        os.unlink(self.lockfile.lock_file)\n        self.lockfile.release()\n", "        del self.sender_key\n        del self.recipient_key\n\n        os.unlink(self.lockfile.lock_file)\n        self.lockfile.release()\n        self._store()\n", "stored after the lock was released")
R.seed("C13.f", F_, "        self.replay_window_persisted = True\n        self.sequence_number_persisted = self.sender_sequence_number\n        self._store()", "        self.replay_window_persisted = True\n        self.sequence_number_persisted = self.sender_sequence_number - 1\n        self._store()", "last-used instead of next-to-send written on shutdown")
R.seed("C13.f", F_, "        self.sequence_number_persisted = self.sender_sequence_number\n        self._store()\n\n        del self.sender_key", "        self.sequence_number_persisted = self.sender_sequence_number\n        try:\n            self._store()\n        except OSError:\n            pass\n\n        del self.sender_key", "lock released although the final store failed")

R.seed("C13.g", F_, "                self.replay_window_persisted = True\n\n    # This is called internally", "                if not self.recipient_replay_window.is_initialized():\n                    self.recipient_replay_window.initialize_empty()\n                self.replay_window_persisted = True\n\n    # This is called internally", "all-null persisted window (clean stop while waiting for Echo) becomes an empty window")
R.seed("C13.g", F_, "                # The replay window will stay uninitialized, which triggers\n                # Echo recovery\n                self.replay_window_persisted = False", "                self.recipient_replay_window.initialize_empty()\n                self.replay_window_persisted = False", "unknown state treated as nothing seen")

R.seed("C13.h", F_, "        self._index = seen\n        self._bitfield = 1\n", "        self._index = max(seen - self._size + 1, 0)\n        self._bitfield = 1 << (seen - self._index)\n", "recovered window anchored below the Echo-verified number: pre-crash requests replayable")

R.seed("C13.i", F_, "partial_iv.lstrip(b\"\\0\")", "partial_iv.strip(b\"\\0\")", "trailing zero bytes stripped too: 256 gets the partial IV of 1")

R.seed("C13.j", F_, "        self._index = persisted[\"index\"]\n        self._bitfield = persisted[\"bitfield\"]\n", "        self._index = int(persisted[\"index\"] or 0)\n        self._bitfield = int(persisted[\"bitfield\"] or 0)\n", "null window (clean stop while waiting for Echo) restored as an empty initialised window")

_RESP_INIT = "                if seqno is not None:\n                    self.recipient_replay_window.initialize_from_freshlyseen(seqno)\n"
R.seed("C13.k", F_, _RESP_INIT,
       "                fresh = seqno if seqno is not None else int.from_bytes(partial_iv_short, \"big\")\n                self.recipient_replay_window.initialize_from_freshlyseen(fresh)\n",
       "a response without a partial IV of its own initialises the unknown window from the local request's number (fallback arm of a conditional expression)")
R.seed("C13.k", F_, _RESP_INIT,
       "                if partial_iv_short:\n                    self.recipient_replay_window.initialize_from_freshlyseen(int.from_bytes(partial_iv_short, \"big\"))\n",
       "the recovery tests the bytes that feed the nonce (always present) instead of the own-PIV sentinel: window initialised from this node's sender sequence number")
R.seed("C13.k", F_, "            seqno = None  # sentinel for not striking out anything\n            partial_iv_short = request_id.partial_iv\n",
       "            partial_iv_short = request_id.partial_iv\n            seqno = int.from_bytes(partial_iv_short, \"big\") if is_response else None\n",
       "the sentinel survives only where it cannot occur (a request without PIV is refused just above): responses are numbered by the request's partial IV")

# seeds for the generalised forms: the same faults, spelled the way the refactorings spell the code
_LOAD_TAIL_OLD = (
    '        try:\n'
    '            with open(os.path.join(self.basedir, "sequence.json")) as f:\n'
    '                sequence = json.load(f)\n'
    '        except FileNotFoundError:\n'
    '            self.sender_sequence_number = 0\n'
    '            self.recipient_replay_window.initialize_empty()\n'
    '            self.replay_window_persisted = True\n'
    '        else:\n'
    '            self.sender_sequence_number = int(sequence["next-to-send"])\n'
    '            received = sequence["received"]\n'
    '            if received == "unknown":\n'
    '                # The replay window will stay uninitialized, which triggers\n'
    '                # Echo recovery\n'
    '                self.replay_window_persisted = False\n'
    '            else:\n'
    '                try:\n'
    '                    self.recipient_replay_window.initialize_from_persisted(received)\n'
    '                except (ValueError, TypeError, KeyError):\n'
    '                    # Not being particularly careful about what could go wrong: If\n'
    "                    # someone tampers with the replay data, we're already in *big*\n"
    '                    # trouble, of which I fail to see how it would become worse\n'
    '                    # than a crash inside the application around "failure to\n'
    '                    # right-shift a string" or that like; at worst it\'d result in\n'
    '                    # nonce reuse which tampering with the replay window file\n'
    '                    # already does.\n'
    '                    raise self.LoadError(\n'
    '                        "Persisted replay window state was not understood"\n'
    '                    )\n'
    '                self.replay_window_persisted = True\n'
    '\n'
)
_LOAD_TAIL_NEW = (
    '        self._load_sequence()\n'
    '\n'
    '    def _load_sequence(self):\n'
    '        try:\n'
    '            with open(os.path.join(self.basedir, "sequence.json")) as f:\n'
    '                sequence = json.load(f)\n'
    '        except FileNotFoundError:\n'
    '            self.sender_sequence_number = 0\n'
    '            self.recipient_replay_window.initialize_empty()\n'
    '            self.replay_window_persisted = True\n'
    '            return\n'
    '        self.sender_sequence_number = int(sequence["next-to-send"])\n'
    '        received = sequence["received"]\n'
    '        if received == "unknown":\n'
    '            self.recipient_replay_window.initialize_empty()\n'
    '            self.replay_window_persisted = False\n'
    '            return\n'
    '        try:\n'
    '            self.recipient_replay_window.initialize_from_persisted(received)\n'
    '        except (ValueError, TypeError, KeyError):\n'
    '            raise self.LoadError("Persisted replay window state was not understood")\n'
    '        self.replay_window_persisted = True\n'
    '\n'
)
R.seed("C13.g", F_, _LOAD_TAIL_OLD, _LOAD_TAIL_NEW, "reading part of _load moved into a helper called last (returns inside try), and the helper assumes an empty window for 'unknown'")
_STORE_IF = "        if not self.replay_window_persisted:\n            data[\"received\"] = \"unknown\"\n        else:\n            data[\"received\"] = self.recipient_replay_window.persist()\n"
R.seed("C13.e", F_, _STORE_IF, "        data[\"received\"] = \"unknown\" if self.replay_window_persisted else self.recipient_replay_window.persist()\n", "conditional expression with the arms swapped")
R.seed("C13.e", F_, "        data = {\"next-to-send\": self.sequence_number_persisted}\n" + _STORE_IF,
       "        data = {\"next-to-send\": self.sequence_number_persisted, \"received\": \"unknown\"}\n        data[\"received\"] = self.recipient_replay_window.persist()\n", "marker as default, overwritten unconditionally by the real window")
R.seed("C13.c", F_, "        data = {\"next-to-send\": self.sequence_number_persisted}\n" + _STORE_IF + "\n",
       "        data = dict([(\"next-to-send\", self.sender_sequence_number)], received=self.recipient_replay_window.persist() if self.replay_window_persisted else \"unknown\")\n\n", "dict(...) spelling of the payload with the counter instead of the bound")
R.seed("C13.d", F_, "        return {\"index\": self._index, \"bitfield\": self._bitfield}", "        return dict(index=self._bitfield, bitfield=self._index)", "fields swapped in persist, dict(k=v) spelling")
R.seed("C13.j", F_, "        self._index = persisted[\"index\"]\n        self._bitfield = persisted[\"bitfield\"]\n", "        self._index, self._bitfield = persisted[\"index\"] or 0, persisted[\"bitfield\"] or 0\n", "parallel assignment that coerces null to 0")
_RESTORE = "        self._index = persisted[\"index\"]\n        self._bitfield = persisted[\"bitfield\"]\n"
R.seed("C13.l", F_, _RESTORE, "        self.initialize_empty()\n        if persisted[\"index\"] is not None:\n            self._index = persisted[\"index\"]\n            self._bitfield = persisted[\"bitfield\"]\n",
       "default-then-overwrite that skips the overwrite for a null window: it comes back initialised and empty")
R.seed("C13.l", F_, _RESTORE, _RESTORE + "        if not self.is_initialized():\n            self.initialize_from_freshlyseen(0)\n",
       "a null window is 'repaired' after the verbatim stores by another initialiser")
R.seed("C13.l", F_, _RESTORE, "        if not persisted:\n            return self.initialize_empty()\n" + _RESTORE,
       "an empty/None persisted object is taken for an empty window (early return through the other initialiser)")
R.seed("C13.f", F_, "        self._store()\n\n        del self.sender_key\n        del self.recipient_key\n\n        os.unlink(self.lockfile.lock_file)\n        self.lockfile.release()\n\n        self.lockfile = None\n",
       "        del self.sender_key\n        del self.recipient_key\n\n        lock = self.lockfile\n        self.lockfile = None\n        os.unlink(lock.lock_file)\n        lock.release()\n        self._store()\n", "lock released through a local alias before the final store")

# second round: presence flag instead of handler / else placement, choices instead of min()
_IFP_TRY = (
    '            try:\n'
    '                self.recipient_replay_window.initialize_from_persisted(received)\n'
    '            except (ValueError, TypeError, KeyError):\n'
    '                raise self.LoadError("Persisted replay window state was not understood")\n'
)
_LOAD_FLAG = (
    '        present = True\n'
    '        try:\n'
    '            with open(os.path.join(self.basedir, "sequence.json")) as f:\n'
    '                sequence = json.load(f)\n'
    '        except FileNotFoundError:\n'
    '            present = %s\n'
    '        if %s:\n'
    '            self.sender_sequence_number = 0\n'
    '            self.recipient_replay_window.initialize_empty()\n'
    '            self.replay_window_persisted = %s\n'
    '            return\n'
    '        self.sender_sequence_number = int(sequence["next-to-send"])\n'
    '        received = sequence["received"]\n'
    '        if received != "unknown":\n' + _IFP_TRY +
    '        self.replay_window_persisted = %s\n'
    '\n'
)
R.seed("C13.g", F_, _LOAD_TAIL_OLD, _LOAD_FLAG % ("False", "present", "True", 'received != "unknown"'),
       "presence flag tested the wrong way round: an existing file is treated as a fresh context (empty window), a missing one is read")
R.seed("C13.e", F_, _LOAD_TAIL_OLD, _LOAD_FLAG % ("False", "not present", "False", 'received != "unknown"'),
       "presence-flag spelling, fresh context starts with the flag false: strike-outs are never recorded as unknown")
R.seed("C13.e", F_, _LOAD_TAIL_OLD, _LOAD_FLAG % ("False", "not present", "True", 'received == "unknown"'),
       "flag computed from the marker comparison, inverted: a restored window leaves the flag false")
R.seed("C13.b", F_, "            self.sequence_number_chunksize = min(\n                self.sequence_number_chunksize * 2, self.sequence_number_chunksize_limit\n            )\n",
       "            doubled = self.sequence_number_chunksize * 2\n            limit = self.sequence_number_chunksize_limit\n            self.sequence_number_chunksize = limit if limit < doubled else doubled - limit\n",
       "conditional-expression spelling of the cap whose other arm can reach 0 or below")
R.seed("C13.b", F_, "        sequence_number_chunksize_limit=10000,", "        sequence_number_chunksize_limit=0,", "limit 0: the capped chunk collapses to 0 and the bound stops advancing")

# sixth pass: "no file" represented by an object with an identity of its own (module-level sentinel, local object())
# instead of the handler / a boolean flag -- the paths are decided by _kit_c13.Sentinels + const_eval on tokens
_LOAD_SENTINEL = (
    '%s'
    '        try:\n'
    '            with open(os.path.join(self.basedir, "sequence.json")) as f:\n'
    '                sequence = json.load(f)\n'
    '        except FileNotFoundError:\n'
    '            %s\n'
    '        if %s:\n'
    '            self.sender_sequence_number = 0\n'
    '            self.recipient_replay_window.initialize_empty()\n'
    '            self.replay_window_persisted = %s\n'
    '            return\n'
    '        self.sender_sequence_number = int(sequence["next-to-send"])\n'
    '        received = sequence["received"]\n'
    '        if received == "unknown":\n'
    '            self.replay_window_persisted = False\n'
    '            return\n' + _IFP_TRY.replace("\n            ", "\n        ").replace("            try:", "        try:", 1) +
    '        self.replay_window_persisted = True\n'
    '\n'
)
R.seed("C13.g", F_, _LOAD_TAIL_OLD, _LOAD_SENTINEL % ("", "sequence = PRESENT_BUT_NO_VALUE_YET", "sequence is not PRESENT_BUT_NO_VALUE_YET", "True"),
       "module-level sentinel for the missing file, tested the wrong way round: an existing file is treated as a fresh context")
R.seed("C13.g", F_, _LOAD_TAIL_OLD, _LOAD_SENTINEL % ("        missing = object()\n        sequence = missing\n", "pass", "sequence is missing or sequence is None", "True"),
       "local object() sentinel bound before the try; a file containing null is taken for a missing one as well (empty window for an existing file)")
R.seed("C13.e", F_, _LOAD_TAIL_OLD, _LOAD_SENTINEL % ("", "sequence = PRESENT_BUT_NO_VALUE_YET", "sequence is PRESENT_BUT_NO_VALUE_YET", "False"),
       "sentinel spelling, fresh context starts with the flag false: strike-outs are never recorded as unknown")
