"""C13 OSCORE sequence-number persistence: no sender sequence number is issued twice
across restarts, crashes and exhaustion.

Decided on the syntax trees of aiocoap/oscore.py (which cannot be imported here):

C13.a  exhaustion: MAX_SEQNO = 2**40-1; new_sequence_number returns the old value,
       stores old+1, and does so only under old < MAX_SEQNO (raises otherwise).
C13.b  persist before use: between the increment and the return post_seqnoincrease
       completes normally; post_seqnoincrease skips the store only under
       seq <= persisted, otherwise the bound grows by the chunk *before* _store and
       _store completes before the function ends; __init__ starts from the loaded value.
C13.c  atomic store: temp file in the directory of the target, write -> flush ->
       fsync -> close -> replace on every path, payload's "next-to-send" is
       sequence_number_persisted.
C13.d  reader/writer agreement of file name, JSON keys and window fields.
C13.e  "unknown" window: written iff the flag is false, flag cleared before the
       first store after a strike-out, loader maps it back (and a dict / a missing
       file to flag true).
C13.f  clean shutdown writes the exact state before releasing the lock.

Idioms accepted in _store (anything else stops the rule with an analysis error):
  * temp file: `h, name = tempfile.mkstemp(dir=D, ...)` (dir as keyword or third
    positional) or `f = tempfile.NamedTemporaryFile(dir=D, delete=False, ...)`;
  * file object: `io.open(h, ...)`, `open(h, ...)`, `os.fdopen(h, ...)`, bound by
    `with ... as f` or by assignment; or no file object at all (`os.write(h, data)`);
  * write: `f.write(x)`, `os.write(h, x)`, `json.dump(obj, f)`;
  * flush: `f.flush()`; not required for `os.write` or an unbuffered open
    (`buffering=0` / third positional 0);
  * fsync: `os.fsync(f.fileno())`, `os.fsync(h)`, `os.fdatasync(...)` of the same;
  * close: leaving the `with` block that binds the file object, `f.close()`, `os.close(h)`;
  * rename: `os.replace(name, T)` / `os.rename(name, T)` with
    `T = os.path.join(D, <constant>)`; D must be the same attribute chain as the
    temp file's directory.

Outside the property's fault model (crash points and clean stops), reported as a
note only: if `_store()` raises (disk full, EIO) after `sequence_number_persisted`
was advanced, the in-memory bound stays ahead of the file and the next chunk-1
numbers are issued without being covered on disk.
"""

from fractions import Fraction

from ..rulekit import *
from ..norm import Normalizer, Poly, NormError
from .c12 import (
    mcalls, reach_cut, after_normal, must_complete, witness, facts_at, has_fact, fact_matches,
    sym_paths, canon, cmp_nf, _min_over_positive, _window_fields,
)

R = Rules(
    "C13",
    explanation=(
        "Structural clauses of sequence-number persistence decided on the syntax trees of oscore.py: "
        "MAX_SEQNO is 2**40-1 and new_sequence_number hands out the old counter value and stores old+1 only under "
        "old < MAX_SEQNO; between that increment and the return post_seqnoincrease completes; the file-backed "
        "post_seqnoincrease skips the store only when sender_sequence_number <= sequence_number_persisted and "
        "otherwise advances the bound by the chunk before calling _store, which must complete before the function "
        "ends; _store creates its temp file in the target's directory and on every path writes, flushes, fsyncs and "
        "closes it before os.replace onto basedir/sequence.json, writing sequence_number_persisted under "
        "next-to-send; file name, JSON keys and window fields agree between _store/persist and "
        "_load/initialize_from_persisted; the received entry is the constant 'unknown' exactly when "
        "replay_window_persisted is false, the strike-out callback of the window is _replay_window_changed which "
        "clears the flag before storing, _load maps 'unknown' to flag false and an uninitialised window and a dict "
        "or a missing file to flag true; _destroy sets flag and exact counter before _store and stores before "
        "releasing the lock.  Paper step: with these premises every number returned is smaller than the "
        "next-to-send value in the last completely renamed file, so a reload never hands it out again.  File-system "
        "semantics of replace/fsync and behaviour under I/O errors are not decided."
    ),
    rule_text="symbolic execution of the loop-free counter methods over polynomial normal forms, must-pass/ordering rules on CFGs with exceptional edges cut, writer/reader table comparison",
)

FSC = "oscore.FilesystemSecurityContext"
SEQ = "self.sender_sequence_number"
PERS = "self.sequence_number_persisted"
CHUNK = "self.sequence_number_chunksize"
LIMIT = "self.sequence_number_chunksize_limit"
FLAG = "self.replay_window_persisted"
Q, P, C, L, W = (Poly.atom(x) for x in "qPCLW")


def _path_nf(q):
    nf = set()
    for t in q.facts():
        _, e, pol, N, _, _, benv = t
        try:
            key, kp = canon(cmp_nf(N, e))
        except NormError:
            continue
        nf.add((key, kp == pol))
    return nf


def _implied(nf, target, positive=()):
    """Do the comparison facts imply target < 0 over the integers?"""
    for key, val in nf:
        if key[0] != "lt":
            continue
        p = key[1] if val else -key[1] - Poly.const(1)
        m = _min_over_positive(p - target, set(positive))
        if m is not None and m >= 0:
            return True
    return False


def _self_calls(root, name):
    return [c for c in mcalls(root, name) if chain(c.func.value) == "self"]


def _show_conds(q):
    return "; ".join("%s is %s" % (stmt_text(t[1], 50), t[2]) for t in q.facts()) or "(none)"


# ---------------------------------------------------------------------------


@R.clause("C13.a", "MAX_SEQNO = 2**40-1; new_sequence_number returns the old value and increments by one only below MAX_SEQNO")
def a(ctx):
    mx = ctx.prog.module_const("oscore", "MAX_SEQNO")
    try:
        v = Normalizer().poly(mx).const_value()
    except NormError:
        v = None
    ctx.ob("MAX_SEQNO == 2**40 - 1", v is not None and v == 2 ** 40 - 1, None, None, construct="MAX_SEQNO = %s" % stmt_text(mx), detail="value %s" % v)
    fi = ctx.prog.func("oscore.CanProtect.new_sequence_number")
    ctx.need(is_plain_sync(fi), "new_sequence_number is not a plain function")
    ctx.need(not writes_to_name(fi.node, "MAX_SEQNO") and "MAX_SEQNO" not in params(fi), "MAX_SEQNO is shadowed in new_sequence_number")
    paths = sym_paths(fi, {SEQ: "q"}, rename={"MAX_SEQNO": "M"})
    normal = [q for q in paths if q.normal()]
    ctx.floor("normal paths of new_sequence_number", len(normal), 1)
    M = Poly.atom("M")
    for q in normal:
        st = q.stores(SEQ)
        pin = st[-1][3] if st else fi.node
        step = (q.cp[SEQ] - Q).const_value()
        ctx.ob("the counter advances (by one) for every number handed out", step is not None and step >= 1, fi, pin, detail="counter after the call = %r (q = before)" % q.cp[SEQ],
               construct=stmt_text(pin) if st else "new_sequence_number")
        ret = None
        if q.end[0] == "return" and q.end[1] is not None:
            try:
                ret = q.end[2].poly(q.end[1])
            except NormError:
                ret = None
        off = (ret - Q).const_value() if ret is not None else None
        ctx.ob("the number handed out is the counter value before the increment (below the new counter, not below the old one)",
               off is not None and step is not None and 0 <= off < step, fi, q.end[3] if q.end[0] == "return" else fi.node, detail="returned %r, counter afterwards %r (q = counter before)" % (ret, q.cp[SEQ]))
        nf = _path_nf(q)
        ok = ret is not None and _implied(nf, ret - M)
        conds = [t[1] for t in q.facts()]
        ctx.ob("a number is handed out only while the counter is below MAX_SEQNO", ok, fi, conds[-1] if conds else fi.node, detail="path conditions: %s" % _show_conds(q),
               construct=stmt_text(conds[-1]) if conds else "new_sequence_number")
    ctx.ob("an exhausted context refuses (raises) instead of wrapping", any(q.end[0] == "raise" for q in paths), fi, fi.node, construct="new_sequence_number")


@R.clause("C13.b", "persist before use: post_seqnoincrease completes before the number is returned; the bound grows before _store; _store completes before the end")
def b(ctx):
    fi = ctx.prog.func("oscore.CanProtect.new_sequence_number")
    cfg = cfg_of(fi)
    incs = [n for k, n in stores_to(fi.node, SEQ, nested=False)]
    ctx.floor("stores to sender_sequence_number in new_sequence_number", len(incs), 1)
    posts = {cfg.loc1(c) for c in _self_calls(fi.node, "post_seqnoincrease")}
    for n in incs:
        nid = cfg.loc1(n)
        ok = bool(posts) and must_complete(cfg, nid, posts)
        ctx.ob("after the increment no path returns without post_seqnoincrease() having completed", ok, fi, n,
               detail=None if ok else "path: %s" % witness(cfg, nid, cfg.exit, cut_normal=posts))

    pf = ctx.prog.func(FSC + ".post_seqnoincrease")
    ctx.need(is_plain_sync(pf), "post_seqnoincrease is not a plain function")
    pcfg = cfg_of(pf)
    ctx.prog.func(FSC + "._store")  # anchor: a renamed _store is an analysis error, a missing call a violation
    store_calls = _self_calls(pf.node, "_store")
    snodes = {pcfg.loc1(c) for c in store_calls}
    for k, n in stores_to(pf.node, PERS, nested=False):
        nid = pcfg.loc1(n)
        ok = must_complete(pcfg, nid, snodes)
        ctx.ob("once the bound is advanced no path reaches the end without _store() having completed", ok, pf, n,
               detail=None if ok else "path: %s" % witness(pcfg, nid, pcfg.exit, cut_normal=snodes))
    paths = sym_paths(pf, {SEQ: "q", PERS: "P", CHUNK: "C"}, consts={LIMIT: "L"})
    normal = [q for q in paths if q.normal()]
    ctx.floor("normal paths of post_seqnoincrease", len(normal), 2)
    grow = {"C": C, "2C": Poly.const(2) * C}
    try:
        grow["min"] = Normalizer().poly(ast.parse("min(2*C, L)", mode="eval").body)
    except NormError:
        pass
    nstore_paths = 0
    for q in normal:
        sc = [t for t in q.calls() if t[1] in store_calls]
        pst = q.stores(PERS)
        if not sc:
            ok = _implied(_path_nf(q), Q - P - Poly.const(1))
            conds = [t[1] for t in q.facts()]
            ctx.ob("the store is skipped only when sender_sequence_number <= sequence_number_persisted", ok, pf, conds[-1] if conds else pf.node,
                   detail="path conditions: %s" % _show_conds(q), construct=stmt_text(conds[-1]) if conds else "post_seqnoincrease")
            ctx.ob("the bound is not moved without being stored", q.cp[PERS] == P, pf, pst[-1][3] if pst else pf.node, construct=stmt_text(pst[-1][3]) if pst else "post_seqnoincrease")
            continue
        nstore_paths += 1
        snap = sc[-1][2][0][PERS]
        ctx.ob("the bound written by _store is the old bound plus the chunk (advanced before the store)", snap == P + C, pf, sc[-1][1],
               detail="sequence_number_persisted at the _store call = %r (P = before, C = chunk)" % snap)
        ctx.ob("the bound in memory after the call is the one that was stored", q.cp[PERS] == snap, pf, pst[-1][3] if pst else sc[-1][1],
               detail="after = %r, stored = %r" % (q.cp[PERS], snap))
        back = (q.cp[SEQ] - Q).const_value()
        ctx.ob("post_seqnoincrease never moves the counter backwards", back is not None and back >= 0, pf, (q.stores(SEQ) or [(0, 0, 0, pf.node)])[-1][3],
               construct=stmt_text(q.stores(SEQ)[-1][3]) if q.stores(SEQ) else "post_seqnoincrease")
        cst = q.stores(CHUNK)
        ctx.ob("the chunk stays positive: it is kept, doubled, or min(2*chunk, limit)", q.cp[CHUNK] in grow.values(), pf, cst[-1][3] if cst else pf.node,
               detail="chunk after = %r" % q.cp[CHUNK], construct=stmt_text(cst[-1][3]) if cst else "post_seqnoincrease")
    ctx.ob("post_seqnoincrease has a path that stores", nstore_paths >= 1, pf, pf.node, construct="post_seqnoincrease")
    ctx.note("not decided (outside the crash/clean-stop fault model): when _store() raises after sequence_number_persisted was advanced, "
             "the in-memory bound stays ahead of the file and up to chunk-1 further numbers are issued uncovered")

    # __init__: counters start from what _load read
    init = ctx.prog.func(FSC + ".__init__")
    icfg = cfg_of(init)
    loads = {icfg.loc1(c) for c in _self_calls(init.node, "_load")}
    ctx.floor("_load() calls in __init__", len(loads), 1)
    pst = [n for k, n in stores_to(init.node, PERS, nested=False)]
    ctx.floor("stores to sequence_number_persisted in __init__", len(pst), 1)
    for n in pst:
        v = n.value if isinstance(n, ast.Assign) else None
        ctx.ob("__init__ sets the persisted bound to the loaded sender_sequence_number", v is not None and chain(v) == SEQ, init, n)
        ctx.ob("the bound is initialised after _load() completed", after_normal(icfg, loads, icfg.loc1(n)), init, n)
    ctx.ob("every normal path of __init__ initialises the bound", must_complete(icfg, icfg.entry, {icfg.loc1(n) for n in pst}), init, pst[0])
    later = [n for k, n in stores_to(init.node, SEQ, nested=False) if any(icfg.loc1(n) in icfg.reach({icfg.loc1(x)}) for x in pst)]
    ctx.ob("the counter is not changed in __init__ after the bound was taken from it", not later, init, later[0] if later else pst[0])
    cst = [n for k, n in stores_to(init.node, CHUNK, nested=False)]
    ctx.floor("stores to sequence_number_chunksize in __init__", len(cst), 1)
    a_ = init.node.args
    allp = a_.posonlyargs + a_.args
    defaults = dict(zip([x.arg for x in allp[len(allp) - len(a_.defaults):]], a_.defaults))
    for n in cst:
        v = n.value if isinstance(n, ast.Assign) else None
        ok = isinstance(v, ast.Name) and v.id in defaults
        val = None
        if ok:
            try:
                val = norm.consteval(defaults[v.id])
            except NormError:
                val = None
            ok = isinstance(val, int) and val >= 1
        ctx.ob("the initial chunk is a constructor parameter whose default is a positive constant", ok, init, n, detail="default %r" % val)


# ---------------------------------------------------------------------------
# _store


class _Store:
    pass


def _kw(call, name, pos=None):
    for k in call.keywords:
        if k.arg == name:
            return k.value
    if pos is not None and pos < len(call.args):
        return call.args[pos]
    return None


def _stmt_of(cfg, node):
    return cfg.nodes[cfg.loc1(node)].ast


def _store_model(ctx):
    m = _Store()
    m.fi = fi = ctx.prog.func(FSC + "._store")
    m.cfg = cfg = cfg_of(fi)
    ctx.need(is_plain_sync(fi), "_store is not a plain function")
    # parent map for `with` containment
    m.parent = {}
    for p in ast.walk(fi.node):
        for ch in ast.iter_child_nodes(p):
            m.parent[id(ch)] = p
    # temp file
    m.fd = m.tmpname = m.fobj = None
    m.tmpdir = None
    m.creates = []
    for n in walk_no_nested(fi.node):
        if isinstance(n, ast.Assign) and isinstance(n.value, ast.Call):
            cn = chain(n.value.func)
            if cn == "tempfile.mkstemp":
                t = n.targets[0]
                ctx.need(len(n.targets) == 1 and isinstance(t, (ast.Tuple, ast.List)) and len(t.elts) == 2 and all(isinstance(e, ast.Name) for e in t.elts),
                         "mkstemp result is not unpacked into (handle, name)")
                m.fd, m.tmpname = t.elts[0].id, ast.Name(id=t.elts[1].id, ctx=ast.Load())
                m.tmpdir = _kw(n.value, "dir", 2)
                m.creates.append(n)
            elif cn == "tempfile.NamedTemporaryFile":
                t = n.targets[0]
                ctx.need(len(n.targets) == 1 and isinstance(t, ast.Name), "NamedTemporaryFile result is not bound to a local")
                d = _kw(n.value, "delete")
                ctx.need(isinstance(d, ast.Constant) and d.value is False, "NamedTemporaryFile without delete=False")
                m.fobj = t.id
                m.tmpname = ast.Attribute(value=ast.Name(id=t.id, ctx=ast.Load()), attr="name", ctx=ast.Load())
                m.tmpdir = _kw(n.value, "dir", 7)
                m.creates.append(n)
    ctx.need(len(m.creates) == 1, "_store creates its temp file by an idiom outside the rule's vocabulary (mkstemp / NamedTemporaryFile)")
    ctx.need(m.fd is None or len(writes_to_name(fi.node, m.fd)) == 1, "the temp file handle is rebound")
    # file object opened on the handle
    m.withs = []  # With statements that close the file object on exit
    m.unbuffered = False
    m.openers = []
    if m.fd is not None:
        for c in calls_in(fi.node):
            if chain(c.func) in ("io.open", "open", "os.fdopen") and c.args and isinstance(c.args[0], ast.Name) and c.args[0].id == m.fd:
                m.openers.append(c)
        ctx.need(len(m.openers) <= 1, "the temp file handle is opened more than once")
        for c in m.openers:
            b = _kw(c, "buffering", 2)
            m.unbuffered = isinstance(b, ast.Constant) and b.value == 0
            par = m.parent.get(id(c))
            if isinstance(par, ast.withitem):
                w = m.parent.get(id(par))
                ctx.need(par.optional_vars is not None and isinstance(par.optional_vars, ast.Name), "the opened temp file is not bound by `with ... as f`")
                m.fobj = par.optional_vars.id
                m.withs.append(w)
            elif isinstance(par, ast.Assign) and len(par.targets) == 1 and isinstance(par.targets[0], ast.Name):
                m.fobj = par.targets[0].id
            else:
                ctx.need(False, "the opened temp file is neither bound by `with` nor assigned to a local")
    if m.fobj is not None:
        ctx.need(len(writes_to_name(fi.node, m.fobj)) == 1, "the temp file object is rebound")
        for w in walk_no_nested(fi.node):
            if isinstance(w, ast.With) and w not in m.withs:
                for it in w.items:
                    if isinstance(it.context_expr, ast.Name) and it.context_expr.id == m.fobj:
                        m.withs.append(w)

    def is_f(e):
        return m.fobj is not None and isinstance(e, ast.Name) and e.id == m.fobj

    def is_fd(e):
        if m.fd is not None and isinstance(e, ast.Name) and e.id == m.fd:
            return True
        b = match("$f.fileno()", e)
        return b is not None and is_f(b["f"])

    m.writes, m.flushes, m.fsyncs, m.closes, m.renames = [], [], [], [], []
    m.raw_write = False
    for c in calls_in(fi.node):
        cn = chain(c.func) or ""
        if isinstance(c.func, ast.Attribute) and is_f(c.func.value):
            if c.func.attr in ("write", "writelines"):
                m.writes.append((c, c.args[0] if c.args else None))
            elif c.func.attr == "flush":
                m.flushes.append(c)
            elif c.func.attr == "close":
                m.closes.append(c)
        elif cn == "os.write" and c.args and is_fd(c.args[0]):
            m.writes.append((c, c.args[1] if len(c.args) > 1 else None))
            m.raw_write = True
        elif cn == "json.dump" and len(c.args) >= 2 and is_f(c.args[1]):
            m.writes.append((c, c))
        elif cn in ("os.fsync", "os.fdatasync") and c.args and is_fd(c.args[0]):
            m.fsyncs.append(c)
        elif cn == "os.close" and c.args and is_fd(c.args[0]):
            m.closes.append(c)
        elif cn in ("os.replace", "os.rename") and len(c.args) == 2:
            m.renames.append(c)
    return m


def _inside(m, node, container):
    n = node
    while n is not None:
        if n is container:
            return True
        n = m.parent.get(id(n))
    return False


def _payload_dict(ctx, m):
    """(dict variable name, {key: [(value expr, node)]}) of the object serialised into the file."""
    fi = m.fi
    objs = []
    for c, arg in m.writes:
        if arg is None:
            continue
        if arg is c:  # json.dump(obj, f)
            objs.append(c.args[0])
            continue
        e = resolve_local(fi.node, arg)
        found = [x for x in ast.walk(e) if isinstance(x, ast.Call) and chain(x.func) == "json.dumps" and x.args]
        for x in found:
            objs.append(x.args[0])
    ctx.need(len(objs) >= 1, "what _store writes is not json.dumps(...)/json.dump(...) of an object the rule can trace")
    names = {o.id for o in objs if isinstance(o, ast.Name)}
    ctx.need(len(names) == 1 and all(isinstance(o, ast.Name) for o in objs), "the serialised object is not a single local dict")
    var = names.pop()
    entries = {}
    ws = writes_to_name(fi.node, var)
    ctx.need(len(ws) == 1 and isinstance(ws[0], ast.Assign) and isinstance(ws[0].value, ast.Dict), "the serialised object is not built from one dict literal")
    for k, v in zip(ws[0].value.keys, ws[0].value.values):
        ctx.need(isinstance(k, ast.Constant) and isinstance(k.value, str), "non-constant key in the persisted dict")
        entries.setdefault(k.value, []).append((v, ws[0]))
    for kind, n in stores_to(fi.node, var, nested=False):
        if kind == "assign":
            continue
        ctx.need(kind == "setitem" and isinstance(n, ast.Assign) and isinstance(n.targets[0], ast.Subscript) and isinstance(n.targets[0].slice, ast.Constant)
                 and isinstance(n.targets[0].slice.value, str), "the persisted dict is modified by something other than d[<constant>] = v: %s" % stmt_text(n))
        entries.setdefault(n.targets[0].slice.value, []).append((n.value, n))
    return var, entries


def _join_parts(e):
    """(directory expr, constant file name) of os.path.join(D, "name"), else None."""
    b = match("os.path.join($d, $n)", e)
    if b is not None and isinstance(b["n"], ast.Constant) and isinstance(b["n"].value, str):
        return b["d"], b["n"].value
    return None


@R.clause("C13.c", "_store: temp file in the target's directory; write, flush, fsync, close, then replace, on every path; next-to-send is sequence_number_persisted")
def c(ctx):
    m = _store_model(ctx)
    fi, cfg = m.fi, m.cfg
    ctx.floor("rename calls in _store", len(m.renames), 1)
    ctx.floor("write calls in _store", len(m.writes), 1)
    W_ = {cfg.loc1(c) for c, _ in m.writes}
    FL = {cfg.loc1(c) for c in m.flushes}
    FS = {cfg.loc1(c) for c in m.fsyncs}
    CL = {cfg.loc1(c) for c in m.closes}
    RP = {cfg.loc1(c) for c in m.renames}
    need_flush = not (m.unbuffered or (m.raw_write and all(chain(c.func) == "os.write" for c, _ in m.writes)))
    create = m.creates[0]
    for r in m.renames:
        rn = cfg.loc1(r)
        src, dst = r.args
        ctx.ob("the file renamed onto the target is the temp file that was written", same(resolve_local(fi.node, src), m.tmpname) or same(src, m.tmpname), fi, r)
        jp = _join_parts(resolve_local(fi.node, dst))
        ctx.need(jp is not None, "the rename target is not os.path.join(<dir>, <constant>)")
        tdir, tname = jp
        ok = m.tmpdir is not None and chain(tdir) is not None and chain(tdir).startswith("self.") and same(resolve_local(fi.node, m.tmpdir), tdir) \
            and not stores_to(fi.node, chain(tdir))
        ctx.ob("the temp file is created in the directory of the target (same file system, so the rename is atomic)", ok, fi, create,
               detail="temp dir %s, target dir %s" % (stmt_text(m.tmpdir) if m.tmpdir is not None else "(default temp dir)", stmt_text(tdir)))
        ok = after_normal(cfg, W_, rn)
        ctx.ob("the data is written before the rename", ok, fi, r, detail=None if ok else "path: %s" % witness(cfg, cfg.entry, rn, cut_normal=W_))
        if need_flush:
            for c_, _ in m.writes:
                wn = cfg.loc1(c_)
                ok = bool(FL) and must_complete(cfg, wn, FL, to=rn)
                ctx.ob("every write is flushed before the rename", ok, fi, c_, detail=None if ok else "path: %s" % witness(cfg, wn, rn, cut_normal=FL))
        pre = FL if need_flush else W_
        ctx.floor("flush/write sites preceding fsync", len(pre), 1)
        for n in sorted(pre):
            ok = bool(FS) and must_complete(cfg, n, FS, to=rn)
            ctx.ob("the %s is followed by os.fsync before the rename" % ("flush" if need_flush else "write"), ok, fi, cfg.nodes[n].ast,
                   detail=None if ok else "path: %s" % witness(cfg, n, rn, cut_normal=FS))
        closed_by_with = [w for w in m.withs if not _inside(m, r, w)]
        syncs = m.fsyncs or [c_ for c_, _ in m.writes]
        for s in syncs:
            sn = cfg.loc1(s)
            ok = any(_inside(m, s, w) for w in closed_by_with) or (bool(CL) and must_complete(cfg, sn, CL, to=rn))
            ctx.ob("the temp file is closed between fsync and the rename", ok, fi, r,
                   detail=None if ok else "the rename happens while the file may still be open (path: %s)" % witness(cfg, sn, rn, cut_normal=CL))
        for s in m.fsyncs:
            late = [c_ for c_, _ in m.writes if cfg.loc1(c_) in reach_cut(cfg, {cfg.loc1(s)}, cut_normal=FS, include_src=False) and rn in cfg.reach({cfg.loc1(c_)})
                    and not must_complete(cfg, cfg.loc1(c_), FS, to=rn)]
            ctx.ob("nothing is written between the last fsync and the rename", not late, fi, late[0] if late else s)
    ok = must_complete(cfg, cfg.entry, RP)
    ctx.ob("every normal return of _store has replaced the file", ok, fi, m.renames[0], detail=None if ok else "path: %s" % witness(cfg, cfg.entry, cfg.exit, cut_normal=RP))
    var, entries = _payload_dict(ctx, m)
    ctx.need("next-to-send" in entries or any(True for k in entries), "persisted dict has no entries")
    nts = entries.get("next-to-send", [])
    ctx.ob("the persisted dict has a next-to-send entry", bool(nts), fi, m.writes[0][0])
    for v, n in nts:
        ctx.ob("the value written under next-to-send is sequence_number_persisted (the bound, not the counter)", chain(v) == PERS, fi, n, detail="value %s" % stmt_text(v),
               construct="'next-to-send': %s" % stmt_text(v))


# ---------------------------------------------------------------------------
# reader side


class _Load:
    pass


def _load_model(ctx, target_name):
    m = _Load()
    m.fi = fi = ctx.prog.func(FSC + "._load")
    m.cfg = cfg = cfg_of(fi)
    m.var = None
    m.with_ = None
    m.dir = None
    for w in walk_no_nested(fi.node):
        if not isinstance(w, ast.With):
            continue
        for it in w.items:
            ce = it.context_expr
            if isinstance(ce, ast.Call) and chain(ce.func) in ("open", "io.open") and ce.args:
                jp = _join_parts(resolve_local(fi.node, ce.args[0]))
                if jp is not None and jp[1] == target_name and isinstance(it.optional_vars, ast.Name):
                    f = it.optional_vars.id
                    for n in walk_no_nested(w):
                        if isinstance(n, ast.Assign) and len(n.targets) == 1 and isinstance(n.targets[0], ast.Name):
                            b = match("json.load($f)", n.value)
                            if b is not None and isinstance(b["f"], ast.Name) and b["f"].id == f:
                                m.var, m.with_, m.dir = n.targets[0].id, w, jp[0]
    return m


def _reader_keys(m):
    keys = {}
    for n in walk_no_nested(m.fi.node):
        if isinstance(n, ast.Subscript) and isinstance(n.value, ast.Name) and n.value.id == m.var:
            k = n.slice.value if isinstance(n.slice, ast.Constant) and isinstance(n.slice.value, str) else None
            keys.setdefault(k, []).append(n)
        elif isinstance(n, ast.Call) and isinstance(n.func, ast.Attribute) and n.func.attr in ("get", "pop") and isinstance(n.func.value, ast.Name) and n.func.value.id == m.var and n.args:
            k = n.args[0].value if isinstance(n.args[0], ast.Constant) and isinstance(n.args[0].value, str) else None
            keys.setdefault(k, []).append(n)
    return keys


def _writer_side(ctx):
    sm = _store_model(ctx)
    ctx.floor("rename calls in _store", len(sm.renames), 1)
    jp = _join_parts(resolve_local(sm.fi.node, sm.renames[0].args[1]))
    ctx.need(jp is not None, "the rename target is not os.path.join(<dir>, <constant>)")
    var, entries = _payload_dict(ctx, sm)
    return sm, jp, entries


@R.clause("C13.d", "file name, JSON keys and window fields agree between the writers (_store, persist) and the readers (_load, initialize_from_persisted)")
def d(ctx):
    sm, (tdir, tname), entries = _writer_side(ctx)
    lm = _load_model(ctx, tname)
    ctx.ob("_load reads the file _store renames onto (%s)" % tname, lm.var is not None, sm.fi, sm.renames[0], detail="no `with open(os.path.join(..., %r)) as f: x = json.load(f)` in _load" % tname)
    if lm.var is None:
        return
    ctx.ob("reader and writer use the same directory", same(tdir, lm.dir), lm.fi, lm.with_.items[0].context_expr, detail="writer %s, reader %s" % (stmt_text(tdir), stmt_text(lm.dir)))
    ctx.need(len(writes_to_name(lm.fi.node, lm.var)) == 1, "the loaded object is rebound in _load")
    rkeys = _reader_keys(lm)
    ctx.need(None not in rkeys, "_load reads the persisted object with a non-constant key")
    wk, rk = set(entries), set(rkeys)
    for k in sorted(wk | rk):
        if k in wk and k in rk:
            ctx.ob("key %r is written by _store and read by _load" % k, True, lm.fi, rkeys[k][0])
        elif k in rk:
            ctx.ob("every key _load reads is written by _store", False, lm.fi, rkeys[k][0], detail="key %r is never written (written: %s)" % (k, sorted(wk)))
        else:
            ctx.ob("every key _store writes is read by _load", False, sm.fi, entries[k][0][1], detail="key %r is never read (read: %s)" % (k, sorted(rk)),
                   construct="%r: %s" % (k, stmt_text(entries[k][0][0])))
    ctx.floor("keys of sequence.json", len(wk), 2)
    # the counter: next-to-send -> sender_sequence_number
    sst = [n for kind, n in stores_to(lm.fi.node, SEQ, nested=False) if isinstance(n, ast.Assign)]
    fromfile = []
    for n in sst:
        subs = [x for x in ast.walk(n.value) if isinstance(x, ast.Subscript) and isinstance(x.value, ast.Name) and x.value.id == lm.var]
        if subs:
            fromfile.append((n, subs))
    ctx.floor("assignments of sender_sequence_number from the file in _load", len(fromfile), 1)
    for n, subs in fromfile:
        k = subs[0].slice.value if isinstance(subs[0].slice, ast.Constant) else None
        ok = k == "next-to-send" and (same(n.value, subs[0]) or match("int($x)", n.value) is not None and same(n.value.args[0], subs[0]))
        ctx.ob("the counter is restored from next-to-send, unchanged", ok, lm.fi, n)
    # the window: key under which persist() is stored == key handed to initialize_from_persisted
    wkeys = sorted(k for k, vs in entries.items() if any(isinstance(v, ast.Call) and isinstance(v.func, ast.Attribute) and v.func.attr == "persist" for v, _ in vs))
    ctx.need(len(wkeys) == 1, "persist() output is stored under %d keys" % len(wkeys))
    ifp = mcalls(lm.fi.node, "initialize_from_persisted")
    ctx.floor("initialize_from_persisted calls in _load", len(ifp), 1)
    for c_ in ifp:
        a0 = resolve_local(lm.fi.node, c_.args[0]) if c_.args else None
        k = a0.slice.value if isinstance(a0, ast.Subscript) and isinstance(a0.value, ast.Name) and a0.value.id == lm.var and isinstance(a0.slice, ast.Constant) else None
        ctx.ob("the window is restored from the entry persist() was stored under", k == wkeys[0], lm.fi, c_, detail="written under %r, read from %r" % (wkeys[0], k))
        ctx.ob("the window restored is the context's recipient_replay_window (the one persisted)", chain(c_.func.value) == "self.recipient_replay_window", lm.fi, c_)
    for k, vs in entries.items():
        for v, n in vs:
            if isinstance(v, ast.Call) and isinstance(v.func, ast.Attribute) and v.func.attr == "persist":
                ctx.ob("the window persisted is the context's recipient_replay_window", chain(v.func.value) == "self.recipient_replay_window", sm.fi, n)
    # ReplayWindow.persist <-> initialize_from_persisted
    pf = ctx.prog.func("oscore.ReplayWindow.persist")
    rets = [n for n in walk_no_nested(pf.node) if isinstance(n, ast.Return)]
    ctx.need(len(rets) == 1 and isinstance(resolve_local(pf.node, rets[0].value), ast.Dict), "ReplayWindow.persist does not return one dict literal")
    dct = resolve_local(pf.node, rets[0].value)
    wmap = {}
    for k, v in zip(dct.keys, dct.values):
        ctx.need(isinstance(k, ast.Constant) and isinstance(k.value, str), "non-constant key in ReplayWindow.persist")
        wmap[k.value] = chain(v)
    rf = ctx.prog.func("oscore.ReplayWindow.initialize_from_persisted")
    rp = params(rf)
    ctx.need(len(rp) == 1, "initialize_from_persisted signature changed")
    rmap = {}
    for n, bnd in find("self.$f = $v", rf.node):
        v = bnd["v"]
        if isinstance(v, ast.Call) and chain(v.func) == "int" and len(v.args) == 1:
            v = v.args[0]
        if isinstance(v, ast.Subscript) and isinstance(v.value, ast.Name) and v.value.id == rp[0] and isinstance(v.slice, ast.Constant):
            rmap[v.slice.value] = "self." + bnd["f"]
    ctx.floor("fields restored by initialize_from_persisted", len(rmap), 2)
    for k in sorted(set(wmap) | set(rmap)):
        ctx.ob("window entry %r is written from and restored into the same field" % k, wmap.get(k) == rmap.get(k) and wmap.get(k) is not None, rf if k in rmap else pf, rf.node if k in rmap else pf.node,
               detail="persist: %s, initialize_from_persisted: %s" % (wmap.get(k), rmap.get(k)), construct="%r: %s / %s" % (k, wmap.get(k), rmap.get(k)))
    ctx.ob("the persisted window consists of index and bitfield", set(wmap.values()) == {"self._index", "self._bitfield"}, pf, rets[0], detail="fields %s" % sorted(map(str, wmap.values())))


@R.clause("C13.e", "'unknown' is written iff the flag is false; the strike-out callback clears the flag before storing; _load maps it back")
def e(ctx):
    sm, (tdir, tname), entries = _writer_side(ctx)
    fi, cfg = sm.fi, sm.cfg
    wkeys = sorted(k for k, vs in entries.items() if any(isinstance(v, ast.Call) and isinstance(v.func, ast.Attribute) and v.func.attr == "persist" for v, _ in vs))
    ctx.need(len(wkeys) == 1, "persist() output is stored under %d keys" % len(wkeys))
    consts = set()
    nconst = npersist = 0
    for v, n in entries[wkeys[0]]:
        ctx.need(not isinstance(n.value, ast.Dict) if isinstance(n, ast.Assign) else True, "the window entry is part of the dict literal; the rule expects guarded d[k] = v stores")
        facts = facts_at(cfg, fi.node, cfg.loc1(n))
        if isinstance(v, ast.Constant):
            nconst += 1
            consts.add(v.value)
        else:
            npersist += 1
            ctx.ob("a real window is written only when replay_window_persisted is true (otherwise the file would keep a window that goes stale)", has_fact(facts, FLAG, True), fi, n)
            ctx.ob("what is written then is the window's persist() output", isinstance(v, ast.Call) and isinstance(v.func, ast.Attribute) and v.func.attr == "persist", fi, n)
    ctx.floor("marker stores in _store", nconst, 1)
    ctx.need(len(consts) <= 1, "several different markers are written")
    marker = consts.pop() if consts else None
    # every path to the write has set the entry
    setters = {cfg.loc1(n) for _, n in entries[wkeys[0]]}
    for c_, _ in sm.writes:
        ctx.ob("the window entry is set on every path before the data is serialised", after_normal(cfg, setters, cfg.loc1(c_)), fi, c_)

    # _replay_window_changed
    rf = ctx.prog.func(FSC + "._replay_window_changed")
    rcfg = cfg_of(rf)
    ctx.need(is_plain_sync(rf), "_replay_window_changed is not a plain function")
    ctx.prog.func(FSC + "._store")
    stores = _self_calls(rf.node, "_store")
    snodes = {rcfg.loc1(c_) for c_ in stores}
    for k, n in stores_to(rf.node, FLAG, nested=False):
        nid = rcfg.loc1(n)
        ok = must_complete(rcfg, nid, snodes)
        ctx.ob("once the flag is cleared no path returns without _store() having completed", ok, rf, n, detail=None if ok else "path: %s" % witness(rcfg, nid, rcfg.exit, cut_normal=snodes))
    paths = sym_paths(rf, {FLAG: "W"})
    normal = [q for q in paths if q.normal()]
    ctx.floor("normal paths of _replay_window_changed", len(normal), 1)
    wkey = canon(("truth", "W"))
    for q in normal:
        sc = [t for t in q.calls() if t[1] in stores]
        nf = _path_nf(q)
        already = (wkey[0], not wkey[1]) in nf and not q.stores(FLAG)
        if not sc:
            conds = [t[1] for t in q.facts()]
            ctx.ob("the callback returns without storing only when the flag is already false (file already says unknown)", already, rf, conds[-1] if conds else rf.node,
                   detail="path conditions: %s" % _show_conds(q), construct=stmt_text(conds[-1]) if conds else "_replay_window_changed")
            continue
        snap = sc[-1][2][0][FLAG]
        fst = q.stores(FLAG)
        ctx.ob("after the callback the flag still says what the last store wrote (marker for false, the current window for true)", q.cp[FLAG] == snap, rf, fst[-1][3] if fst else sc[-1][1],
               detail="flag at the _store call = %r, afterwards %r" % (snap, q.cp[FLAG]))

    # wiring: the window's strike-out callback is _replay_window_changed
    lm = _load_model(ctx, tname)
    ctx.need(lm.var is not None, "_load does not read %s" % tname)
    lf, lcfg = lm.fi, lm.cfg
    ci, winit, sizech, cbfield = _window_fields(ctx)
    wins = [n for k, n in stores_to(lf.node, "self.recipient_replay_window", nested=False) if k == "assign"]
    ctx.floor("assignments of recipient_replay_window in _load", len(wins), 1)
    cbparam = params(winit)[1]
    for w in wins:
        v = w.value
        cb = None
        if isinstance(v, ast.Call):
            cb = _kw(v, cbparam, 1)
        ctx.ob("the window's strike-out callback is self._replay_window_changed", cb is not None and chain(cb) == "self._replay_window_changed", lf, w)
    so = ctx.prog.func("oscore.ReplayWindow.strike_out")
    ctx.ob("strike_out invokes the stored callback", any(chain(c_.func) == "self." + cbfield for c_ in calls_in(so.node)), so, so.node, construct="ReplayWindow.strike_out")

    # _load: marker -> flag false; dict -> initialize_from_persisted and flag true; missing file -> flag true
    unkT, unkF = [], []
    for n in lcfg.nodes:
        if n.kind in ("T", "F") and n.ast is not None and isinstance(n.ast, ast.Compare) and len(n.ast.ops) == 1 and isinstance(n.ast.ops[0], (ast.Eq, ast.NotEq)):
            l, r = n.ast.left, n.ast.comparators[0]
            cst = [x for x in (l, r) if isinstance(x, ast.Constant) and isinstance(x.value, str)]
            oth = [x for x in (l, r) if not isinstance(x, ast.Constant)]
            if len(cst) == 1 and len(oth) == 1:
                src = resolve_local(lf.node, oth[0])
                if isinstance(src, ast.Subscript) and isinstance(src.value, ast.Name) and src.value.id == lm.var and isinstance(src.slice, ast.Constant) and src.slice.value == wkeys[0]:
                    is_eq = isinstance(n.ast.ops[0], ast.Eq) == (n.kind == "T")
                    (unkT if is_eq else unkF).append((n, cst[0].value))
    ctx.floor("branches of _load comparing the window entry with the marker", len(unkT), 1)
    ctx.floor("branches of _load comparing the window entry with the marker", len(unkF), 1)
    fl = {True: set(), False: set()}
    for k, n in stores_to(lf.node, FLAG, nested=False):
        v = n.value if isinstance(n, ast.Assign) else None
        ctx.need(isinstance(v, ast.Constant) and isinstance(v.value, bool), "_load sets replay_window_persisted to a non-constant")
        fl[v.value].add(lcfg.loc1(n))
    ifp = {lcfg.loc1(c_) for c_ in mcalls(lf.node, "initialize_from_persisted")}
    for n, val in unkT:
        ctx.ob("the marker _load recognises is the one _store writes", val == marker, lf, n.ast, detail="writer %r, reader %r" % (marker, val))
    for n, val in unkF:
        ok = bool(ifp) and must_complete(lcfg, n.id, ifp)
        ctx.ob("a persisted window is restored through initialize_from_persisted", ok, lf, n.ast)
        ok = bool(fl[True]) and must_complete(lcfg, n.id, fl[True]) and not (lcfg.reach({n.id}) & fl[False])
        ctx.ob("a restored window sets replay_window_persisted = True (the file holds a real window until the first strike-out)", ok, lf, n.ast)
    # missing file
    handlers = []
    for t in walk_no_nested(lf.node):
        if isinstance(t, ast.Try) and any(x is lm.with_ for x in ast.walk(t)):
            for h in t.handlers:
                names = [h.type] if h.type is not None and not isinstance(h.type, ast.Tuple) else (h.type.elts if h.type is not None else [])
                if any(chain(x) in ("FileNotFoundError", "OSError", "IOError") for x in names):
                    handlers.append(h)
    ctx.floor("handlers for a missing sequence file in _load", len(handlers), 1)
    for h in handlers:
        hn = lcfg.loc1(h)
        ok = bool(fl[True]) and must_complete(lcfg, hn, fl[True]) and not (lcfg.reach({hn}) & fl[False])
        ctx.ob("with no sequence file the flag is true, so the first strike-out writes the marker", ok, lf, h, construct="except %s" % (stmt_text(h.type) if h.type is not None else ""))
    ctx.ob("every normal path of _load sets the flag", must_complete(lcfg, lcfg.entry, fl[True] | fl[False]), lf, lf.node, construct="_load")


@R.clause("C13.f", "clean shutdown: _destroy sets flag and exact counter before _store, and stores before releasing the lock")
def f(ctx):
    fi = ctx.prog.func(FSC + "._destroy")
    cfg = cfg_of(fi)
    ctx.need(is_plain_sync(fi), "_destroy is not a plain function")
    ctx.prog.func(FSC + "._store")
    stores = _self_calls(fi.node, "_store")
    snodes = {cfg.loc1(c_) for c_ in stores}
    rel = [c_ for c_ in calls_in(fi.node) if (chain(c_.func) or "").startswith("self.lockfile.")]
    rel += [c_ for c_ in calls_in(fi.node) if chain(c_.func) in ("os.unlink", "os.remove") and c_.args and (chain(c_.args[0]) or "").startswith("self.lockfile")]
    ctx.floor("lock release sites in _destroy", len(rel), 1)
    for c_ in rel:
        ctx.ob("the lock is released only after _store() completed", after_normal(cfg, snodes, cfg.loc1(c_)), fi, c_)
    for k, n in stores_to(fi.node, "self.lockfile", nested=False):
        ctx.ob("the lock is dropped only after _store() completed", after_normal(cfg, snodes, cfg.loc1(n)), fi, n)
    paths = sym_paths(fi, {FLAG: "W", PERS: "P", SEQ: "q"})
    normal = [q for q in paths if q.normal()]
    ctx.floor("normal paths of _destroy", len(normal), 1)
    for q in normal:
        sc = [t for t in q.calls() if t[1] in stores]
        if not sc:
            ctx.ob("every normal path of _destroy stores the state", False, fi, fi.node, construct="_destroy", detail="path conditions: %s" % _show_conds(q))
            continue
        cp = sc[-1][2][0]
        fst, pst = q.stores(FLAG), q.stores(PERS)
        over = (cp[PERS] - cp[SEQ]).const_value()
        ctx.ob("the bound written on shutdown is the exact counter (or the untouched bound), never below the counter", cp[PERS] == P or (over is not None and over >= 0), fi, pst[-1][3] if pst else sc[-1][1],
               detail="sequence_number_persisted at the _store call = %r (q = sender_sequence_number, P = bound before)" % cp[PERS], construct=stmt_text(pst[-1][3]) if pst else stmt_text(sc[-1][1]))


# ---------------------------------------------------------------------------

@R.clause("C13.g", "_load: an empty replay window is assumed only when no state file exists; a window read from the file is exactly what was persisted")
def g_load_window(ctx):
    """Added after an independently written breaking change initialised an empty window for a file whose persisted
    window was all-null (what a clean stop writes for a context still waiting for its Echo exchange): every request
    seen before the crash was then accepted again.  Necessary condition: in _load the only initialiser reachable
    after sequence.json has been read is initialize_from_persisted(<the file's entry>); initialize_empty (and any
    direct store to the window's fields) is confined to the path on which opening the file failed with
    FileNotFoundError."""
    fi = ctx.prog.func("oscore.FilesystemSecurityContext._load")
    cfg = cfg_of(fi)
    opens = [c for c in calls_in(fi.node) if call_name(c) == "open" and any(isinstance(x, ast.Constant) and x.value == "sequence.json" for x in ast.walk(c))]
    ctx.ob("_load opens sequence.json", len(opens) == 1, fi, opens[0] if opens else fi.node, construct="_load: open(sequence.json)")
    if len(opens) != 1:
        return
    on = cfg.loc1(opens[0])
    hnodes = [d for d, lab in cfg.succ[on] if lab == "exc" and cfg.nodes[d].kind == "handler"]
    nofile = [h for h in hnodes if cfg.nodes[h].ast.type is not None and chain(cfg.nodes[h].ast.type) in ("FileNotFoundError",)]
    ctx.ob("a missing state file is handled separately (FileNotFoundError)", len(nofile) == 1, fi, opens[0])
    inits = [c for c in calls_in(fi.node) if isinstance(c.func, ast.Attribute) and c.func.attr in ("initialize_empty", "initialize_from_freshlyseen", "initialize_from_persisted")]
    ctx.floor("window initialisers in _load", len(inits), 2)
    for c in inits:
        nid = cfg.loc1(c)
        in_nofile = any(cfg.dominates(h, nid) for h in nofile)
        if c.func.attr == "initialize_empty":
            ctx.ob("an empty replay window is assumed only when no state file exists", in_nofile, fi, c)
        elif c.func.attr == "initialize_from_persisted":
            ctx.ob("the persisted window is restored only from a file that was read", not in_nofile and not any(nid in cfg.reach({h}) for h in nofile), fi, c)
        else:
            ctx.ob("_load never marks a number as freshly seen", False, fi, c)
    direct = [n for n in walk_no_nested(fi.node) if isinstance(n, (ast.Assign, ast.AugAssign)) and any(isinstance(t, ast.Attribute) and t.attr in ("_index", "_bitfield") for t in (n.targets if isinstance(n, ast.Assign) else [n.target]))]
    ctx.ob("_load does not write the window's fields directly", not direct, fi, direct[0] if direct else fi.node, construct=stmt_text(direct[0]) if direct else "_load: direct window stores")


@R.clause("C13.h", "after an unclean stop nothing seen before the crash is accepted again: the recovered window starts exactly at the Echo-verified number (replay-window arithmetic, shared with C12.c)")
def h_shared(ctx):
    """The crash-recovery half of C13 rests on ReplayWindow.initialize_from_freshlyseen anchoring the window *at* the
    number verified through the Echo exchange (index = seen, only that bit set), so that every lower number -- all
    of which may have been accepted before the crash -- is outside the window.  An independently written breaking
    change anchored the window `size-1` below it.  The obligations are those of C12.c."""
    from . import c12
    c12.c(ctx)


@R.clause("C13.i", "distinct sequence numbers give distinct nonces: the partial IV is the number's minimal big-endian rendering and the nonce layout is injective in it (shared with C11.c)")
def i_shared(ctx):
    from . import c11
    c11.c(ctx)


@R.clause("C13.j", "a persisted window is restored verbatim: initialize_from_persisted stores exactly the file's index and bitfield (a null window stays uninitialised)")
def j_verbatim(ctx):
    """Added after an independently written breaking change coerced the persisted fields with `int(... or 0)`: the
    all-null window a clean stop writes for a context still waiting for its Echo exchange came back as an initialised,
    empty window and every pre-crash request was accepted again."""
    fi = ctx.prog.func("oscore.ReplayWindow.initialize_from_persisted")
    p = params(fi)[0]
    for attr, key in (("_index", "index"), ("_bitfield", "bitfield")):
        st = [n for n in walk_no_nested(fi.node) if isinstance(n, ast.Assign) and any(chain(t) == "self." + attr for t in n.targets)]
        ok = len(st) == 1 and match("%s[%r]" % (p, key), st[0].value) is not None
        ctx.ob("%s is restored exactly as persisted under %r" % (attr, key), ok, fi, st[0] if st else fi.node, construct=stmt_text(st[0]) if st else "initialize_from_persisted: %s" % attr)


F_ = "aiocoap/oscore.py"
R.seed("C13.a", F_, "        if retval >= MAX_SEQNO:", "        if retval > MAX_SEQNO:", ">= -> > in the exhaustion test")
R.seed("C13.a", F_, "MAX_SEQNO = 2**40 - 1", "MAX_SEQNO = 2**40", "limit one too high")
R.seed("C13.a", F_, "        self.sender_sequence_number += 1\n        self.post_seqnoincrease()", "        self.sender_sequence_number += 0\n        self.post_seqnoincrease()", "counter does not advance")
R.seed("C13.a", F_, "        self.post_seqnoincrease()\n        return retval", "        self.post_seqnoincrease()\n        return self.sender_sequence_number", "hands out the value that the next call hands out again... and the first number twice after reload")
R.seed("C13.a", F_, "        if retval >= MAX_SEQNO:\n            raise ContextUnavailable(\"Sequence number too large, context is exhausted.\")\n", "", "no exhaustion test")
R.seed("C13.b", F_, "        self.post_seqnoincrease()\n        return retval", "        return retval\n        self.post_seqnoincrease()", "return before post_seqnoincrease")
R.seed("C13.b", F_, "        self.post_seqnoincrease()\n        return retval", "        try:\n            self.post_seqnoincrease()\n        except OSError:\n            pass\n        return retval", "failed persist ignored")
_POST_OLD = (
    "            self.sequence_number_persisted += self.sequence_number_chunksize\n"
    "\n"
    "            self.sequence_number_chunksize = min(\n"
    "                self.sequence_number_chunksize * 2, self.sequence_number_chunksize_limit\n"
    "            )\n"
    "            # FIXME: this blocks -- see https://github.com/chrysn/aiocoap/issues/178\n"
    "            self._store()\n"
)
_POST_NEW = (
    "            self._store()\n"
    "            self.sequence_number_persisted += self.sequence_number_chunksize\n"
    "\n"
    "            self.sequence_number_chunksize = min(\n"
    "                self.sequence_number_chunksize * 2, self.sequence_number_chunksize_limit\n"
    "            )\n"
)
R.seed("C13.b", F_, _POST_OLD, _POST_NEW, "_store() before the +=: the file keeps the old bound")
R.seed("C13.b", F_, "        if self.sender_sequence_number > self.sequence_number_persisted:", "        if self.sender_sequence_number > self.sequence_number_persisted + 1:", "store skipped one number too long")
R.seed("C13.b", F_, "            # FIXME: this blocks -- see https://github.com/chrysn/aiocoap/issues/178\n            self._store()\n", "            # FIXME: this blocks -- see https://github.com/chrysn/aiocoap/issues/178\n", "bound advanced in memory only")
R.seed("C13.b", F_, "        self.sequence_number_chunksize = sequence_number_chunksize_start\n\n        self.sequence_number_persisted = self.sender_sequence_number", "        self.sequence_number_chunksize = sequence_number_chunksize_start\n\n        self.sequence_number_persisted = 0", "bound restarts at 0: the file moves backwards")
R.seed("C13.b", F_, "            self.sequence_number_persisted += self.sequence_number_chunksize\n", "            self.sequence_number_persisted = self.sequence_number_chunksize\n", "bound set to the chunk instead of advanced by it")
R.seed("C13.b", F_, "                self.sequence_number_chunksize * 2, self.sequence_number_chunksize_limit\n", "                self.sequence_number_chunksize - 10, self.sequence_number_chunksize_limit\n", "chunk can reach 0: the bound stops advancing")
R.seed("C13.c", F_, "            os.fsync(tmpfile.fileno())\n", "            pass\n", "no fsync")
R.seed("C13.c", F_, "            os.fsync(tmpfile.fileno())\n\n        os.replace(tmpnam, os.path.join(self.basedir, \"sequence.json\"))", "            os.replace(tmpnam, os.path.join(self.basedir, \"sequence.json\"))\n            os.fsync(tmpfile.fileno())", "fsync and replace swapped")
R.seed("C13.c", F_, "            dir=self.basedir, prefix=", "            prefix=", "temp file in the default temp directory")
R.seed("C13.c", F_, "data = {\"next-to-send\": self.sequence_number_persisted}", "data = {\"next-to-send\": self.sender_sequence_number}", "counter written instead of the bound")
R.seed("C13.c", F_, "            tmpfile.flush()\n", "", "no flush before fsync")
R.seed("C13.c", F_, "            os.fsync(tmpfile.fileno())\n\n        os.replace(tmpnam, os.path.join(self.basedir, \"sequence.json\"))", "            os.fsync(tmpfile.fileno())\n            os.replace(tmpnam, os.path.join(self.basedir, \"sequence.json\"))", "renamed while still open")
R.seed("C13.c", F_, "            tmpfile.write(json.dumps(data).encode(\"utf8\"))\n            tmpfile.flush()\n            os.fsync(tmpfile.fileno())\n", "            tmpfile.flush()\n            os.fsync(tmpfile.fileno())\n            tmpfile.write(json.dumps(data).encode(\"utf8\"))\n", "written after the fsync")
R.seed("C13.c", F_, "        os.replace(tmpnam, os.path.join(self.basedir, \"sequence.json\"))", "        if self.replay_window_persisted:\n            os.replace(tmpnam, os.path.join(self.basedir, \"sequence.json\"))", "file not replaced on one path")
R.seed("C13.d", F_, "int(sequence[\"next-to-send\"])", "int(sequence[\"next_to_send\"])", "reader key differs")
R.seed("C13.d", F_, "        return {\"index\": self._index, \"bitfield\": self._bitfield}", "        return {\"index\": self._bitfield, \"bitfield\": self._index}", "fields swapped in persist")
R.seed("C13.d", F_, "            with open(os.path.join(self.basedir, \"sequence.json\")) as f:", "            with open(os.path.join(self.basedir, \"sequences.json\")) as f:", "reader opens another file")
R.seed("C13.d", F_, "        self._bitfield = persisted[\"bitfield\"]", "        self._bitfield = persisted[\"bits\"]", "window key differs")
R.seed("C13.d", F_, "            received = sequence[\"received\"]", "            received = sequence[\"next-to-send\"]", "window restored from the wrong entry")
R.seed("C13.e", F_, "            self.replay_window_persisted = False\n            self._store()", "            self.replay_window_persisted = False", "flag cleared but nothing stored: the stale window stays in the file")
R.seed("C13.e", F_, "        if not self.replay_window_persisted:\n            data[\"received\"] = \"unknown\"", "        if self.replay_window_persisted:\n            data[\"received\"] = \"unknown\"", "marker condition inverted")
R.seed("C13.e", F_, "                self.replay_window_persisted = True\n\n    # This is called internally", "                self.replay_window_persisted = False\n\n    # This is called internally", "restored window with flag false: the file keeps a window that goes stale")
R.seed("C13.e", F_, "            windowsize, self._replay_window_changed", "            windowsize, lambda: None", "callback not wired")
R.seed("C13.e", F_, "            self.replay_window_persisted = False\n            self._store()", "            self._store()\n            self.replay_window_persisted = False", "stored before the flag is cleared")
R.seed("C13.e", F_, "            if received == \"unknown\":", "            if received == \"Unknown\":", "marker spelled differently on the reader side")
R.seed("C13.e", F_, "            self.recipient_replay_window.initialize_empty()\n            self.replay_window_persisted = True", "            self.recipient_replay_window.initialize_empty()\n            self.replay_window_persisted = False", "no file and flag false: strike-outs are never recorded as unknown")
R.seed("C13.f", F_, "        self._store()\n\n        del self.sender_key\n        del self.recipient_key\n\n        os.unlink(self.lockfile.lock_file)\n        self.lockfile.release()\n", "        del self.sender_key\n        del self.recipient_key\n\n        os.unlink(self.lockfile.lock_file)\n        self.lockfile.release()\n        self._store()\n", "stored after the lock was released")
R.seed("C13.f", F_, "        self.replay_window_persisted = True\n        self.sequence_number_persisted = self.sender_sequence_number\n        self._store()", "        self.replay_window_persisted = True\n        self.sequence_number_persisted = self.sender_sequence_number - 1\n        self._store()", "last-used instead of next-to-send written on shutdown")
R.seed("C13.f", F_, "        self.sequence_number_persisted = self.sender_sequence_number\n        self._store()\n\n        del self.sender_key", "        self.sequence_number_persisted = self.sender_sequence_number\n        try:\n            self._store()\n        except OSError:\n            pass\n\n        del self.sender_key", "lock released although the final store failed")

R.seed("C13.g", F_, "                self.replay_window_persisted = True\n\n    # This is called internally", "                if not self.recipient_replay_window.is_initialized():\n                    self.recipient_replay_window.initialize_empty()\n                self.replay_window_persisted = True\n\n    # This is called internally", "all-null persisted window (clean stop while waiting for Echo) becomes an empty window")
R.seed("C13.g", F_, "                # The replay window will stay uninitialized, which triggers\n                # Echo recovery\n                self.replay_window_persisted = False", "                self.recipient_replay_window.initialize_empty()\n                self.replay_window_persisted = False", "unknown state treated as nothing seen")

R.seed("C13.h", F_, "        self._index = seen\n        self._bitfield = 1\n", "        self._index = max(seen - self._size + 1, 0)\n        self._bitfield = 1 << (seen - self._index)\n", "recovered window anchored below the Echo-verified number: pre-crash requests replayable")

R.seed("C13.i", F_, "partial_iv.lstrip(b\"\\0\")", "partial_iv.strip(b\"\\0\")", "trailing zero bytes stripped too: 256 gets the partial IV of 1")

R.seed("C13.j", F_, "        self._index = persisted[\"index\"]\n        self._bitfield = persisted[\"bitfield\"]\n", "        self._index = int(persisted[\"index\"] or 0)\n        self._bitfield = int(persisted[\"bitfield\"] or 0)\n", "null window (clean stop while waiting for Echo) restored as an empty initialised window")
