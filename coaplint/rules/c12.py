"""C12 OSCORE replay protection: a protected request is accepted at most once.

Decided on the syntax trees of aiocoap/oscore.py (which cannot be imported here):

C12.a  [dom]   every mutation of the recipient replay window inside `unprotect`
               (strike_out, initialize_from_freshlyseen, direct stores) happens only
               after a *normal* return of the AEAD decrypt call and of
               `_post_decrypt_checks`; strike_out carries the three guards; the
               window tests sit on every request path to the decrypt call; the number
               tested/struck out is the big-endian integer of the partial IV that
               feeds the nonce.
C12.b  [path]  a replay verdict (`v = ReplayError(...)`) cannot be lost: no path from a
               definition reaches the normal exit without passing `v = None`; the
               only such kill needs decrypt success, an uninitialised window, the
               echo comparison on the *decrypted* message, and records the number.
               A kill is `v = None` *reached while v may hold a verdict*: the
               obligations are owed on those arrivals of modelled paths only (the
               same statement reached with v None clears nothing), and "records the
               number" is a statement about the accepting paths through the kill (an
               initialize_from_freshlyseen completes on each), not about dominance --
               so the bookkeeping may live in an expanded helper that returns a flag
               or the error still to be raised.
C12.c  [nf]    window arithmetic against the reference model (Appendix A.11), by
               symbolic execution of the (loop free) ReplayWindow methods over
               polynomial normal forms and a truth table over comparison atoms.
C12.d  [flow]  echo_recovery of the file-backed context is fresh per process; the
               challenge sent equals the value compared; an "unknown" persisted
               window stays uninitialised; is_initialized <=> _index is not None.
C12.e  [shared] C13.e + C13.g: the file says "unknown" before the first strike-out after a
               load is accepted; _load assumes an empty window only without a state file.
               (The two groups are run independently: a refusal of one does not mask the other.)
C12.f  [path]  the number handed to the window is the message's OWN partial IV.
C12.g  [shared] C13.j: a persisted window is restored verbatim (a null window -- what a
               clean stop writes while the context waits for its Echo exchange -- stays
               uninitialised).
C12.h  [joint] crash states of the state file: the set of file states _load takes for a
               never-used context (unopened / undecoded / decoded, per feasible path to
               initialize_empty) is disjoint from the set a crash inside _store can leave
               (in-place write or non-durable rename -> undecoded; removal -> unopened).
               Either site may change as long as the sets stay disjoint.

Vocabulary (outside it the rule stops with an analysis error, never a verdict):
window tests are calls `<w>.is_initialized()` / `<w>.is_valid(x)` used as branch
conditions (directly, negated, through a local, or as the condition of a conditional
expression that is assigned -- those are rewritten into if statements on a private
copy first); the verdict variable is a local assigned `ReplayError(...)`; "request
side" is `<msg>.code.is_response()` false or `<msg>.code.is_request()` true for the
message parameter.

How guards are read (false-alarm discipline): "X is guarded by C" is decided by
`SiteFacts` over the engine's path model -- C holds at X when, on every modelled path
to X (exceptional edges included), the last decision on the atom C gave that value and
nothing C reads was written since (locals rebound, attribute chains stored, and for the
window's query methods: a window mutator called).  Nesting, early returns/raises,
`elif a and c` after `if a and b`, De Morgan forms, named conditions and guard order
make no difference.  Window queries are one atom only between two mutator calls
(`EpochPathModel`).  Values are followed through definitions that *reach* a use on a
path, copies `a = b` are looked through.

Locals mean what they hold on the path (`_kit_c12.Values`): each modelled path carries,
per local, an abstract value (constant / not-None object / "truth of E as evaluated at
position j" / a *sentinel*: the unique object of a never-rebound class-level or
module-level slot `_MISSING = object()` / `Sentinel(..)`, or of one evaluation of
`object()`, compared by identity against itself, constants, constructed objects and the
results of standard-library decoders) and the root definition it came from.  A path on which a branch outcome
contradicts such a value (`x = None ... if x is not None:` true) is not a path of the
model, a branch on a name that holds a condition states that condition (however often
the name is assigned), and "the same number" is identity of root definitions, not of
names.  So a decision carried from where it is taken to where it is used in a sentinel,
a flag, a named condition or a copy reads like the inline compound condition.
Conditional expressions are normalised on the private copy (`desugared`): in statement
position to if statements, in boolean position to and/or/not (`bool_form`: predicate
helpers with several returns arrive as conditional-expression trees), in leading value
position through a fresh local (`hoist_leading_ifexps`).

The ReplayWindow methods are read from a private re-parse with helper expansion but
without the engine's copy propagation (see `sound_methods` for the engine defect this
works around); the symbolic execution substitutes locals itself, flow-sensitively.

Helpers defined here (reach_cut, must_complete, sym_paths, truth-table equivalence)
are shared with c13.py.
"""

from fractions import Fraction
from itertools import product

from ..rulekit import *
from ..norm import Normalizer, Poly, NormError
from ..paths import PathModel, atom_key
from ._kit_c12 import bool_form, node_writes, Values, State, hoist_leading_ifexps

R = Rules(
    "C12",
    explanation=(
        "Structural clauses of OSCORE replay protection decided on the syntax trees of oscore.py: in "
        "CanUnprotect.unprotect every window mutation is dominated by a normal return of the AEAD decrypt call and "
        "of _post_decrypt_checks (a forgery never marks the window), strike_out is guarded by request-side, "
        "number-present and no-pending-verdict, the window tests lie on every request path to decrypt, and the "
        "number tested is the big-endian partial IV that feeds the nonce; a ReplayError verdict cannot reach the "
        "normal return except through the single kill that requires decrypt success, an uninitialised window and "
        "equality of the decrypted Echo option with this process's echo_recovery, and which records the number; "
        "ReplayWindow.is_valid/strike_out/initialize_* equal the reference window model n>=lo and (n>=lo+size or "
        "bit clear), overshoot n-(lo+size-1) applied to both index and bitfield, bit 1<<(n-lo), callback after the "
        "mutation; echo_recovery is secrets.token_bytes(>=8) assigned on every path of "
        "FilesystemSecurityContext.__init__ and nowhere else, and a persisted window marked unknown stays "
        "uninitialised; a persisted window is restored verbatim (null stays uninitialised) and no state of sequence.json that a crash inside _store can leave behind is taken by _load for a never-used context.  Paper step: with these premises a number is struck out only when authentic and valid, a "
        "struck number is never valid again, and nothing is accepted while is_initialized() is false.  Acceptance "
        "of authentic numbers needs the AEAD to run and is not decided."
    ),
    rule_text="dominance and must-pass rules on the CFG of unprotect with exceptional edges cut, symbolic execution of ReplayWindow methods over polynomial normal forms, truth-table equivalence of decision predicates",
)

UNP = "oscore.CanUnprotect.unprotect"
RW = "oscore.ReplayWindow."
FSC = "oscore.FilesystemSecurityContext"
WINDOW_MUTATORS = ("strike_out", "initialize_from_freshlyseen", "initialize_empty", "initialize_from_persisted")
WINDOW_QUERIES = ("is_initialized", "is_valid")
WINDOW_FIELDS = ("_index", "_bitfield")


# ---------------------------------------------------------------------------
# generic helpers (shared with c13)


def mcalls(root, attr, nested=False):
    """Calls `<anything>.<attr>(...)` below root."""
    it = ast.walk(root) if nested else walk_no_nested(root)
    return [n for n in it if isinstance(n, ast.Call) and isinstance(n.func, ast.Attribute) and n.func.attr == attr]


def reach_cut(cfg, srcs, cut_normal=(), avoid=(), include_src=True):
    """Nodes reachable from srcs over all edge kinds, where a node in
    `cut_normal` is left only along its exceptional edges (i.e. paths on which
    that statement completes normally are cut) and nodes in `avoid` are never
    entered."""
    cut = set(cut_normal)
    avoid = set(avoid)
    seen = set(srcs) if include_src else set()
    todo = list(srcs)
    while todo:
        n = todo.pop()
        for d, lab in cfg.succ[n]:
            if n in cut and lab != "exc":
                continue
            if d in avoid or d in seen:
                continue
            seen.add(d)
            todo.append(d)
    return seen


def after_normal(cfg, through, x):
    """Every path entry ->* x contains a *normal* completion of a node in
    `through` (x is reachable at all)."""
    return bool(through) and cfg.is_reachable(x) and x not in reach_cut(cfg, {cfg.entry}, cut_normal=through)


def must_complete(cfg, src, through, to=None, avoid=()):
    """Every path (exceptional edges included) src ->* to (default normal exit)
    contains a normal completion of a node in `through` (or enters `avoid`)."""
    to = cfg.exit if to is None else to
    return to not in reach_cut(cfg, {src}, cut_normal=through, avoid=avoid)


def witness(cfg, src, dst, cut_normal=(), avoid=()):
    """A path src ->* dst under the same restrictions as reach_cut, as text."""
    cut = set(cut_normal)
    avoid = set(avoid)
    par = {src: None}
    todo = [src]
    while todo:
        n = todo.pop(0)
        if n == dst:
            break
        for d, lab in cfg.succ[n]:
            if (n in cut and lab != "exc") or d in avoid or d in par:
                continue
            par[d] = n
            todo.append(d)
    if dst not in par:
        return None
    path = []
    n = dst
    while n is not None:
        path.append(n)
        n = par[n]
    out = []
    for n in reversed(path):
        nd = cfg.nodes[n]
        if nd.kind in ("T", "F"):
            out.append("[%s is %s]" % (stmt_text(nd.ast, 40), nd.kind == "T"))
        elif nd.ast is not None and nd.kind in ("stmt", "return", "raise"):
            out.append(stmt_text(nd.ast, 40))
        elif nd.kind in ("exit", "rexit"):
            out.append("<%s>" % nd.kind)
    return " -> ".join(out)


def is_boolish(e):
    return isinstance(e, (ast.Compare, ast.BoolOp)) or (isinstance(e, ast.UnaryOp) and isinstance(e.op, ast.Not)) or isinstance(e, ast.Call)


def expand_fact(fnode, e, pol, depth=3):
    """Atomic facts [(expr, polarity, defining_assign_or_None)] implied by the
    boolean expression `e` having truth value `pol`; single-assignment boolean
    locals are followed."""
    if isinstance(e, ast.Name) and depth:
        v = assigned_value(fnode, e.id)
        if v is not None and len(writes_to_name(fnode, e.id)) == 1 and is_boolish(v):
            w = writes_to_name(fnode, e.id)[0]
            return [(x, p, d or w) for x, p, d in expand_fact(fnode, v, pol, depth - 1)]
        return [(e, pol, None)]
    if isinstance(e, ast.UnaryOp) and isinstance(e.op, ast.Not):
        return expand_fact(fnode, e.operand, not pol, depth)
    if isinstance(e, ast.BoolOp):
        conj = isinstance(e.op, ast.And)
        if conj == pol:
            out = []
            for v in e.values:
                out.extend(expand_fact(fnode, v, pol, depth))
            return out
        return []  # a false conjunction / true disjunction implies nothing atomic
    return [(e, pol, None)]


def facts_at(cfg, fnode, nid):
    out = []
    for e, pol, pid in cfg.guards(nid):
        out.extend((x, p, (d, pid) if d is not None else None) for x, p, d in expand_fact(fnode, e, pol))
    return out


_FLIP = {ast.Is: ast.IsNot, ast.IsNot: ast.Is, ast.Eq: ast.NotEq, ast.NotEq: ast.Eq, ast.In: ast.NotIn, ast.NotIn: ast.In}


def fact_matches(e, pol, pattern, want=True, bindings=None):
    """Does the atomic fact (e, pol) state `pattern` with truth value `want`
    (the complementary comparison operator with the opposite polarity counts)?"""
    variants = [e]
    if isinstance(e, ast.Compare) and len(e.ops) == 1 and isinstance(e.ops[0], (ast.Is, ast.IsNot, ast.Eq, ast.NotEq)):
        variants.append(ast.Compare(left=e.comparators[0], ops=e.ops, comparators=[e.left]))  # symmetric operators
    for x in variants:
        if pol == want and match(pattern, x, bindings) is not None:
            return True
        if isinstance(x, ast.Compare) and len(x.ops) == 1 and type(x.ops[0]) in _FLIP:
            ne = ast.Compare(left=x.left, ops=[_FLIP[type(x.ops[0])]()], comparators=x.comparators)
            if pol == (not want) and match(pattern, ne, bindings) is not None:
                return True
    return False


def has_fact(facts, pattern, want=True, bindings=None):
    return any(fact_matches(e, pol, pattern, want, bindings) for e, pol, _ in facts)


def test_nodes(cfg, fnode, pred):
    """[(test node id, resolved expr)] for branch tests whose condition (directly
    or through a single-assignment local) satisfies pred."""
    out = []
    for n in cfg.nodes:
        if n.kind != "test" or n.ast is None:
            continue
        e = n.ast
        if isinstance(e, ast.Name) and len(writes_to_name(fnode, e.id)) == 1:
            v = assigned_value(fnode, e.id)
            if v is not None:
                e = v
        if pred(e):
            out.append((n.id, e))
    return out


def outcome(cfg, test_id, label):
    return [d for d, lab in cfg.succ[test_id] if lab == label]


# --- path-sensitive facts -------------------------------------------------------
#
# `facts_at` above reads the branch outcomes that *dominate* a node.  That is a statement about the shape of the
# code: `if a and b: X  elif a and c: Y` puts Y under "a, c, and not (a and b)", from which `not b` follows, but no
# branch outcome `b is False` dominates Y.  `SiteFacts` states the same thing over the path model: an atomic fact
# holds at a node when, on every modelled path to that node (exceptional edges included), the last decision on that
# atom before the node gave that value and nothing it reads was written since.


def _state_reads(e, attrs):
    return any(isinstance(n, ast.Call) and isinstance(n.func, ast.Attribute) and n.func.attr in attrs for n in ast.walk(e))


class EpochPathModel(PathModel):
    """Path model in which a test that reads mutable object state through a query method (`w.is_initialized()`,
    `w.is_valid(n)`) is one atom only among the occurrences that have the same set of possibly preceding mutator
    statements: two occurrences with a mutator call in between are decided independently.

    With `values` (a `_kit_c12.Values`) the paths on which a branch outcome contradicts the value a local has there
    (`x = None ... if x is not None:` taken as true, `flag = False ... if flag:` taken as true, `v = E(...)` ...
    `if v is None:` taken as true) are not paths of the model."""

    def __init__(self, fi, query_attrs, mutator_nodes, values=None, **kw):
        self._qattrs = tuple(query_attrs)
        self._mut_nodes = set(mutator_nodes)
        self._reach_of = {}
        self._values = values
        self._feasible = None
        super().__init__(fi, **kw)

    def paths(self):
        if self._feasible is None:
            ps = super().paths()
            if self._values is not None:
                ps = [p for p in ps if self._values.feasible(p.nodes)]
            self._feasible = ps
        return self._feasible

    def key_of(self, node):
        k, pol = super().key_of(node)
        if node.ast is not None and _state_reads(node.ast, self._qattrs):
            ep = []
            for m in sorted(self._mut_nodes):
                if m not in self._reach_of:
                    self._reach_of[m] = self.cfg.reach({m})
                if node.id in self._reach_of[m]:
                    ep.append(str(m))
            k = "%s @w[%s]" % (k, ",".join(ep))
        return k, pol


_node_writes = node_writes  # (moved to the kit; the name is kept)


class SiteFacts:
    def __init__(self, fi, query_attrs=(), mutator_attrs=(), state_fields=(), prog=None):
        self.fi = fi
        self.cfg = cfg = cfg_of(fi)
        self.qattrs = tuple(query_attrs)
        self.mattrs = tuple(mutator_attrs)
        self.sfields = tuple(state_fields)
        self._w = {}
        self._cache = {}
        self._ai, self._br, self._pf, self._st = {}, {}, {}, {}
        self.mut_nodes = {n.id for n in cfg.nodes if self._mutates(n)}
        self.V = Values(fi, cfg, prog)
        self.pm = EpochPathModel(fi, self.qattrs, self.mut_nodes, values=self.V, include_exc=True, max_paths=60000)

    def _mutates(self, nd):
        names, chains, parts = self._writes(nd)
        for part in parts:
            for n in walk_no_nested(part):
                if isinstance(n, ast.Attribute) and n.attr in self.mattrs:  # called, or taken as a bound method
                    return True
        return any(c.split(".")[-1] in self.sfields for c in chains)

    def _writes(self, nd):
        if nd.id not in self._w:
            self._w[nd.id] = _node_writes(nd)
        return self._w[nd.id]

    def _kills(self, nid, x, xnames, xchains, xstate, transparent=()):
        nd = self.cfg.nodes[nid]
        names, chains, _ = self._writes(nd)
        if names & xnames:
            return True
        for c in chains:
            for r in xchains:
                if r == c or r.startswith(c + ".") or c.startswith(r + "."):
                    return True
        return xstate and nid in self.mut_nodes and nid not in transparent

    def _atom_info(self, x):
        i = self._ai.get(id(x))
        if i is None:
            xnames = {m.id for m in ast.walk(x) if isinstance(m, ast.Name)}
            xchains = {c for c in (chain(m) for m in ast.walk(x) if isinstance(m, ast.Attribute)) if c}
            i = self._ai[id(x)] = (xnames, xchains, _state_reads(x, self.qattrs), atom_key(x), x)
        return i

    def _branches(self, p):
        """{position: [(atomic expr, polarity, position of evaluation | None)]} for the branch outcomes of path p, names
        being read as what they hold on that path (`Values.expand`)."""
        r = self._br.get(id(p))
        if r is None:
            r = {}
            V, cfg, nodes = self.V, self.cfg, p.nodes
            st = State()
            last = len(nodes) - 1
            for j, n in enumerate(nodes):
                nd = cfg.nodes[n]
                if nd.kind in ("T", "F"):
                    if isinstance(nd.ast, ast.expr):
                        r[j] = V.expand(nd.ast, nd.kind == "T", st.env)
                else:
                    V.step(st, n, nodes[j + 1] if j < last else None, j)
            self._br[id(p)] = r
        return r

    def state(self, p, idx):
        """Values and root definitions of the locals when path p arrives at position idx."""
        k = (id(p), idx)
        if k not in self._st:
            self._st[k] = self.V.state_before(p.nodes, idx)
        return self._st[k]

    def states_at(self, nid):
        """[(path, position, State)] for every arrival of a modelled path at node nid."""
        out = []
        for p in self.pm.paths_through(nid):
            for i, n in enumerate(p.nodes):
                if n == nid:
                    out.append((p, i, self.state(p, i)))
        return out

    def _path_facts(self, p, upto, transparent=frozenset()):
        """{(atom key, truth): (expr, pol, via)} live when path p arrives at position `upto`.  Mutator statements in
        `transparent` do not invalidate object-state facts (for "the state in which that very mutator was called")."""
        key = (id(p), upto, transparent)
        if key in self._pf:
            return self._pf[key]
        cfg = self.cfg
        nodes = p.nodes
        br = self._branches(p)
        live = {}
        for j in range(upto):
            n = nodes[j]
            facts = br.get(j)
            if facts is not None:
                for x, pol, at in facts:
                    xnames, xchains, xstate, (k, kp), _ = self._atom_info(x)
                    if at is not None:
                        # the fact was evaluated where the local was bound: nothing it reads may change from there on
                        if any(self._kills(q, x, xnames, xchains, xstate, transparent) for q in nodes[at + 1:j]):
                            continue
                    # a later decision on the same atom replaces an earlier one
                    live.pop((k, not (kp == pol)), None)
                    live[(k, kp == pol)] = (x, pol, (at, n) if at is not None else None)
            elif live and cfg.nodes[n].kind not in ("T", "F"):
                names, chains, _ = self._writes(cfg.nodes[n])
                if names or chains or n in self.mut_nodes:
                    for fk in [fk for fk, (x, pol, via) in live.items() if self._kills(n, x, *self._atom_info(x)[:3], transparent)]:
                        del live[fk]
        self._pf[key] = live
        return live

    def at(self, nid, transparent=frozenset(), arrivals=None):
        """[(expr, polarity, via)] -- the atomic facts that hold whenever control reaches node nid.  With `arrivals`
        (a non-empty list of (path, position) pairs taken from `states_at(nid)`): the facts that hold on each of those
        arrivals ("whenever control reaches nid in a state in which ...")."""
        transparent = frozenset(transparent)
        ck = (nid, transparent) if arrivals is None else None
        if ck is not None and ck in self._cache:
            return self._cache[ck]
        common = None
        if arrivals is not None:
            by_path = {}
            for p, i in arrivals:
                by_path.setdefault(id(p), (p, []))[1].append(i)
            todo = list(by_path.values())
        else:
            todo = [(p, [i for i, n in enumerate(p.nodes) if n == nid]) for p in self.pm.paths_through(nid)]
        for p, idxs in todo:
            for i in idxs:
                live = self._path_facts(p, i, transparent)
                if common is None:
                    common = dict(live)
                else:
                    for key in [k for k in common if k not in live]:
                        del common[key]
                if not common:
                    break
            if common is not None and not common:
                break
        if common is None:
            # not on any modelled path (dead code, or beyond the loop bound): the dominating branch outcomes
            out = facts_at(self.cfg, self.fi.node, nid)
        else:
            out = sorted(common.values(), key=lambda t: (getattr(t[0], "lineno", 0), getattr(t[0], "col_offset", 0), t[1]))
        if ck is not None:
            self._cache[ck] = out
        return out

    def passed(self, nid):
        """Branch outcomes (atomic, as [(expr, polarity)]) that every modelled path to nid went through, whether or
        not what they read was modified afterwards ("this arm is only entered when ...")."""
        common = None
        for p in self.pm.paths_through(nid):
            i = p.nodes.index(nid)
            got = {}
            for j, facts in self._branches(p).items():
                if j < i:
                    for x, pol, at in facts:
                        k, kp = self._atom_info(x)[3]
                        got[(k, kp == pol)] = (x, pol, None)
            common = got if common is None else {k: v for k, v in common.items() if k in got}
        if common is None:
            return facts_at(self.cfg, self.fi.node, nid)
        return list(common.values())

    def notnone_at(self, nid, name):
        """On every modelled arrival at node nid a test `<x> is not None` holds for a local x that has the same root
        definition as `name` there (the value was tested under another name: `opt = d.pop(K, None)`,
        `if opt is None: ... else: piv = opt`), or `name` is bound to something that is not None."""
        sts = self.states_at(nid)
        if not sts:
            return False
        for p, i, st in sts:
            v = st.env.get(name)
            if v is not None and ((v[0] == "const" and v[1] is not None) or v[0] == "nonnull"):
                continue
            o = st.origin_of(name)
            ok = False
            for x, pol, _via in self._path_facts(p, i).values():
                if isinstance(x, ast.Compare) and len(x.ops) == 1 and isinstance(x.ops[0], (ast.Is, ast.IsNot, ast.Eq, ast.NotEq)):
                    l, r = x.left, x.comparators[0]
                    if isinstance(l, ast.Constant):
                        l, r = r, l
                    if isinstance(l, ast.Name) and isinstance(r, ast.Constant) and r.value is None and isinstance(x.ops[0], (ast.IsNot, ast.NotEq)) == pol:
                        ok = ok or st.origin_of(l.id) == o
            if not ok:
                return False
        return True

    def nonnull_at(self, nid, name):
        """Is the local known not to be None on every modelled arrival at node nid (by the value it was bound to on
        that path: a constant other than None, a constructed object, the result of a conversion)?"""
        sts = self.states_at(nid)
        if not sts:
            return False
        for _p, _i, st in sts:
            v = st.env.get(name)
            if v is None or not ((v[0] == "const" and v[1] is not None) or v[0] == "nonnull"):
                return False
        return True


def window_site_facts(prog, fi):
    """SiteFacts of a function with respect to the replay window's queries and mutators (one per program and function:
    the path enumeration is shared by the clauses)."""
    cache = prog.__dict__.setdefault("_c12_sitefacts", {})
    if fi.qn not in cache or cache[fi.qn].fi is not fi:
        cache[fi.qn] = SiteFacts(fi, query_attrs=WINDOW_QUERIES, mutator_attrs=WINDOW_MUTATORS, state_fields=WINDOW_FIELDS, prog=prog)
    return cache[fi.qn]


def show_facts(facts):
    return "; ".join("%s is %s" % (stmt_text(e, 50), pol) for e, pol, _ in facts) or "(none)"


# --- symbolic execution of small loop-free methods ---------------------------


class SN(Normalizer):
    """Normalizer with attribute chains bound to polynomials."""

    def __init__(self, cpenv=None, **kw):
        super().__init__(**kw)
        self.cpenv = cpenv or {}

    def poly(self, e):
        if isinstance(e, ast.Attribute):
            c = chain(e)
            if c in self.cpenv:
                return self.cpenv[c]
        return super().poly(e)


class SymPath:
    def __init__(self):
        self.trace = []  # ('fact', expr, pol, N, nstores, nid) | ('call', call, snapshot, nid) | ('store', chain, value, node, nid)
        self.end = None  # ('return', expr|None, N, node) | ('raise', node) | ('fall',)
        self.cp = None
        self.bits = None
        self.N = None

    def normal(self):
        return self.end[0] in ("return", "fall")

    def facts(self):
        return [t for t in self.trace if t[0] == "fact"]

    def calls(self, pred=None):
        return [t for t in self.trace if t[0] == "call" and (pred is None or pred(t[1]))]

    def stores(self, ch=None):
        return [t for t in self.trace if t[0] == "store" and (ch is None or t[1] == ch)]


class _St:
    def __init__(self, penv, benv, cp, bits, nst, eenv=None):
        self.penv, self.benv, self.cp, self.bits, self.nst = penv, benv, cp, bits, nst
        # name -> (value expression, normalizer at the definition, number of field stores before the definition):
        # lets a local be looked through *at its definition point* (`mask = 1 << (n - self._index)`,
        # `valid = self.is_valid(n)`), whatever was stored to the fields in between
        self.eenv = eenv if eenv is not None else {}

    def copy(self):
        return _St(dict(self.penv), dict(self.benv), dict(self.cp), dict(self.bits), self.nst, dict(self.eenv))


def sym_paths(fi, tracked, bits=(), consts=None, rename=None, limit=400, split_choices=False):
    """Enumerate the non-exceptional paths of a loop-free function, executing
    assignments symbolically.  `tracked`: {chain: atom} fields whose values are
    polynomials; `bits`: {chain: atom} fields handled as shift/or op lists;
    `consts`: {chain: atom} fields read but (required) never written.
    `split_choices`: an assignment from `A if c else B`, `max(A, B)` or `min(A, B)`
    forks into one path per arm, with the arm's condition as a fact."""
    cfg = cfg_of(fi)
    for n in walk_no_nested(fi.node):
        # handler bodies are reached along exceptional edges only, which this walk does not follow: fail closed
        if isinstance(n, (ast.Try, ast.While, ast.For, ast.AsyncFor, ast.Match)) or (hasattr(ast, "TryStar") and isinstance(n, ast.TryStar)):
            raise AnalysisError("%s contains a %s statement; the rule interprets only straight-line/branching code here" % (fi.short, type(n).__name__.lower()))
    rename = dict(rename or {})
    bits = dict(bits or {})
    consts = dict(consts or {})
    for ch, a in list(tracked.items()) + list(bits.items()) + list(consts.items()):
        rename.setdefault(ch, a)
    out = []
    uniq = [0]

    def mkN(st):
        cp = dict(st.cp)
        for ch, ops in st.bits.items():
            cp[ch] = Poly.atom(bits[ch] if not ops else "%s'%d" % (bits[ch], len(ops)))
        N = SN(cpenv=cp, penv=dict(st.penv), rename=rename)
        N.eenv = dict(st.eenv)
        return N

    def opaque(tag):
        uniq[0] += 1
        return Poly.atom("<%s#%d>" % (tag, uniq[0]))

    def pval(N, e, tag):
        try:
            return N.poly(e)
        except NormError:
            return opaque(tag)

    def follow(st, N, e, ch=None):
        """Look through locals to their defining expression (evaluated in the state of the definition).  A value
        that reads the bit field `ch` is followed only while no field was stored since (the op list of the bit field
        is kept per state, not per definition)."""
        seen = 0
        env = st.eenv
        while isinstance(e, ast.Name) and e.id in env and seen < 6:
            v, Nv, nstv = env[e.id]
            if nstv != st.nst and any(chain(x) in bits for x in ast.walk(v) if isinstance(x, ast.Attribute)):
                break
            e, N = v, Nv
            env = getattr(Nv, "eenv", {})  # names inside the value mean what they meant at its definition
            seen += 1
        return e, N

    def bexpr(st, N, ch, e):
        e, N = follow(st, N, e, ch)
        if chain(e) == ch:
            return st.bits[ch]
        if isinstance(e, ast.Constant) and isinstance(e.value, int) and not isinstance(e.value, bool):
            return (("const", e.value),)
        if isinstance(e, ast.BinOp):
            if isinstance(e.op, (ast.RShift, ast.LShift)) and not (isinstance(e.op, ast.LShift) and match("1 << $k", e) is not None):
                by = pval(N, e.right, "shift")
                if by.is_const() and by.const_value() == 0:
                    return bexpr(st, N, ch, e.left)  # x >> 0 == x << 0 == x
                return bexpr(st, N, ch, e.left) + (("shr" if isinstance(e.op, ast.RShift) else "shl", by),)
            if isinstance(e.op, (ast.BitOr, ast.Add)):
                for a, b in ((e.left, e.right), (e.right, e.left)):
                    b, Nb = follow(st, N, b, ch)
                    m = match("1 << $k", b) or match("2 ** $k", b)
                    if m is not None:
                        return bexpr(st, N, ch, a) + (("setbit", pval(Nb, m["k"], "bit")),)
        return (("opaque", stmt_text(e)),)

    def assign(st, p, tgt, value, node, nid, aug=None, N=None):
        N = mkN(st) if N is None else N
        if isinstance(tgt, ast.Name):
            st.benv.pop(tgt.id, None)
            st.eenv.pop(tgt.id, None)
            if aug is None and value is not None:
                st.eenv[tgt.id] = (value, N, st.nst)
            if aug is not None:
                st.penv[tgt.id] = pval(N, ast.BinOp(left=ast.Name(id=tgt.id, ctx=ast.Load()), op=aug, right=value), tgt.id)
            elif isinstance(value, (ast.Compare, ast.BoolOp)) or (isinstance(value, ast.UnaryOp) and isinstance(value.op, ast.Not)):
                st.benv[tgt.id] = (value, N)
                st.penv[tgt.id] = opaque(tgt.id)
            else:
                st.penv[tgt.id] = pval(N, value, tgt.id) if value is not None else opaque(tgt.id)
            return
        if isinstance(tgt, (ast.Tuple, ast.List)):
            if isinstance(value, (ast.Tuple, ast.List)) and len(value.elts) == len(tgt.elts) and not any(isinstance(x, ast.Starred) for x in list(value.elts) + list(tgt.elts)):
                # a, b = x, y: the right-hand side is evaluated completely before the first store
                for el, val in zip(tgt.elts, value.elts):
                    assign(st, p, el, val, node, nid, N=N)
                return
            for el in tgt.elts:
                assign(st, p, el, None, node, nid)
            return
        ch = chain(tgt)
        if ch in consts:
            raise AnalysisError("%s writes %s, which the rule treats as constant" % (fi.short, ch))
        if ch in tracked:
            if value is None:
                v = opaque(ch)
            elif aug is not None:
                v = pval(N, ast.BinOp(left=tgt, op=aug, right=value), ch)
            else:
                v = pval(N, value, ch)
            st.cp[ch] = v
            st.nst += 1
            p.trace.append(("store", ch, v, node, nid))
        elif ch in bits:
            if value is None:
                ops = (("opaque", "?"),)
            elif aug is not None:
                ops = bexpr(st, N, ch, ast.BinOp(left=tgt, op=aug, right=value))
            else:
                ops = bexpr(st, N, ch, value)
            st.bits[ch] = ops
            st.nst += 1
            p.trace.append(("store", ch, ops, node, nid))

    def record_calls(st, p, root, nid):
        calls = [c for c in walk_no_nested(root) if isinstance(c, ast.Call)]
        calls.sort(key=lambda c: (getattr(c, "end_lineno", 0), getattr(c, "end_col_offset", 0)))
        for c in calls:
            p.trace.append(("call", c, (dict(st.cp), dict(st.bits)), nid))

    def finish(p, st, end):
        p.end = end
        p.cp, p.bits, p.N = dict(st.cp), dict(st.bits), mkN(st)
        out.append(p)
        if len(out) > limit:
            raise AnalysisError("%s: more than %d paths" % (fi.short, limit))

    def step(nid, st, p, onpath):
        if nid in onpath:
            raise AnalysisError("%s contains a loop; the rule only interprets loop-free code here" % fi.short)
        nd = cfg.nodes[nid]
        if nid == cfg.exit:
            return finish(p, st, ("fall",))
        k = nd.kind
        a = nd.ast
        if k == "return":
            if a.value is not None:
                record_calls(st, p, a.value, nid)
            return finish(p, st, ("return", a.value, mkN(st), a, dict(st.benv)))
        if k == "raise":
            return finish(p, st, ("raise", a))
        if k in ("T", "F"):
            p.trace.append(("fact", a, k == "T", mkN(st), st.nst, nid, dict(st.benv)))
        elif k == "test":
            record_calls(st, p, a, nid)
        elif k == "for":
            raise AnalysisError("%s contains a loop; the rule only interprets loop-free code here" % fi.short)
        elif k == "with":
            for it in a.items:
                record_calls(st, p, it.context_expr, nid)
                if it.optional_vars is not None:
                    assign(st, p, it.optional_vars, None, a, nid)
        elif k == "stmt":
            if isinstance(a, (ast.Assign, ast.AugAssign, ast.AnnAssign)) and a.value is not None:
                record_calls(st, p, a.value, nid)
                targets = a.targets if isinstance(a, ast.Assign) else [a.target]
                aug = a.op if isinstance(a, ast.AugAssign) else None
                alts = split_value(a.value) if split_choices else None
                if alts is not None:
                    # x = A if c else B / x = max(A, B) / x = min(A, B): one path per arm, with the arm's condition
                    for i, (cexpr, pol, vexpr) in enumerate(alts):
                        st2, p2 = (st, p) if i == len(alts) - 1 else (st.copy(), SymPath())
                        if p2 is not p:
                            p2.trace = list(p.trace)
                        p2.trace.append(("fact", cexpr, pol, mkN(st2), st2.nst, nid, dict(st2.benv)))
                        for t in targets:
                            assign(st2, p2, t, vexpr, a, nid, aug=aug)
                        cont(nid, st2, p2, onpath)
                    return
                for t in targets:
                    assign(st, p, t, a.value, a, nid, aug=aug)
            elif isinstance(a, ast.AnnAssign):
                pass  # bare annotation
            elif isinstance(a, ast.Assert):
                pass  # never a guard, never an effect
            elif isinstance(a, ast.Delete):
                for t in a.targets:
                    ch = chain(t)
                    if ch in tracked or ch in bits:
                        assign(st, p, t, None, a, nid)
            elif isinstance(a, (ast.FunctionDef, ast.AsyncFunctionDef, ast.ClassDef)):
                pass
            elif isinstance(a, ast.Match):
                raise AnalysisError("%s: match statement outside the rule's vocabulary" % fi.short)
            elif a is not None:
                record_calls(st, p, a, nid)
        cont(nid, st, p, onpath)

    def cont(nid, st, p, onpath):
        succ = [d for d, lab in cfg.succ[nid] if lab != "exc"]
        for i, d in enumerate(succ):
            if i == len(succ) - 1:
                step(d, st, p, onpath | {nid})
            else:
                p2 = SymPath()
                p2.trace = list(p.trace)
                step(d, st.copy(), p2, onpath | {nid})

    def split_value(v):
        """[(condition, polarity, value)] for a value that is a choice between two expressions, else None."""
        if isinstance(v, ast.IfExp):
            return [(v.test, True, v.body), (v.test, False, v.orelse)]
        if isinstance(v, ast.Call) and isinstance(v.func, ast.Name) and v.func.id in ("max", "min") and len(v.args) == 2 and not v.keywords and not any(isinstance(x, ast.Starred) for x in v.args):
            x, y = v.args
            c = ast.copy_location(ast.Compare(left=x, ops=[ast.GtE() if v.func.id == "max" else ast.LtE()], comparators=[y]), v)
            return [(c, True, x), (c, False, y)]
        return None

    cp0 = {ch: Poly.atom(a) for ch, a in tracked.items()}
    cp0.update({ch: Poly.atom(a) for ch, a in consts.items()})
    st0 = _St({}, {}, cp0, {ch: () for ch in bits}, 0)
    step(cfg.entry, st0, SymPath(), frozenset())
    return out


# --- boolean formulas over comparison atoms ----------------------------------


def _signnorm(p):
    if not p.t:
        return p
    first = sorted(p.t.items())[0][1]
    return -p if first < 0 else p


def canon(c):
    """Comparison normal form -> (atom key, polarity)."""
    k = c[0]
    if k in ("lt", "le"):
        p = c[1] if k == "lt" else c[1] - Poly.const(1)
        q = -p - Poly.const(1)
        if repr(q) < repr(p):
            return ("lt", q), False
        return ("lt", p), True
    if k in ("eq", "ne"):
        return ("eq",) + tuple(c[1:]), k == "eq"
    if k in ("is", "isnot"):
        return ("is",) + tuple(c[1:]), k == "is"
    if k in ("in", "notin"):
        return ("in",) + tuple(c[1:]), k == "in"
    if k in ("truth", "nottruth"):
        return ("truth", c[1]), k == "truth"
    raise NormError("canon %r" % (c,))


def _single_atom(p):
    """Name of the atom when the polynomial is exactly one atom, else None."""
    if len(p.t) == 1:
        (mono, coef), = p.t.items()
        if coef == 1 and len(mono) == 1 and mono[0][1] == 1:
            return mono[0][0]
    return None


def cmp_nf(N, e):
    if isinstance(e, ast.BinOp):  # arithmetic value in boolean position: != 0
        return ("ne", _signnorm(N.poly(e)))
    if isinstance(e, ast.Name):
        # a local in boolean position means what its defining expression meant where it was defined
        # (`seen = (B >> off) & 1 ... return not seen`)
        ent = getattr(N, "eenv", {}).get(e.id)
        if ent is not None and not (isinstance(ent[0], ast.Name) and ent[0].id == e.id):
            return cmp_nf(ent[1], ent[0])
    if isinstance(e, ast.Compare) and len(e.ops) == 1 and isinstance(e.ops[0], (ast.Is, ast.IsNot)):
        # identity tests on a local that merely names a tracked field (`index = self._index; index is None`)
        ops = []
        for x in (e.left, e.comparators[0]):
            nm = None
            if isinstance(x, (ast.Name, ast.Attribute)):
                try:
                    nm = _single_atom(N.poly(x))
                except NormError:
                    nm = None
            ops.append(nm if nm is not None else N.atom_name(x))
        return ("is" if isinstance(e.ops[0], ast.Is) else "isnot", ops[0], ops[1])
    return N.cmp(e)


def formula(e, N, benv=None, depth=0):
    benv = benv or {}
    if isinstance(e, ast.BoolOp):
        return ("and" if isinstance(e.op, ast.And) else "or", tuple(formula(v, N, benv, depth) for v in e.values))
    if isinstance(e, ast.UnaryOp) and isinstance(e.op, ast.Not):
        return ("not", formula(e.operand, N, benv, depth))
    if isinstance(e, ast.Constant) and isinstance(e.value, bool):
        return ("const", e.value)
    if isinstance(e, ast.Name) and e.id in benv and depth < 4:
        e2, N2 = benv[e.id]
        return formula(e2, N2, benv, depth + 1)
    if isinstance(e, ast.Compare) and len(e.ops) > 1:
        parts = []
        left = e.left
        for op, right in zip(e.ops, e.comparators):
            parts.append(ast.Compare(left=left, ops=[op], comparators=[right]))
            left = right
        return ("and", tuple(formula(x, N, benv, depth) for x in parts))
    key, pol = canon(cmp_nf(N, e))
    f = ("atom", key)
    return f if pol else ("not", f)


def f_eval(f, asg):
    k = f[0]
    if k == "const":
        return f[1]
    if k == "atom":
        return asg[f[1]]
    if k == "not":
        return not f_eval(f[1], asg)
    if k == "and":
        return all(f_eval(x, asg) for x in f[1])
    return any(f_eval(x, asg) for x in f[1])


def f_atoms(f):
    k = f[0]
    if k == "atom":
        return {f[1]}
    if k == "not":
        return f_atoms(f[1])
    if k in ("and", "or"):
        s = set()
        for x in f[1]:
            s |= f_atoms(x)
        return s
    return set()


def f_map(f, fn):
    k = f[0]
    if k == "atom":
        return fn(f)
    if k == "not":
        return ("not", f_map(f[1], fn))
    if k in ("and", "or"):
        return (k, tuple(f_map(x, fn) for x in f[1]))
    return f


def _min_over_positive(p, positive):
    """Minimum of polynomial p when every atom in `positive` is an integer >= 1
    and p is c0 + sum(ci * atom_i) with ci >= 0 over those atoms; else None."""
    m = Fraction(0)
    for mono, coef in p.t.items():
        if mono == ():
            m += coef
        elif len(mono) == 1 and mono[0][1] == 1 and mono[0][0] in positive and coef >= 0:
            m += coef
        else:
            return None
    return m


def consistent(asg, positive):
    """Reject assignments of the `lt` atoms that contradict the order of the
    integers: x < 0 and y < 0 cannot both hold when x + y >= -1 always."""
    held = []
    for key, val in asg.items():
        if key[0] == "lt":
            p = key[1]
            held.append(p if val else -p - Poly.const(1))
    for i, x in enumerate(held):
        m = _min_over_positive(x, positive)
        if m is not None and m >= 0:
            return False
        for y in held[i + 1:]:
            m = _min_over_positive(x + y, positive)
            if m is not None and m >= -1:
                return False
    return True


def equivalent(fa, fb, positive=(), max_atoms=10):
    """None when the two formulas agree on every order-consistent assignment of
    their atoms, else a distinguishing assignment."""
    atoms = sorted(f_atoms(fa) | f_atoms(fb), key=repr)
    if len(atoms) > max_atoms:
        raise AnalysisError("predicate over %d atoms is outside the truth-table bound" % len(atoms))
    for vals in product((False, True), repeat=len(atoms)):
        asg = dict(zip(atoms, vals))
        if not consistent(asg, set(positive)):
            continue
        if f_eval(fa, asg) != f_eval(fb, asg):
            return asg
    return None


def show_asg(asg):
    out = []
    for key, val in sorted(asg.items(), key=repr):
        if key[0] == "lt":
            out.append("%r %s 0" % (key[1], "<" if val else ">="))
        else:
            out.append("%s=%s" % (" ".join(str(x) for x in key), val))
    return "; ".join(out)


def decision_formula(paths):
    """Formula of `the function returns a true value` from its symbolic paths."""
    alts = []
    for p in paths:
        if p.end[0] != "return" or p.end[1] is None:
            continue
        conj = []
        for _, e, pol, N, _, _, benv in p.facts():
            f = formula(e, N, benv)
            conj.append(f if pol else ("not", f))
        conj.append(formula(p.end[1], p.end[2], p.end[4]))
        alts.append(("and", tuple(conj)))
    return ("or", tuple(alts))


def ref_poly(src):
    return Normalizer().poly(ast.parse(src, mode="eval").body)


def sound_methods(ctx, clsshort):
    """{name: FuncInfo} for the methods of class `clsshort`, on a private re-parse of its module on which ONLY helper
    expansion ran.

    Why: the engine's copy propagation (inline._CopyProp) decides "is a field read by the temporary stored between
    the definition and the use" by comparing *line numbers*; statements that came out of an expanded helper keep the
    helper's line numbers, so a store that textually sits above the caller (`def _advance(self, k): self._index += k;
    self._bitfield >>= k` defined before strike_out) is taken to lie before the temporary and
    `top = self._index + self._size - 1 ... self._advance(number - top)` becomes
    `self._index += number - (self._index + ...); self._bitfield >>= number - (self._index + ...)` with the second
    read seeing the *new* index -- a different program.  The symbolic execution below does its own, flow-sensitive
    substitution of locals (penv / eenv are snapshots per statement), so it needs no copy propagation and is run on
    the tree without it.  The private expansion sees only this module; that equals the whole-program expansion when
    the class has no sub- or superclass elsewhere, which is required here."""
    from .. import inline as _inline
    from ..model import Module, FuncInfo

    prog = ctx.prog
    ci = prog.cls(clsshort)
    cache = prog.__dict__.setdefault("_c12_sound", {})
    if ci.qn in cache:
        return cache[ci.qn]
    others = [q for q in prog.subclasses(ci.qn) if q != ci.qn]
    ctx.need(not others and not ci.node.bases, "%s takes part in an inheritance hierarchy (%s): private helper expansion would not see dynamic dispatch" % (clsshort, others or [stmt_text(b) for b in ci.node.bases]))
    m0 = ci.module
    m = Module(m0.name, m0.path, m0.src, m0.is_pkg)
    m.imports = dict(m0.imports)
    try:
        _inline.Inliner({m.name: m}).run()
    except RecursionError as e:  # pragma: no cover
        raise AnalysisError("private helper expansion of %s failed: %s" % (m0.name, e))
    node = None
    for n in ast.walk(m.tree):
        if isinstance(n, ast.ClassDef) and n.name == ci.node.name and getattr(n, "lineno", None) == getattr(ci.node, "lineno", None):
            node = n
    ctx.need(node is not None, "class %s not found in the private re-parse" % clsshort)
    out = {}
    for st in node.body:
        if isinstance(st, (ast.FunctionDef, ast.AsyncFunctionDef)) and st.name not in out:
            out[st.name] = FuncInfo(ci.qn + "." + st.name, st, m, ci, None)
    cache[ci.qn] = out
    return out


class _IfExpToIf(ast.NodeTransformer):
    """`x = A if c else B` -> `if c: x = A  else: x = B` (also augmented/annotated assignments and `return`), applied
    repeatedly for nested conditional expressions.  The condition is evaluated before either value and before the
    target in both spellings, so the rewrite preserves behaviour; it makes the condition a branch of the CFG."""

    def _split(self, st, get, mk):
        v = get(st)
        if not isinstance(v, ast.IfExp):
            return st
        a = self.visit(ast.copy_location(mk(st, v.body), st))
        b = self.visit(ast.copy_location(mk(st, v.orelse), st))
        new = ast.If(test=bool_form(v.test), body=a if isinstance(a, list) else [a], orelse=b if isinstance(b, list) else [b])
        return ast.fix_missing_locations(ast.copy_location(new, st))

    # A conditional expression in boolean position (the engine expands a predicate helper with several returns into
    # one) is the boolean formula (c and A) or (not c and B): the CFG then decomposes it like any other test.
    def visit_If(self, st):
        st.test, pre = hoist_leading_ifexps(st.test, self._fresh, boolean=True)
        st.test = bool_form(st.test)
        self.generic_visit(st)
        return self._bound(pre, st)

    # A conditional expression in value position that is the first thing the statement evaluates
    # (`(n if ok else None) is not None`, `w.strike_out(n if ok else None)`: what the engine's copy propagation makes of
    # `x = n if ok else None` and its uses) is bound to a fresh local first, which the rewrite above turns into an if
    # statement; the local is then followed like any other (`Values`).
    def _fresh(self):
        self._n = getattr(self, "_n", 0) + 1
        return "__c12_choice%d" % self._n

    def _bound(self, pre, st):
        if not pre:
            return st
        out = []
        for nm, v in pre:
            a = ast.copy_location(ast.Assign(targets=[ast.Name(id=nm, ctx=ast.Store())], value=v), st)
            r = self.visit_Assign(a)
            out.extend(r if isinstance(r, list) else [r])
        sts = st if isinstance(st, list) else [st]
        for x in out:
            ast.fix_missing_locations(x)
        return out + sts

    def visit_Expr(self, st):
        st.value, pre = hoist_leading_ifexps(st.value, self._fresh)
        return self._bound(pre, st)

    def visit_While(self, st):
        st.test = bool_form(st.test)
        self.generic_visit(st)
        return st

    def visit_Assign(self, st):
        return self._split(st, lambda s: s.value, lambda s, v: ast.Assign(targets=s.targets, value=v))

    def visit_AugAssign(self, st):
        return self._split(st, lambda s: s.value, lambda s, v: ast.AugAssign(target=s.target, op=s.op, value=v))

    def visit_AnnAssign(self, st):
        if st.value is None:
            return st
        return self._split(st, lambda s: s.value, lambda s, v: ast.AnnAssign(target=s.target, annotation=s.annotation, value=v, simple=s.simple))

    def visit_Return(self, st):
        if st.value is None:
            return st
        return self._split(st, lambda s: s.value, lambda s, v: ast.Return(value=v))

    def visit_FunctionDef(self, n):
        return n  # nested scopes are not touched

    visit_AsyncFunctionDef = visit_FunctionDef
    visit_Lambda = visit_FunctionDef
    visit_ClassDef = visit_FunctionDef


def desugared(prog, fi):
    """FuncInfo of a private copy of fi in which conditional-expression statements are if statements."""
    import copy
    from ..model import FuncInfo

    cache = prog.__dict__.setdefault("_c12_desugared", {})
    if fi.qn not in cache:
        node = copy.deepcopy(fi.node)
        _IfExpToIf().generic_visit(node)  # (generic_visit: the function itself is the root, nested defs are skipped)
        ast.fix_missing_locations(node)
        if ast.dump(node) == ast.dump(fi.node):
            cache[fi.qn] = fi  # nothing to rewrite: keep the indexed function (and its cached CFG)
        else:
            cache[fi.qn] = FuncInfo(fi.qn, node, fi.module, fi.cls, fi.parent)
    return cache[fi.qn]


def _local_values(fnode, e, depth=4):
    """The expressions a value may come from when locals are looked through: all plain assignments of a name
    (flow-insensitive: a superset of what reaches any use), both arms of a conditional expression.  [] when a name is
    bound by something the rule cannot read (loop target, unpacking, parameter)."""
    if isinstance(e, ast.IfExp):
        a, b = _local_values(fnode, e.body, depth), _local_values(fnode, e.orelse, depth)
        return a + b if a and b else []
    if isinstance(e, ast.NamedExpr):
        return _local_values(fnode, e.value, depth)
    if not isinstance(e, ast.Name):
        return [e]
    if not depth:
        return []
    ws = writes_to_name(fnode, e.id)
    if not ws:
        return []
    out = []
    for w in ws:
        if isinstance(w, ast.Assign) and all(isinstance(t, ast.Name) for t in w.targets):
            v = w.value
        elif isinstance(w, ast.AnnAssign) and isinstance(w.target, ast.Name):
            v = w.value
        elif isinstance(w, ast.NamedExpr):
            v = w.value
        else:
            return []
        got = _local_values(fnode, v, depth - 1)
        if not got:
            return []
        out.extend(got)
    return out


def call_unit(prog, root, view=None):
    """{short name: (FuncInfo, [(calling FuncInfo, call node)])}: `root` and, transitively, the methods of its own
    class (MRO) that it calls as `self.<m>(...)`.  Methods merely *referred to* (`ReplayWindow(n, self._changed)`) are
    not part of the unit: they run later, not as part of root.  `view` maps each function to the (private) copy the
    caller wants to read, e.g. `desugared`; call nodes and FuncInfos in the result belong to those copies."""
    view = view or (lambda f: f)
    root = view(root)
    unit = {root.short: (root, [])}
    if root.cls is None:
        return unit
    todo = [root]
    while todo:
        f = todo.pop()
        for c in calls_in(f.node):
            if isinstance(c.func, ast.Attribute) and chain(c.func.value) == "self":
                g = prog.lookup_method(root.cls.qn, c.func.attr)
                if g is None:
                    continue
                if g.short not in unit:
                    g = view(g)
                    unit[g.short] = (g, [])
                    todo.append(g)
                unit[g.short][1].append((f, c))
    return unit


# ---------------------------------------------------------------------------
# unprotect: shared extraction


class _Unp:
    pass


def _side(e, pol, msg):
    """'request' / 'response' when the atomic fact classifies the message
    parameter, else None."""
    b = match("$m.code.is_response()", e)
    if b is not None and chain(b["m"]) == msg:
        return "response" if pol else "request"
    b = match("$m.code.is_request()", e)
    if b is not None and chain(b["m"]) == msg:
        return "request" if pol else "response"
    return None


def _unprotect(ctx):
    u = _Unp()
    u.fi = fi = desugared(ctx.prog, ctx.prog.func(UNP))
    u.cfg = cfg = cfg_of(fi)
    p = params(fi)
    ctx.need(len(p) >= 1, "unprotect has no message parameter")
    u.msg = p[0]
    ctx.need(not writes_to_name(fi.node, u.msg), "unprotect rebinds its message parameter")
    u.dec_calls = mcalls(fi.node, "decrypt")
    ctx.floor("AEAD decrypt calls in unprotect", len(u.dec_calls), 1)
    u.dec = {cfg.loc1(c) for c in u.dec_calls}
    u.post_calls = [c for c in mcalls(fi.node, "_post_decrypt_checks") if chain(c.func.value) == "self"]
    ctx.floor("_post_decrypt_checks calls in unprotect", len(u.post_calls), 1)
    u.post = {cfg.loc1(c) for c in u.post_calls}
    u.strikes = mcalls(fi.node, "strike_out")
    u.inits = mcalls(fi.node, "initialize_from_freshlyseen")
    ctx.floor("strike_out sites in unprotect", len(u.strikes), 1)
    ctx.floor("initialize_from_freshlyseen sites in unprotect", len(u.inits), 1)
    u.mutators = [c for m in WINDOW_MUTATORS for c in mcalls(fi.node, m)]
    u.mut_nodes = {cfg.loc1(c) for c in u.mutators}
    # verdict definitions
    u.defs = []
    for n in walk_no_nested(fi.node):
        if isinstance(n, ast.Assign) and len(n.targets) == 1 and isinstance(n.targets[0], ast.Name) and isinstance(n.value, ast.Call):
            cn = chain(n.value.func)
            if cn and ctx.prog.is_subclass(ctx.prog.resolve_in_module(fi.module, cn), "aiocoap.oscore.ReplayError"):
                u.defs.append(n)
    ctx.floor("replay verdict definitions (v = ReplayError(...)) in unprotect", len(u.defs), 1)
    names = {d.targets[0].id for d in u.defs}
    ctx.need(len(names) == 1, "replay verdicts are kept in several variables: %s" % sorted(names))
    u.v = names.pop()
    u.def_nodes = {cfg.loc1(d) for d in u.defs}
    u.kills = []
    for w in writes_to_name(fi.node, u.v):
        if w in u.defs:
            continue
        if isinstance(w, ast.Assign) and all(isinstance(t, ast.Name) and t.id == u.v for t in w.targets) and isinstance(w.value, ast.Name) and w.value.id == u.v:
            continue  # `v = v` (the "verdict stays" arm of `v = None if fresh else v` / of an expanded helper): not a write
        ok = isinstance(w, ast.Assign) and len(w.targets) == 1 and isinstance(w.targets[0], ast.Name) and isinstance(w.value, ast.Constant) and w.value.value is None
        ctx.need(ok, "the verdict variable is written by something other than ReplayError(...) or None: %s" % stmt_text(w))
        u.kills.append(w)
    u.kill_nodes = {cfg.loc1(k) for k in u.kills}
    # branch outcomes on which the verdict variable is None
    u.none_outcomes = set()
    for n in cfg.nodes:
        if n.kind in ("T", "F") and n.ast is not None:
            e, pol = n.ast, n.kind == "T"
            if fact_matches(e, pol, "%s is None" % u.v, True) or fact_matches(e, pol, "%s == None" % u.v, True):
                u.none_outcomes.add(n.id)
            elif isinstance(e, ast.Name) and e.id == u.v and not pol:
                u.none_outcomes.add(n.id)
    # window tests
    def is_call(attr):
        return lambda e: isinstance(e, ast.Call) and isinstance(e.func, ast.Attribute) and e.func.attr == attr
    u.init_tests = test_nodes(cfg, fi.node, is_call("is_initialized"))
    u.valid_tests = test_nodes(cfg, fi.node, is_call("is_valid"))
    u.sf = window_site_facts(ctx.prog, fi)
    # request / response side outcomes
    u.resp_outcomes = set()
    for n in cfg.nodes:
        if n.kind in ("T", "F") and n.ast is not None:
            for e, pol, _ in expand_fact(fi.node, n.ast, n.kind == "T"):
                if _side(e, pol, u.msg) == "response":
                    u.resp_outcomes.add(n.id)
    return u


def _const_int(prog, fi, e):
    """Integer value of an expression over literals, single-assignment locals and module-level constants."""
    e = resolve_local(fi.node, e)
    env = {}
    for nm in {x.id for x in ast.walk(e) if isinstance(x, ast.Name)}:
        if writes_to_name(fi.node, nm) or nm in params(fi, skip_self=False):
            return None
        try:
            env[nm] = prog.module_const(_modshort(fi.module), nm)
        except AnchorError:
            return None
    try:
        n = norm.consteval(e, env) if env else norm.consteval(e)
    except (NormError, AnalysisError):
        return None
    return n if isinstance(n, int) and not isinstance(n, bool) else None


def _modshort(m):
    return m.name[len("aiocoap."):] if m.name.startswith("aiocoap.") else m.name


def _is_unauthorized(prog, fi, e):
    """Does the expression denote the response code 4.01 -- the name UNAUTHORIZED however it was imported
    (`UNAUTHORIZED`, `Code.UNAUTHORIZED`, `numbers.codes.UNAUTHORIZED`)?"""
    c = chain(resolve_local(fi.node, e))
    if c is None:
        return False
    if c.split(".")[-1] != "UNAUTHORIZED":
        return False
    head = c.split(".")[0]
    return head in fi.module.imports and not writes_to_name(fi.node, head)


def value_alts(fnode, value):
    """[(value, [facts])]: `A if c else B` is the two values A (under c) and B (under not c)."""
    alts = [(value, [])]
    for _ in range(4):
        if not any(isinstance(v, ast.IfExp) for v, _x in alts):
            break
        nxt = []
        for v, extra in alts:
            if isinstance(v, ast.IfExp):
                nxt.append((v.body, extra + expand_fact(fnode, v.test, True)))
                nxt.append((v.orelse, extra + expand_fact(fnode, v.test, False)))
            else:
                nxt.append((v, extra))
        alts = nxt
    return alts


def call_arg(call, pnames, index):
    """The argument a call binds to the index-th parameter (by position or by keyword), else None."""
    if any(isinstance(a, ast.Starred) for a in call.args) or any(k.arg is None for k in call.keywords):
        return None
    if index < len(call.args):
        return call.args[index]
    if index < len(pnames):
        for k in call.keywords:
            if k.arg == pnames[index]:
                return k.value
    return None


def big_endian_source(fnode, v):
    """X when v is `int.from_bytes(X, "big")` in any spelling of the arguments (positional, byteorder=, through a
    local; signed absent or False; byteorder absent is "big" where the interpreter accepts the call at all), else None."""
    if not (isinstance(v, ast.Call) and chain(v.func) == "int.from_bytes"):
        return None
    src = call_arg(v, ["bytes", "byteorder"], 0)
    order = call_arg(v, ["bytes", "byteorder"], 1)
    if src is None:
        return None
    for k in v.keywords:
        if k.arg == "signed":
            sg = resolve_local(fnode, k.value)
            if not (isinstance(sg, ast.Constant) and sg.value is False):
                return None
        elif k.arg not in ("bytes", "byteorder"):
            return None
    if len(v.args) > 2:
        return None
    if order is not None:
        order = resolve_local(fnode, order)
        if not (isinstance(order, ast.Constant) and order.value == "big"):
            return None
    return src


def _arg0(call, prog=None):
    """The single argument of a window method call (positional, or by the keyword of the method's parameter)."""
    if len(call.args) == 1 and not call.keywords:
        return call.args[0] if not isinstance(call.args[0], ast.Starred) else None
    if prog is not None and not call.args and len(call.keywords) == 1 and isinstance(call.func, ast.Attribute) and prog.has_func(RW + call.func.attr):
        return call_arg(call, params(prog.func(RW + call.func.attr)), 0)
    return None


def _verdict_none(facts, v):
    """The verdict variable holds None: `v is None`, `v == None`, or `v` falsy (the only other values it ever holds
    are exception instances, which are always true: _unprotect() requires every write to be ReplayError(...) or None)."""
    return has_fact(facts, "%s is None" % v, True) or has_fact(facts, "%s == None" % v, True) or any(isinstance(e, ast.Name) and e.id == v and not pol for e, pol, _ in facts)


def _verdict_none_value(sf, nid, v):
    """The verdict variable is bound to None on every modelled arrival at the node."""
    sts = sf.states_at(nid)
    return bool(sts) and all(st.env.get(v) == ("const", None) for _p, _i, st in sts)


def _number_roots(ctx, u, calls):
    """({origin key: (statement, value, name)}, [(call, name)]) -- the root definitions that reach, on some modelled
    path, the (local) argument of the given window calls; second: calls that a name reaches undefined."""
    sf, cfg = u.sf, u.cfg
    roots, entry = {}, []
    for c in calls:
        arg = _arg0(c, ctx.prog)
        if not isinstance(arg, ast.Name):
            continue
        for p, i, st in sf.states_at(cfg.loc1(c)):
            o = st.origin_of(arg.id)
            if o[0] == "def":
                roots[o] = sf.V.defsite[o]
            elif (c, arg.id) not in entry:
                entry.append((c, arg.id))
    return roots, entry


@R.clause("C12.a", "window mutations in unprotect only after a normal return of decrypt and of the post-decrypt checks; strike_out guards; window tests precede decrypt; the number is the partial IV")
def a(ctx):
    u = _unprotect(ctx)
    fi, cfg = u.fi, u.cfg
    for c in u.mutators:
        nid = cfg.loc1(c)
        what = c.func.attr
        ok = after_normal(cfg, u.dec, nid)
        ctx.ob("%s happens only after the AEAD decrypt call returned normally" % what, ok, fi, c,
               detail=None if ok else "path without successful decryption: %s" % witness(cfg, cfg.entry, nid, cut_normal=u.dec))
        ok = after_normal(cfg, u.post, nid)
        ctx.ob("%s happens only after _post_decrypt_checks returned normally" % what, ok, fi, c,
               detail=None if ok else "path: %s" % witness(cfg, cfg.entry, nid, cut_normal=u.post))
    # no direct stores to the window's state from unprotect
    direct = [n for f in ("_index", "_bitfield") for _, n in stores_to_any(fi.node, f)]
    ctx.ob("unprotect changes the window only through ReplayWindow methods", not direct, fi, direct[0] if direct else fi.node,
           construct=stmt_text(direct[0]) if direct else "unprotect")
    # the post-decrypt checks themselves need the plaintext of a successful decryption
    for c in u.post_calls:
        ctx.ob("_post_decrypt_checks runs only after decrypt returned normally", after_normal(cfg, u.dec, cfg.loc1(c)), fi, c)

    # strike_out guards: facts that hold on every modelled path to the call (not: `if` statements around it).  A path
    # on which a branch outcome contradicts the value a local has there is not a path of the model (`Values.feasible`):
    # behind `if to_strike is not None:` only the paths through `to_strike = <number>` remain, with everything that
    # guarded that assignment.
    sf = u.sf
    for c in u.strikes:
        nid = cfg.loc1(c)
        facts = sf.at(nid)
        arg = _arg0(c, ctx.prog)
        ctx.need(arg is not None, "strike_out call with unexpected arity")
        ctx.ob("strike_out is guarded by the message being a request", any(_side(e, pol, u.msg) == "request" for e, pol, _ in facts), fi, c,
               detail="facts at the call: %s" % show_facts(facts))
        # present: `<arg> is not None` holds at the call, or the local was bound to something that is not None (the
        # converted integer, a constructed object, a constant) on every path that arrives here
        present = has_fact(facts, "$x is not None", True, {"x": arg}) or (isinstance(arg, ast.Name) and sf.nonnull_at(nid, arg.id))
        ctx.ob("strike_out is guarded by the number being present (is not None)", present, fi, c,
               detail="facts at the call: %s" % show_facts(facts))
        ctx.ob("strike_out is guarded by no pending replay verdict (verdict is None)", _verdict_none(facts, u.v) or _verdict_none_value(sf, nid, u.v), fi, c,
               detail="facts at the call: %s" % show_facts(facts))
        ctx.ob("the struck-out number is a plain local", isinstance(arg, ast.Name), fi, c)
    for c in u.inits:
        arg = _arg0(c, ctx.prog)
        ctx.need(arg is not None, "initialize_from_freshlyseen call with unexpected arity")
        ctx.ob("the window is re-initialised from a plain local", isinstance(arg, ast.Name), fi, c)

    # the window tests lie on every request path to decrypt
    def on_response_side(nid):
        return any(_side(e, pol, u.msg) == "response" for e, pol, _ in sf.at(nid))

    pre_init = [t for t, _ in u.init_tests if cfg.reach({t}) & u.dec and not on_response_side(t)]
    pre_valid = [(t, e) for t, e in u.valid_tests if cfg.reach({t}) & u.dec and not on_response_side(t)]
    # (a window test on the response side decides nothing about acceptance)
    uninit_out = {o for t in pre_init for o in outcome(cfg, t, "F")}
    invalid_out = {o for t, _ in pre_valid for o in outcome(cfg, t, "F")}
    pm = sf.pm

    def window_fact(live, attr):
        """truth value of the last, still current `<w>.<attr>(...)` decision among the live facts of a path"""
        for (k, truth), (x, pol, _) in live.items():
            if isinstance(x, ast.Call) and isinstance(x.func, ast.Attribute) and x.func.attr == attr:
                return pol
        return None

    for d in u.dec_calls:
        dn = cfg.loc1(d)
        no_init = no_valid = None
        through = pm.paths_through(dn)
        ctx.need(bool(through), "the decrypt call lies on no modelled path of unprotect")
        for p in through:
            live = sf._path_facts(p, p.nodes.index(dn))
            if any(_side(x, pol, u.msg) == "response" for x, pol, _ in live.values()):
                continue
            ini = window_fact(live, "is_initialized")
            if ini is None:
                no_init = no_init or p
            elif ini and window_fact(live, "is_valid") is None:
                no_valid = no_valid or p
        ctx.ob("every request path to decrypt passes the is_initialized test of the window", no_init is None, fi, d,
               detail=None if no_init is None else "path: %s" % pm.describe(no_init))
        ctx.ob("every request path to decrypt with an initialised window passes the is_valid test", no_valid is None, fi, d,
               detail=None if no_valid is None else "path: %s" % pm.describe(no_valid))
    # a negative outcome defines a verdict before decrypting (or leaves the function)
    stops = u.dec | {cfg.exit}
    for o in sorted(uninit_out | invalid_out):
        bad = None
        for p in pm.paths_through(o):
            for n in p.nodes[p.nodes.index(o) + 1:]:
                if n in u.def_nodes:
                    break
                if n in stops:
                    bad = bad or p
                    break
        ctx.ob("a failed window test leads to a replay verdict before anything else happens", bad is None, fi, cfg.nodes[o].ast,
               detail=None if bad is None else "path: %s" % pm.describe(bad))
    # Same number in test, strike-out, re-initialisation and nonce.  "The same number" is decided by definitions, not
    # by names: on every modelled path the argument of each window call is traced to its root definition (copies
    # `a = b` are looked through where they are made), and two calls on one path must have the same root.
    valid_calls = mcalls(fi.node, "is_valid")  # wherever the result goes (a branch, a local, an argument)
    roots, entry = _number_roots(ctx, u, valid_calls + u.strikes + u.inits)
    for c, nm in entry:
        ctx.ob("the number handed to the replay window is defined in unprotect", False, fi, c, detail="%s reaches the call undefined or from outside" % nm)
    valid_at = {cfg.loc1(e): e for e in valid_calls}
    for c in u.strikes + u.inits:
        arg = _arg0(c, ctx.prog)
        if not isinstance(arg, ast.Name):
            continue
        bad = None
        nid = cfg.loc1(c)
        for p, i, st in sf.states_at(nid):
            o = st.origin_of(arg.id)
            for k in range(i):
                e = valid_at.get(p.nodes[k])
                if e is None:
                    continue
                a0 = _arg0(e, ctx.prog)
                if not isinstance(a0, ast.Name) or sf.state(p, k).origin_of(a0.id) != o:
                    bad = bad or p
        what = "is_valid tested the number that is struck out" if c in u.strikes else "the window is re-initialised from the number that was checked and authenticated"
        ctx.ob(what, bad is None, fi, c, detail=None if bad is None else "another definition of the number was tested on the path: %s" % pm.describe(bad))
    conv = []  # (assignment, value, name): every root definition of the number that is not the sentinel None
    for key, (w, v, nm) in sorted(roots.items(), key=lambda kv: (getattr(kv[1][0], "lineno", 0), getattr(kv[1][0], "col_offset", 0))):
        ctx.need(v is not None, "the number handed to the replay window is bound by something other than an assignment: %s" % stmt_text(w))
        if not (isinstance(v, ast.Constant) and v.value is None):
            conv.append((w, v, nm))
    if roots:
        ctx.need(conv, "the number handed to the replay window is never assigned a value")
    if conv:
        nonce_calls = [c for c in mcalls(fi.node, "_construct_nonce") if chain(c.func.value) == "self"]
        ctx.floor("_construct_nonce calls in unprotect", len(nonce_calls), 1)
        nf = ctx.prog.lookup_method(fi.cls.qn, "_construct_nonce") if fi.cls is not None else None
        ctx.need(nf is not None and params(nf), "_construct_nonce is not a method of the security context taking the partial IV")
        # Same value in the window and in the nonce: on every modelled path to a _construct_nonce call on which a
        # number was taken from a partial IV, the bytes converted and the bytes handed to the nonce come from the same
        # root definition (a redefinition of either in between breaks the identity).
        for w, v, nm in conv:
            piv = big_endian_source(fi.node, v)
            ctx.ob("the sequence number is the big-endian integer of the partial IV", piv is not None, fi, w)
            if piv is None:
                continue
            wn = cfg.loc1(w)
            ok = isinstance(piv, ast.Name)
            bad = None
            for c in nonce_calls if ok else ():
                a0 = call_arg(c, params(nf), 0)
                if not isinstance(a0, ast.Name):
                    ok = False
                    break
                cn = cfg.loc1(c)
                for p, i, st in sf.states_at(cn):
                    if wn not in p.nodes[:i]:
                        continue
                    j = max(k for k, n in enumerate(p.nodes[:i]) if n == wn)
                    if any(any(b[0] == nm for b in sf.V.binds(n)) for n in p.nodes[j + 1:i]):
                        continue  # the number was redefined later on this path: another definition is in force
                    if sf.state(p, j).origin_of(piv.id) != st.origin_of(a0.id):
                        bad = bad or p
            ctx.ob("the partial IV that is checked is the one that feeds the AEAD nonce", ok and bad is None, fi, w,
                   detail=None if bad is None else "path: %s" % pm.describe(bad))


@R.clause("C12.b", "a replay verdict cannot be lost: only the echo-authenticated kill clears it, and that kill records the number")
def b(ctx):
    u = _unprotect(ctx)
    fi, cfg, sf = u.fi, u.cfg, u.sf
    pm = sf.pm
    live_kills = [k for k in u.kills if any(cfg.loc1(k) in cfg.reach({cfg.loc1(d)}) for d in u.defs)]
    dec_results = set()
    for c in u.dec_calls:
        st = cfg.nodes[cfg.loc1(c)].ast
        if isinstance(st, ast.Assign):
            for t in st.targets:
                dec_results |= {n.id for n in ast.walk(t) if isinstance(n, ast.Name)}

    # locals that hold (parts of) the decrypted plaintext and nothing else: the decrypt result and whatever is
    # assigned from an expression over such names only (`body = plaintext[1:]`, `raw = bytes(plaintext)`)
    plain = set(dec_results)
    grew = True
    while grew:
        grew = False
        for n in walk_no_nested(fi.node):
            if isinstance(n, ast.Assign) and len(n.targets) == 1 and isinstance(n.targets[0], ast.Name) and n.targets[0].id not in plain:
                used = {x.id for x in ast.walk(n.value) if isinstance(x, ast.Name)} - {"bytes", "memoryview", "bytearray"}
                calls = [c for c in ast.walk(n.value) if isinstance(c, ast.Call) and not (isinstance(c.func, ast.Name) and c.func.id in ("bytes", "memoryview", "bytearray"))]
                if used and used <= plain and not calls and len(writes_to_name(fi.node, n.targets[0].id)) == 1:
                    plain.add(n.targets[0].id)
                    grew = True

    def echo_facts(facts):
        """[(message expr, other operand, comparison)] of the facts `<m>.opt.echo == self.<...>` that hold."""
        out = []
        for e, pol, via in facts:
            if isinstance(e, ast.Compare) and len(e.ops) == 1 and isinstance(e.ops[0], (ast.Eq, ast.NotEq)):
                if isinstance(e.ops[0], ast.Eq) != pol:
                    continue
                l, r = e.left, e.comparators[0]
                for x, y in ((l, r), (r, l)):
                    x, y = resolve_local(fi.node, x), resolve_local(fi.node, y)
                    bm = match("$m.opt.echo", x)
                    if bm is not None and chain(y) is not None and chain(y).startswith("self."):
                        out.append((bm["m"], y, e))
                        break
        return out

    def echo_fact(facts):
        got = echo_facts(facts)
        return got[0] if got else None

    def decoded_echo(m, cmp_e):
        """The message whose Echo option is compared is a local of unprotect that is only ever bound after a successful
        decryption and whose options were decoded from the decrypted plaintext before the comparison."""
        ok = isinstance(m, ast.Name) and m.id not in params(fi) and m.id != "self"
        if ok:
            ws = writes_to_name(fi.node, m.id)
            ok = bool(ws) and all(after_normal(cfg, u.dec, cfg.loc1(w)) for w in ws)
        if ok:
            tn = cfg.loc1(cmp_e)
            decs = [c for c in mcalls(fi.node, "decode") if chain(c.func.value) == "%s.opt" % m.id and c.args and names_in(c.args[0]) and names_in(c.args[0]) <= plain]
            ok = any(cfg.dominates(cfg.loc1(c), tn) for c in decs)
        return ok

    def uninit_fact(facts):
        # SiteFacts drops a window-state fact once a mutator ran after it was evaluated (also when it was evaluated
        # into a local and branched on later), so a fact found here describes the window as it is at the site
        return any(isinstance(e, ast.Call) and isinstance(e.func, ast.Attribute) and e.func.attr == "is_initialized" and not pol for e, pol, _ in facts)

    def check_echo(site, nid, what, arrivals=None):
        facts = sf.at(nid, arrivals=arrivals)
        ef = echo_fact(facts)
        ctx.ob("%s requires the Echo option to equal this process's recovery value" % what, ef is not None, fi, site,
               detail="facts at the site: %s" % show_facts(facts) if ef is None else None)
        if ef is None:
            return
        m, other, cmp_e = ef
        ok = decoded_echo(m, cmp_e)
        ctx.ob("the Echo option compared is the one decoded from the decrypted plaintext", ok, fi, cmp_e)
        ctx.ob("the Echo option is compared with self.echo_recovery", chain(other) == "self.echo_recovery", fi, cmp_e)

    def clearing_arrivals(kn):
        """The arrivals [(path, position)] of modelled paths at the statement `v = None` at which v may hold a verdict,
        or None when the statement lies on no modelled path.

        `v = None` executed while v is None changes nothing: it is not a kill.  Such statements appear whenever the
        bookkeeping is written as "compute the error that is still to be raised" (`v = self._remaining(v, ...)` with
        `return None` in the arms that had nothing pending: the response arm, the `v is None` strike-out arm) -- the
        obligations on a kill are owed only where a verdict can actually be cleared.  v is known to be None at an
        arrival when the path binds it to None last (`Values`: the initial `v = None`, no definition passed since) or
        when a test `v is None` / `not v` decided so and v was not rebound since (live path fact)."""
        sts = sf.states_at(kn)
        if not sts:
            return None
        real = []
        for p, i, st in sts:
            if st.env.get(u.v) == ("const", None):
                continue
            if _verdict_none(list(sf._path_facts(p, i).values()), u.v):
                continue
            real.append((p, i))
        return real

    def completes_normally(p, j):
        """The statement at position j of path p ran to completion (the path does not leave it along an exceptional
        edge)."""
        if j + 1 >= len(p.nodes):
            return False
        labs = {lab for d, lab in cfg.succ[p.nodes[j]] if d == p.nodes[j + 1]}
        return bool(labs) and "exc" not in labs

    init_nodes = {cfg.loc1(c) for c in u.inits}

    def recovery_event(p, after):
        """Does path p, behind position `after`, run an authenticated recovery: an initialize_from_freshlyseen that
        completes, entered while -- on this path -- the window was uninitialised and the Echo option decoded from the
        decrypted plaintext equalled self.echo_recovery (the conditions demanded of a kill, read off the path)?"""
        for j in range(after + 1, len(p.nodes)):
            if p.nodes[j] not in init_nodes or not completes_normally(p, j):
                continue
            if not after_normal(cfg, u.dec, p.nodes[j]) or not after_normal(cfg, u.post, p.nodes[j]):
                continue
            facts = list(sf._path_facts(p, j).values())
            if not uninit_fact(facts) or any(_side(e, pol, u.msg) == "response" for e, pol, _ in facts):
                continue
            if any(decoded_echo(m, cmp_e) and chain(other) == "self.echo_recovery" for m, other, cmp_e in echo_facts(facts)):
                return True
        return False

    # A verdict is lost when the request is accepted (normal return) although a verdict was defined on the way.  Ways
    # out that are not a loss: the path passes a `v = None` (checked as a kill below), a test that found v None (only
    # feasible behind a kill), or -- however the pending verdict is carried and dropped: under another name
    # (`remaining = None | v` ... `if remaining is not None: raise remaining`), in a flag -- the path itself runs the
    # authenticated recovery (`recovery_event`): those are exactly the conditions under which a kill is legitimate, so
    # accepting the request on such a path is what the kill would have done.
    avoid = u.kill_nodes | u.none_outcomes
    for d in u.defs:
        dn = cfg.loc1(d)
        # graph reachability over-approximates the modelled paths: when it finds nothing, no path exists; when it
        # finds something, only a path with consistent decisions counts (a verdict defined under X and raised under
        # `if X:` is not lost although the graph has an edge sequence around the raise)
        ok = cfg.exit not in reach_cut(cfg, {dn}, avoid=avoid)
        lost = None
        if not ok:
            for p in pm.paths_through(dn):
                if p.end != "return":
                    continue
                j = max(i for i, n in enumerate(p.nodes) if n == dn)
                if not any(n in avoid for n in p.nodes[j + 1:]) and not recovery_event(p, j):
                    lost = p
                    break
            ok = lost is None
        ctx.ob("no path from the replay verdict to the normal return except through the authenticated kill", ok, fi, d,
               detail=None if ok else "path: %s (%s)" % (witness(cfg, dn, cfg.exit, avoid=avoid), pm.describe(lost)))

    for k in live_kills:
        kn = cfg.loc1(k)
        ctx.ob("the verdict is cleared only after the AEAD decrypt call returned normally", after_normal(cfg, u.dec, kn), fi, k)
        ctx.ob("the verdict is cleared only after _post_decrypt_checks returned normally", after_normal(cfg, u.post, kn), fi, k)
        real = clearing_arrivals(kn)
        if real is not None and not real:
            ctx.note("a `%s` in unprotect is reached only while the verdict variable is None: it clears nothing" % stmt_text(k))
            ctx.ob("a verdict assignment that is reached only while no verdict is pending clears nothing", True, fi, k)
            continue
        check_echo(k, kn, "clearing the verdict", arrivals=real)
        # the recording initialize_from_freshlyseen(number) belongs to the kill (next obligation): the window must
        # have been uninitialised when *that* ran, i.e. its own effect does not count against the fact
        kf = sf.at(kn, transparent=init_nodes, arrivals=real)
        ctx.ob("the verdict is cleared only while the window is uninitialised (a reused number stays rejected)", uninit_fact(kf), fi, k,
               detail="facts at the site: %s" % show_facts(kf))
        # Recording: a request whose verdict was cleared is accepted when unprotect returns; on every such path an
        # initialize_from_freshlyseen(<number>) must have run to completion -- before or after the assignment that
        # clears the verdict, in this function or in an expanded helper whose result decides the clearing
        # (`if self._recover(...): v = None`: the paths on which the flag is false do not reach the kill, `Values`).
        # The graph condition (an initialisation dominates the kill, or lies on every way from the kill to the normal
        # exit) implies the path condition, because modelled paths are paths of the graph; it is used where the path
        # model says nothing (kill on no modelled path, path cut at the loop bound).
        graph_ok = any(cfg.dominates(i, kn) and after_normal(cfg, {i}, kn) for i in init_nodes) or (bool(init_nodes) and must_complete(cfg, kn, init_nodes))
        unrecorded = None
        if real is None:
            ok = graph_ok
        else:
            for p, i in real:
                if p.end == "raise":
                    continue  # the request is not accepted on this path
                if p.end == "return":
                    if any(n in init_nodes and j != i and completes_normally(p, j) for j, n in enumerate(p.nodes)):
                        continue
                elif graph_ok:
                    continue
                unrecorded = p
                break
            ok = unrecorded is None
        ctx.ob("clearing the verdict goes together with recording the number in the window", ok, fi, k,
               detail=None if unrecorded is None else "accepted without initialize_from_freshlyseen on the path: %s" % pm.describe(unrecorded))
    for c in u.inits:
        nid = cfg.loc1(c)
        facts = sf.at(nid)
        if any(_side(e, pol, u.msg) == "response" for e, pol, _ in facts):
            ctx.ob("window recovery from a response (bound to a request of this process by the AEAD)", True, fi, c)
        else:
            check_echo(c, nid, "window recovery from a request")
        ctx.ob("the window is re-initialised only while it is uninitialised", uninit_fact(facts), fi, c,
               detail="facts at the site: %s" % show_facts(facts))


# ---------------------------------------------------------------------------
# C12.c window arithmetic


def _window_fields(ctx):
    """(size field, callback field) from ReplayWindow.__init__."""
    ci = ctx.prog.cls("oscore.ReplayWindow")
    init = ctx.prog.func(RW + "__init__")
    p = params(init)
    ctx.need(len(p) == 2, "ReplayWindow.__init__ signature changed")
    f = {}
    for n, bnd in find("self.$f = $v", init.node):
        if isinstance(bnd["v"], ast.Name) and bnd["v"].id in p:
            f[bnd["v"].id] = bnd["f"]
    ctx.need(p[0] in f and p[1] in f, "ReplayWindow.__init__ does not store size and callback")
    for fld in ("_index", "_bitfield"):
        ctx.need(fld in ci.attrs, "ReplayWindow.%s class default missing" % fld)
    return ci, init, "self." + f[p[0]], f[p[1]]


def _wfunc(ctx, name):
    """A ReplayWindow method as the window clauses read it (helpers expanded, locals NOT pre-substituted)."""
    ctx.prog.func(RW + name)  # the anchor must exist on the indexed tree (AnchorError otherwise)
    ms = sound_methods(ctx, "oscore.ReplayWindow")
    ctx.need(name in ms, "ReplayWindow.%s missing from the private re-parse" % name)
    return ms[name]


def _wpaths(ctx, name, sizech):
    fi = _wfunc(ctx, name)
    p = params(fi)
    ctx.need(is_plain_sync(fi), "%s is not a plain function" % name)
    rename = {p[0]: "n"} if p else {}
    for x in p:
        ctx.need(not writes_to_name(fi.node, x), "%s rebinds its parameter" % name)
    paths = sym_paths(fi, {"self._index": "i"}, bits={"self._bitfield": "B"}, consts={sizech: "s"}, rename=rename, split_choices=True)
    return fi, p, paths


I_, S_, N_ = Poly.atom("i"), Poly.atom("s"), Poly.atom("n")


def _bit_atoms():
    clear0 = ("eq", _signnorm(ref_poly("(B >> (n - i)) & 1")))
    set1 = ("eq", _signnorm(ref_poly("((B >> (n - i)) & 1) - 1")))
    mask0 = ("eq", _signnorm(ref_poly("B & (1 << (n - i))")))
    return clear0, set1, mask0


def _ref_valid():
    A = canon(("lt", N_ - I_))
    Bq = canon(("lt", N_ - I_ - S_))
    def lit(c, want):
        f = ("atom", c[0])
        return f if c[1] == want else ("not", f)
    bitset = ("atom", ("bitset",))
    return ("and", (lit(A, False), ("or", (lit(Bq, False), ("not", bitset)))))


@R.clause("C12.c", "ReplayWindow arithmetic equals the reference window model")
def c(ctx):
    ci, init, sizech, cbfield = _window_fields(ctx)

    # ---- is_valid
    fi, p, paths = _wpaths(ctx, "is_valid", sizech)
    ctx.need(len(p) == 1, "is_valid signature changed")
    ctx.need(all(q.end[0] == "return" and q.end[1] is not None for q in paths if q.normal()) and any(q.normal() for q in paths), "is_valid does not return a value on every path")
    muts = [t for q in paths for t in q.stores()]
    ctx.ob("is_valid does not change the window", not muts, fi, muts[0][3] if muts else fi.node, construct=stmt_text(muts[0][3]) if muts else "is_valid")
    clear0, set1, mask0 = _bit_atoms()

    def bitmap(f):
        if f[1] in (clear0, mask0):
            return ("not", ("atom", ("bitset",)))
        if f[1] == set1:
            return ("atom", ("bitset",))
        return f
    code = f_map(decision_formula(paths), bitmap)
    diff = equivalent(code, _ref_valid(), positive={"s"})
    extra = sorted(repr(k) for k in f_atoms(code) - f_atoms(_ref_valid()))
    ctx.ob("is_valid(n) <=> n >= index and (n >= index+size or bit (n-index) clear)", diff is None, fi, fi.node, construct="ReplayWindow.is_valid",
           detail=None if diff is None else "differs from the reference when %s (n=number, i=index, s=size)%s" % (show_asg(diff), "; atoms not in the reference: %s" % extra if extra else ""))

    # ---- strike_out
    fi, p, paths = _wpaths(ctx, "strike_out", sizech)
    ctx.need(len(p) == 1, "strike_out signature changed")
    normal = [q for q in paths if q.normal()]
    ctx.floor("normal paths of strike_out", len(normal), 1)
    d = N_ - I_ - S_ + Poly.const(1)

    def is_cb(call):
        # `self.<callback>()`, or the same through a local that holds the bound callback
        return chain(resolve_local(fi.node, call.func)) == "self." + cbfield

    def valid_fact_index(q):
        for idx, t in enumerate(q.trace):
            if t[0] == "fact" and t[4] == 0:
                e, pol, N = t[1], t[2], t[3]
                for _ in range(6):  # look through `not` and through a local that holds the test's result
                    if isinstance(e, ast.UnaryOp) and isinstance(e.op, ast.Not):
                        e, pol = e.operand, not pol
                    elif isinstance(e, ast.Name) and e.id in getattr(N, "eenv", {}) and N.eenv[e.id][2] == 0:
                        e, N = N.eenv[e.id][0], N.eenv[e.id][1]
                    else:
                        break
                bnd = match("self.is_valid($x)", e) if pol else None
                if bnd is not None:
                    try:
                        if N.poly(bnd["x"]) == N_:
                            return idx
                    except NormError:
                        pass
        return None

    # every effect is preceded by a successful validity test on the unmodified window
    unguarded = {}
    for q in paths:
        vi = valid_fact_index(q)
        for idx, t in enumerate(q.trace):
            eff = t[0] == "store" or (t[0] == "call" and is_cb(t[1]))
            if eff:
                node = t[3] if t[0] == "store" else t[1]
                unguarded.setdefault(id(node), [node, True])
                if vi is None or idx < vi:
                    unguarded[id(node)][1] = False
    ctx.floor("window effects in strike_out", len(unguarded), 2)
    for node, ok in unguarded.values():
        ctx.ob("strike_out changes the window / notifies only for a number that is_valid accepted (raises otherwise)", ok, fi, node)
    raising = [q for q in paths if q.end[0] == "raise"]
    ctx.ob("strike_out raises when the number is not valid", any(True for q in raising), fi, fi.node, construct="ReplayWindow.strike_out")

    def implied(nf, target):
        """Do the path's comparison facts imply target < 0 (integers, size >= 1)?"""
        for key, val in nf:
            if key[0] != "lt":
                continue
            p = key[1] if val else -key[1] - Poly.const(1)
            m = _min_over_positive(p - target, {"s"})
            if m is not None and m >= 0:
                return True
        return False

    shift_form = (I_ + d, (("shr", d), ("setbit", S_ - Poly.const(1))))
    plain_form = (I_, (("setbit", N_ - I_),))
    for q in normal:
        nf = set()
        conds = []
        for t in q.facts():
            _, e, pol, N, _, _, benv = t
            try:
                key, kp = canon(cmp_nf(N, e))
            except NormError:
                continue
            if key[0] == "lt":
                conds.append(e)
            nf.add((key, kp == pol))
        got_i = q.cp["self._index"]
        got_b = q.bits["self._bitfield"]
        ist = q.stores("self._index")
        bst = q.stores("self._bitfield")
        # The reference is piecewise in d = number-(index+size-1): for d > 0 index += d, bitfield >>= d, bit size-1 set;
        # for d <= 0 bit number-index set.  The first form is also right for d == 0, so it needs d >= 0 on the path;
        # the second needs d <= 0.
        if (got_i, got_b) == shift_form:
            region, target, arm = "number >= index+size-1", -d - Poly.const(1), "shifting"
        elif (got_i, got_b) == plain_form:
            region, target, arm = "number <= index+size-1", d - Poly.const(1), "non-shifting"
        else:
            want_i, want_b = shift_form if any(op[0] in ("shr", "shl") for op in got_b) or ist else plain_form
            if got_i != want_i:
                pin = ist[-1][3] if ist else (bst[0][3] if bst else fi.node)
                ctx.ob("index after strike_out: index += number-(index+size-1) exactly when the bitfield is shifted", False, fi, pin,
                       detail="index = %r, reference %r; bitfield ops %r" % (got_i, want_i, got_b), construct=stmt_text(pin) if pin is not fi.node else "ReplayWindow.strike_out")
            if got_b != want_b:
                pin = bst[-1][3] if bst else fi.node
                for t in bst:
                    if t[2] != want_b[:len(t[2])]:
                        pin = t[3]
                        break
                ctx.ob("bitfield after strike_out: >>= number-(index+size-1) when that is positive, then bit 1 << (number-index) set", False, fi, pin,
                       detail="bitfield ops %r, reference %r" % (got_b, want_b), construct=stmt_text(pin) if pin is not fi.node else "ReplayWindow.strike_out")
            continue
        ctx.ob("index and bitfield after strike_out equal the reference (%s arm)" % arm, True, fi, (ist or bst)[-1][3])
        ok = implied(nf, target)
        if not ok:
            ctx.need(conds, "strike_out does not branch on the overshoot by a comparison the rule can read")
        ctx.ob("the %s arm of strike_out is taken only when %s" % (arm, region), ok, fi, conds[-1] if conds else fi.node,
               detail="path conditions: %s" % "; ".join("%s is %s" % (stmt_text(t[1], 50), t[2]) for t in q.facts()))
        # callback after the last mutation
        cbs = [idx for idx, t in enumerate(q.trace) if t[0] == "call" and is_cb(t[1])]
        sts = [idx for idx, t in enumerate(q.trace) if t[0] == "store"]
        ok = bool(cbs) and bool(sts) and min(cbs) > max(sts)
        pinc = q.trace[cbs[0]][1] if cbs else fi.node
        ctx.ob("the strike-out callback runs after the window was updated, on every normal path", ok, fi, pinc,
               construct=stmt_text(pinc) if cbs else "ReplayWindow.strike_out")

    # ---- initialisers
    for name, want_i, want_b in (("initialize_from_freshlyseen", N_, (("const", 1),)), ("initialize_empty", Poly.const(0), (("const", 0),))):
        fi, p, paths = _wpaths(ctx, name, sizech)
        normal = [q for q in paths if q.normal()]
        ctx.floor("normal paths of %s" % name, len(normal), 1)
        for q in normal:
            ist = q.stores("self._index")
            bst = q.stores("self._bitfield")
            ctx.ob("%s sets index to %s" % (name, "the seen number" if name.endswith("seen") else "0"), q.cp["self._index"] == want_i, fi, ist[-1][3] if ist else fi.node,
                   detail="index = %r" % q.cp["self._index"], construct=stmt_text(ist[-1][3]) if ist else name)
            ctx.ob("%s sets bitfield to %d" % (name, want_b[0][1]), q.bits["self._bitfield"] == want_b, fi, bst[-1][3] if bst else fi.node,
                   detail="bitfield ops %r" % (q.bits["self._bitfield"],), construct=stmt_text(bst[-1][3]) if bst else name)


# ---------------------------------------------------------------------------
# C12.d


@R.clause("C12.d", "echo_recovery is fresh per process, the challenge equals the compared value, an unknown persisted window stays uninitialised")
def d(ctx):
    prog = ctx.prog
    fsc = prog.cls(FSC)
    init = prog.func(FSC + ".__init__")
    cfg = cfg_of(init)
    sts = [n for k, n in stores_to(init.node, "self.echo_recovery", nested=False) if k == "assign"]
    ctx.floor("assignments of echo_recovery in FilesystemSecurityContext.__init__", len(sts), 1)
    for s in sts:
        v = s.value if isinstance(s, (ast.Assign, ast.AnnAssign)) else None
        v = resolve_local(init.node, v) if v is not None else None
        ok = False
        n = None
        if isinstance(v, ast.Call) and chain(v.func) is not None and len(v.args) == 1 and not v.keywords:
            # which function is called is decided by what the name is bound to in the module (import secrets /
            # from secrets import token_bytes / import secrets as s), not by how it is spelled
            head = chain(v.func).split(".")[0]
            target = prog.resolve_in_module(init.module, chain(v.func))
            ok = target in ("secrets.token_bytes", "os.urandom") and head in init.module.imports and not writes_to_name(init.node, head) and head not in params(init, skip_self=False)
            n = _const_int(prog, init, v.args[0])
            ok = ok and isinstance(n, int) and n >= 8
        ctx.ob("echo_recovery is at least 8 fresh random bytes drawn in this process (secrets.token_bytes / os.urandom)", ok, init, s,
               detail="value %s" % stmt_text(v) if v is not None else None)
    ctx.ob("echo_recovery is assigned on every normal path of __init__", cfg.must_pass(cfg.entry, [cfg.loc1(s) for s in sts], skip_labels=()), init, sts[0])
    # no other writer
    mro = set(prog.mro(fsc.qn))
    for short, hits in sorted(field_writers(prog, "echo_recovery").items()):
        wf = prog.func(short)
        for kind, n in hits:
            if wf is init and n in sts:
                continue
            tgt = n.targets[0] if isinstance(n, ast.Assign) else getattr(n, "target", None)
            recv = chain(tgt.value) if isinstance(tgt, ast.Attribute) else None
            foreign = recv != "self"
            inherited = (not foreign) and wf.cls is not None and wf.cls.qn in mro
            if foreign or inherited:
                ctx.ob("nothing but __init__ writes the echo_recovery of a file-backed context", False, wf, n)
    for q in prog.mro(fsc.qn):
        ci_ = prog.classes.get(q)
        if ci_ is not None and "echo_recovery" in ci_.attrs:
            v = ci_.attrs["echo_recovery"]
            ctx.ob("no class-level default can stand in for the per-process value", isinstance(v, ast.Constant) and v.value is None, None, None, construct="%s.echo_recovery = %s" % (q, stmt_text(v)))

    # the challenge sent is the value compared
    u = _unprotect(ctx)
    raises = []  # (raise statement, constructor call): `raise E(...)` and `e = E(...); raise e` are the same fact
    for n in walk_no_nested(u.fi.node):
        if isinstance(n, ast.Raise) and n.exc is not None:
            ex = resolve_local(u.fi.node, n.exc)
            if isinstance(ex, ast.Call):
                cn = chain(ex.func)
                if cn and prog.is_subclass(prog.resolve_in_module(u.fi.module, cn), "aiocoap.oscore.ReplayErrorWithEcho"):
                    raises.append((n, ex))
    ctx.floor("raise ReplayErrorWithEcho sites in unprotect", len(raises), 1)
    ew = prog.func("oscore.ReplayErrorWithEcho.__init__")
    ep = params(ew)
    ctx.need("echo" in ep and "secctx" in ep and "request_id" in ep, "ReplayErrorWithEcho.__init__ signature changed")

    def argof(call, name):
        for kw in call.keywords:
            if kw.arg == name:
                return kw.value
        i = ep.index(name)
        return call.args[i] if i < len(call.args) else None
    def argchain(call, name):
        v = argof(call, name)
        return chain(resolve_local(u.fi.node, v)) if v is not None else None

    for r, ex in raises:
        ctx.ob("the Echo challenge carries self.echo_recovery, the value later compared", argchain(ex, "echo") == "self.echo_recovery", u.fi, r)
        ctx.ob("the Echo challenge is protected with this security context", argchain(ex, "secctx") == "self", u.fi, r)
        ctx.ob("the Echo challenge is raised only after decrypt returned normally", after_normal(u.cfg, u.dec, u.cfg.loc1(r)), u.fi, r)
    fields = {}
    for n, bnd in find("self.$f = $v", ew.node):
        if isinstance(bnd["v"], ast.Name) and bnd["v"].id in ep:
            fields[bnd["v"].id] = bnd["f"]
    ctx.need({"echo", "secctx", "request_id"} <= set(fields), "ReplayErrorWithEcho.__init__ does not store its arguments")
    tm = prog.func("oscore.ReplayErrorWithEcho.to_message")
    msgs = [c for c in calls_in(tm.node) if chain(c.func) == "Message"]
    ctx.floor("Message(...) in ReplayErrorWithEcho.to_message", len(msgs), 1)
    def rl(e):
        return chain(resolve_local(tm.node, e)) if e is not None else None

    for m in msgs:
        # a constructor keyword and a later assignment to the new object's attribute / option are the same fact
        kw = {k.arg: [k.value] for k in m.keywords if k.arg}
        holder = None
        for n in walk_no_nested(tm.node):
            if isinstance(n, ast.Assign) and n.value is m and len(n.targets) == 1 and isinstance(n.targets[0], ast.Name) and len(writes_to_name(tm.node, n.targets[0].id)) == 1:
                holder = n.targets[0].id
        if holder is not None:
            for n in walk_no_nested(tm.node):
                if isinstance(n, ast.Assign) and len(n.targets) == 1 and isinstance(n.targets[0], ast.Attribute):
                    c = chain(n.targets[0])
                    if c in ("%s.opt.echo" % holder, "%s.code" % holder):
                        kw.setdefault(c.split(".")[-1], []).append(n.value)
        ctx.ob("the rendered 4.01 carries the stored value in its Echo option", bool(kw.get("echo")) and all(rl(v) == "self." + fields["echo"] for v in kw["echo"]), tm, m)
        ctx.ob("the Echo challenge is a 4.01 Unauthorized", bool(kw.get("code")) and all(_is_unauthorized(prog, tm, v) for v in kw["code"]), tm, m)
    prot = [c for c in mcalls(tm.node, "protect")]
    ctx.floor("protect call in to_message", len(prot), 1)
    pp = None
    for c in prot:
        kw = {k.arg: k.value for k in c.keywords}
        rid = kw.get("request_id")
        if rid is None:
            # positional: by the parameter list of the (unique) protect method of the security contexts
            pf = prog.funcs.get("aiocoap.oscore.CanProtect.protect")
            pp = params(pf) if pf is not None else None
            if pp and "request_id" in pp and pp.index("request_id") < len(c.args):
                rid = c.args[pp.index("request_id")]
        ctx.ob("the challenge is protected under the stored context and bound to the offending request", rl(c.func.value) == "self." + fields["secctx"] and rid is not None and rl(rid) == "self." + fields["request_id"], tm, c)

    # is_initialized <=> _index is not None; nothing initialises implicitly
    ci, winit, sizech, cbfield = _window_fields(ctx)
    ii = prog.func(RW + "is_initialized")
    paths = sym_paths(ii, {"self._index": "i"}, bits={"self._bitfield": "B"}, consts={sizech: "s"})
    ctx.need(all(q.end[0] == "return" and q.end[1] is not None for q in paths if q.normal()), "is_initialized does not return a value on every path")
    ref = ("not", ("atom", ("is", "i", "None")))
    diff = equivalent(decision_formula(paths), ref)
    ctx.ob("is_initialized() <=> _index is not None", diff is None, ii, ii.node, construct="ReplayWindow.is_initialized", detail=None if diff is None else "differs when %s" % show_asg(diff))
    dflt = ci.attrs["_index"]
    ctx.ob("a new ReplayWindow has _index None (uninitialised)", isinstance(dflt, ast.Constant) and dflt.value is None, None, None, construct="ReplayWindow._index = %s" % stmt_text(dflt))
    implicit = [n for f in ("_index", "_bitfield") for _, n in stores_to(winit.node, "self." + f)] + [c for m in WINDOW_MUTATORS for c in mcalls(winit.node, m)]
    ctx.ob("the ReplayWindow constructor does not initialise the window", not implicit, winit, implicit[0] if implicit else winit.node, construct=stmt_text(implicit[0]) if implicit else "ReplayWindow.__init__")

    # _load: "unknown" leaves the window uninitialised.  Decided over the *unit* of _load: the function together with
    # the methods of its own class it calls through self (a part of _load that was moved into a helper the engine
    # could not expand -- e.g. one with a `return` inside try/except -- is still part of loading).
    unit = call_unit(prog, prog.func(FSC + "._load"), view=lambda f_: desugared(prog, f_))

    def direct_inits(f):
        out = {}
        fcfg = cfg_of(f)
        for n in walk_no_nested(f.node):
            # called, or handed on as a bound method
            if isinstance(n, ast.Attribute) and n.attr in WINDOW_MUTATORS and isinstance(n.ctx, ast.Load):
                out[fcfg.loc1(n)] = n
        for fld in WINDOW_FIELDS:
            for _, n in stores_to_any(f.node, fld):
                out[fcfg.loc1(n)] = n
        return out

    inits = {short: direct_inits(f) for short, (f, _) in unit.items()}
    touching = {short for short, d_ in inits.items() if d_}
    changed = True
    while changed:
        changed = False
        for short, (f, _) in unit.items():
            for callee, (g, sites) in unit.items():
                if callee in touching and short not in touching and any(h is f for h, _c in sites):
                    touching.add(short)
                    changed = True

    def hits_from(f, srcs, seen):
        """window-initialising constructs that can run after the nodes `srcs` of f: in f itself, in a callee of the
        unit called from there, or -- once f has returned or raised -- in whoever called f."""
        fcfg = cfg_of(f)
        r = fcfg.reach(set(srcs))
        found = [n for nid, n in inits[f.short].items() if nid in r]
        for callee, (g, sites) in unit.items():
            if callee in touching:
                found.extend(c for h, c in sites if h is f and fcfg.loc1(c) in r)
        if (f.short, "up") not in seen:
            seen.add((f.short, "up"))
            for h, c in unit[f.short][1]:
                found.extend(hits_from(h, {cfg_of(h).loc1(c)}, seen))
        return found

    def is_unknown(f, e):
        e = resolve_local(f.node, e)
        if isinstance(e, ast.Name):
            try:
                e = prog.module_const(_modshort(f.module), e.id)
            except AnchorError:
                return False
        return isinstance(e, ast.Constant) and e.value == "unknown"

    def unknown_fact(f, e, pol):
        """Does the atomic branch outcome (e, pol) state that the persisted value IS the marker "unknown"?"""
        if not (isinstance(e, ast.Compare) and len(e.ops) == 1):
            return False
        op, l, r = e.ops[0], e.left, e.comparators[0]
        if isinstance(op, (ast.Eq, ast.NotEq)):
            return (is_unknown(f, l) or is_unknown(f, r)) and isinstance(op, ast.Eq) == pol
        if isinstance(op, (ast.In, ast.NotIn)):
            r = resolve_local(f.node, r)
            if isinstance(r, (ast.Tuple, ast.List, ast.Set)) and len(r.elts) == 1:
                return is_unknown(f, r.elts[0]) and isinstance(op, ast.In) == pol
        return False

    n_unknown = 0
    for short, (f, _) in sorted(unit.items()):
        fcfg = cfg_of(f)
        for n in fcfg.nodes:
            if n.kind not in ("T", "F") or not isinstance(n.ast, ast.expr):
                continue
            # the outcome of the branch, a named condition being read as the condition it names
            if not any(unknown_fact(f, x, xp) for x, xp, _d in expand_fact(f.node, n.ast, n.kind == "T")):
                continue
            n_unknown += 1
            found = hits_from(f, {n.id}, set())
            ctx.ob("a persisted window marked 'unknown' leaves the replay window uninitialised", not found, f, found[0] if found else n.ast)
    ctx.floor("branches of _load on the persisted window being 'unknown'", n_unknown, 1)
    wins = [(f, n) for short, (f, _) in sorted(unit.items()) for k, n in stores_to(f.node, "self.recipient_replay_window") if k == "assign"]
    ctx.floor("assignments of recipient_replay_window in _load", len(wins), 1)
    for f, w in wins:
        # the object stored, however many locals it went through; every reaching definition when there are several
        vals = _local_values(f.node, w.value)
        ok = bool(vals)
        for v in vals:
            cn = chain(v.func) if isinstance(v, ast.Call) else None
            ok = ok and cn is not None and prog.resolve_in_module(f.module, cn) == "aiocoap.oscore.ReplayWindow"
        ctx.ob("the file-backed context's window is a ReplayWindow", ok, f, w)


# ---------------------------------------------------------------------------
@R.clause("C12.e", "after an unclean stop the persisted window is not trusted: the first strike-out after a load marks the file 'unknown' before anything else is accepted (shared with C13.e / C13.g)")
def e_shared(ctx):
    # Two independent groups of obligations: one that cannot interpret the tree (analysis error) must not keep the other
    # from deciding -- e.g. a _store outside the vocabulary of C13.e says nothing about what _load takes for a fresh
    # context.  The refusal is still reported (re-raised) after the other group ran.
    from . import c13
    refused = []
    for part in (c13.e, c13.g_load_window):
        try:
            part(ctx)
        except AnalysisError as e:
            refused.append(str(e))
    if refused:
        raise AnalysisError("; ".join(refused))


@R.clause("C12.f", "the number checked, struck out or used to re-initialise the window is the message's OWN partial IV: without one (a response re-using the request's) the sentinel None is used")
def f_own_piv(ctx):
    """Added after an independently written breaking change replaced the sentinel `seqno = None` of the no-PIV
    (response) arm by the number of the *request's* partial IV, which then reached initialize_from_freshlyseen: the
    peer's window was initialised from this node's own sender sequence number and old requests became replayable.
    Necessary condition: every definition of the variable handed to is_valid / strike_out /
    initialize_from_freshlyseen is either None or lies on the side of the `COSE_PIV in unprotected` test on which the
    option carried a partial IV."""
    fi = desugared(ctx.prog, ctx.prog.func(UNP))
    cfg = cfg_of(fi)
    sf = window_site_facts(ctx.prog, fi)
    # The definitions in question are found by def-use, not by name: the root definitions (copies looked through) that
    # reach the argument of a window call on some modelled path.  An argument that is not a local is its own definition.
    sites = [c for c in calls_in(fi.node) if isinstance(c.func, ast.Attribute) and c.func.attr in ("is_valid", "strike_out", "initialize_from_freshlyseen")]
    defs = {}  # key -> (pin statement, value expr | None, CFG node)
    for c in sites:
        a0 = _arg0(c, ctx.prog)
        if a0 is None:
            continue
        nid = cfg.loc1(c)
        if not isinstance(a0, ast.Name):
            defs[("arg", id(a0))] = (c, a0, nid)
            continue
        for p, i, st in sf.states_at(nid):
            o = st.origin_of(a0.id)
            if o[0] == "def":
                w, v, _nm = sf.V.defsite[o]
                defs[o] = (w, v, cfg.loc1(w))
            else:
                defs[("entry", a0.id)] = (c, None, nid)
    # the map of unprotected header fields: third element of what _extract_encrypted0 returns
    U = None
    for n in walk_no_nested(fi.node):
        if isinstance(n, ast.Assign) and isinstance(n.targets[0], ast.Tuple) and len(n.targets[0].elts) == 4 and isinstance(n.value, ast.Call) and (call_name(n.value) or "").endswith("._extract_encrypted0") and isinstance(n.targets[0].elts[2], ast.Name):
            U = n.targets[0].elts[2].id
    ctx.need(U is not None, "unprotect does not unpack _extract_encrypted0() into four locals")
    ctx.need(len(writes_to_name(fi.node, U)) == 1, "the map of unprotected header fields is rebound in unprotect")

    def piv_read(e):
        """'strict' for a read of U[COSE_PIV] that fails when the key is absent (`U[K]`, `U.pop(K)`), 'lenient' for
        one that yields None instead (`U.get(K)`, `U.get(K, None)`, `U.pop(K, None)`), else None."""
        if match("%s[COSE_PIV]" % U, e) is not None or match("%s.pop(COSE_PIV)" % U, e) is not None:
            return "strict"
        for pat in ("%s.get(COSE_PIV)" % U, "%s.get(COSE_PIV, None)" % U, "%s.pop(COSE_PIV, None)" % U):
            if match(pat, e) is not None:
                return "lenient"
        return None

    def reaching(name, nid):
        """value expressions of the root definitions (copies looked through) of local `name` that reach node nid on
        some modelled path (None in the list: some path brings no definition, or one the rule cannot read)"""
        out = {}
        for p, i, st in sf.states_at(nid):
            o = st.origin_of(name)
            v = sf.V.defsite[o][1] if o[0] == "def" else None
            if v is None:
                out[None] = None
            else:
                out[o] = v
        return list(out.values())

    ctx.floor("definitions of the window number in unprotect", len(defs), 1)
    n_taken = 0
    for key, (w, value, nid) in sorted(defs.items(), key=lambda kv: (getattr(kv[1][0], "lineno", 0), getattr(kv[1][0], "col_offset", 0), str(kv[0][0]))):
        if value is None:
            ctx.ob("the number handed to the replay window is defined by an assignment in unprotect", False, fi, w)
            continue
        # `x = A if c else B` is two definitions, each under its arm's condition
        for v, extra in value_alts(fi.node, value):
            if isinstance(v, ast.Constant) and v.value is None:
                ctx.ob("without an own partial IV nothing is struck out or initialised (sentinel None)", True, fi, w)
                continue
            n_taken += 1
            P = call_arg(v, ["bytes"], 0) if isinstance(v, ast.Call) and chain(v.func) == "int.from_bytes" else None
            srcs = []
            if P is not None:
                srcs = reaching(P.id, nid) if isinstance(P, ast.Name) else [P]
            kinds = [piv_read(x) if x is not None else None for x in srcs]
            src_ok = bool(kinds) and all(k is not None for k in kinds)
            # Evidence that the message carried its own partial IV where the number is taken:
            #  - the arm is only entered when `COSE_PIV in U` held (the later pop does not undo that), or
            #  - every reaching read is one that raises KeyError without the key (nothing is taken then), or
            #  - the read yields None without the key and `<piv> is not None` holds at the definition.
            passed = sf.passed(nid) + extra
            own = has_fact(passed, "COSE_PIV in %s" % U, True)
            if not own and src_ok:
                own = all(k == "strict" for k in kinds)
                if not own and isinstance(P, ast.Name):
                    own = has_fact(sf.at(nid) + extra, "%s is not None" % P.id, True) or sf.notnone_at(nid, P.id)
            ctx.ob("a window number is taken only from a message that carries its own partial IV", own, fi, w, detail="branch outcomes passed: %s" % show_facts(passed))
            ctx.ob("that number is the integer value of the partial IV found in the OSCORE option", src_ok, fi, w,
                   detail="partial IV definitions reaching the conversion: %s" % [stmt_text(x) if x is not None else "<none/unreadable>" for x in srcs])
    ctx.floor("definitions that take a window number from a partial IV", n_taken, 1)


# ---------------------------------------------------------------------------
@R.clause("C12.g", "a persisted window comes back as it was written: an uninitialised (null) window stays uninitialised, every struck-out bit stays set (shared with C13.j)")
def g_restored_verbatim(ctx):
    """Necessary for C12 in its own right: the record a clean stop writes for a context that is still waiting for its
    Echo exchange is the null window; if reloading it yields an *initialised* window, requests are accepted again
    without any value freshly issued by this process having been echoed ("while the window is uninitialised no request is
    accepted until ..."), and if a restored bitfield loses bits a number is accepted twice.  The condition decided by
    C13.j -- ReplayWindow.initialize_from_persisted stores exactly the entries persist() wrote -- is that condition."""
    from . import c13
    c13.j_verbatim(ctx)


# ---------------------------------------------------------------------------
# C12.h: the state file between a crash in _store and the next _load
#
# Two sites maintain one invariant.  _load decides from the state file whether the context was ever used: only for a
# never-used context may the window start initialised and empty (initialize_empty) -- a used one has accepted requests,
# and each of them would be accepted once more.  _store is what leaves the file behind, at every point at which the
# process can die.  Invariant: NO STATE OF THE FILE THAT _store CAN LEAVE BEHIND IS ONE THAT _load TAKES FOR "NEVER
# USED".  Either site may change as long as the two sets stay disjoint, so both are computed:
#
#   what _load takes for "never used"  (per feasible path from the open() of the state file to initialize_empty):
#     unopened   the open() itself failed (no such file);
#     undecoded  the file was opened, but the statement that decodes it did not complete (an empty / truncated /
#                unparsable file, however that is noticed: a size test, the decoder's exception, ...);
#     decoded    the file was decoded completely (or never looked at).
#   what _store can leave behind:
#     decoded    always (that is its purpose);
#     undecoded  when the file is written in place (opened for writing, truncated, copied onto), or when it is renamed
#                into place before its content is durable (the obligations of C13.c: written, flushed, fsynced and
#                closed before the rename, temp file on the same file system);
#     unopened   when _store removes the file or moves it away.
#
# The state file is found from the reader (the file whose decoded content reaches initialize_from_persisted), effects
# on it in _store by resolving every path argument (locals, properties, join / + / f-string spellings), never by names.

_PATH_QUERIES = {
    "os.path.exists", "os.path.lexists", "os.path.isfile", "os.path.getsize", "os.path.getmtime", "os.stat", "os.lstat", "os.access",
    "os.fspath", "os.path.abspath", "os.path.realpath", "os.path.basename", "os.path.dirname", "os.path.normpath", "str", "repr",
    "os.path.islink", "os.path.samefile", "os.chmod", "os.chown", "os.utime",
}
_PATH_REMOVERS = {"os.remove", "os.unlink"}
_PATH_OVERWRITERS = {"os.truncate": 0, "shutil.copy": 1, "shutil.copyfile": 1, "shutil.copy2": 1, "shutil.move": 1, "os.link": 1, "os.symlink": 1}
_OPENERS = {"open", "io.open", "codecs.open"}


def _open_mode(prog, fi, c13kit, call, index=1):
    """'read' / 'write' for an open()-like call (mode at position `index` or by keyword), None when the mode cannot be
    resolved"""
    mode = call_arg(call, ["file", "mode"][1 - index:], index)
    if mode is None:
        return "read"
    s = c13kit.const_str(prog, fi, mode)
    if s is None:
        return None
    return "write" if any(ch in s for ch in "wax+") else "read"


def _state_file_effects(ctx, c13kit, unit, is_path):
    """[(kind, call, text)] for every call in the unit of _store (the function and, transitively, the methods of its
    class it calls through self) that is handed the state file's path: kind in 'onto' (renamed onto it: atomic),
    'inplace' (its content is changed in place), 'gone' (removed / moved away), 'query' (no effect).  The path is
    recognised by resolution (`is_path(fi, expr)`), or as a parameter that some call site in the unit binds to it.  A
    call the rule cannot classify stops the clause (analysis error)."""
    prog = ctx.prog
    bound = {short: set() for short in unit}  # parameters that hold the state file's path

    def is_target(g, a):
        if isinstance(a, ast.Name) and a.id in bound[g.short] and not writes_to_name(g.node, a.id):
            return True
        return is_path(g, a)

    for _ in range(3):  # parameter bindings, to a fixed point over (short) call chains
        for callee, (g, sites) in unit.items():
            pn = params(g)
            for h, c in sites:
                for i, nm in enumerate(pn):
                    a = call_arg(c, pn, i)
                    if a is not None and is_target(h, a):
                        bound[callee].add(nm)
    own_calls = {id(c) for _g, sites in unit.values() for _h, c in sites}
    out = []
    for short, (g, _sites) in sorted(unit.items()):
        for c in calls_in(g.node):
            args = [(i, a) for i, a in enumerate(c.args) if not isinstance(a, ast.Starred)] + [(k.arg, k.value) for k in c.keywords if k.arg]
            hit = [i for i, a in args if is_target(g, a)]
            recv = None
            if isinstance(c.func, ast.Attribute) and isinstance(c.func.value, ast.Call) and (c13kit.qual(g, c.func.value.func) or "").split(".")[-1] in ("Path", "PurePath") \
                    and len(c.func.value.args) == 1 and is_target(g, c.func.value.args[0]):
                recv = c.func.attr  # pathlib.Path(<state file>).<method>(...)
            if not hit and recv is None:
                continue
            if id(c) in own_calls:
                continue  # a method of the unit: its body is looked at with the parameter bound
            q = c13kit.qual(g, c.func) or ""
            where = g.short.rsplit(".", 1)[-1]
            if recv is not None:
                if recv in ("write_text", "write_bytes", "touch"):
                    out.append(("inplace", c, "%s() on the state file" % recv))
                elif recv in ("unlink", "rename", "replace"):
                    out.append(("gone", c, "%s() of the state file" % recv))
                elif recv == "open":
                    m = _open_mode(prog, g, c13kit, c, index=0)
                    ctx.need(m is not None, "%s opens the state file with a mode the rule cannot resolve: %s" % (where, stmt_text(c, 60)))
                    out.append(("inplace" if m == "write" else "query", c, "the state file itself is opened for writing"))
                elif recv in ("exists", "is_file", "stat", "read_text", "read_bytes"):
                    out.append(("query", c, ""))
                else:
                    ctx.need(False, "%s calls %s on the state file's path; the rule does not know what that does to the file" % (where, recv))
                continue
            if q in ("os.replace", "os.rename"):
                src, dst = call_arg(c, ["src", "dst"], 0), call_arg(c, ["src", "dst"], 1)
                ctx.need(src is not None and dst is not None, "%s renames the state file with arguments the rule cannot read: %s" % (where, stmt_text(c, 60)))
                if is_target(g, dst):
                    out.append(("onto", c, "renamed onto"))
                if is_target(g, src):
                    out.append(("gone", c, "the state file is renamed away"))
            elif q in _OPENERS and 0 in hit:
                m = _open_mode(prog, g, c13kit, c)
                ctx.need(m is not None, "%s opens the state file with a mode the rule cannot resolve: %s" % (where, stmt_text(c, 60)))
                out.append(("inplace" if m == "write" else "query", c, "the state file itself is opened for writing"))
            elif q == "os.open" and 0 in hit:
                flags = {n.attr if isinstance(n, ast.Attribute) else n.id for a in c.args[1:2] for n in ast.walk(a) if isinstance(n, (ast.Attribute, ast.Name))}
                if flags and flags <= {"os", "O_RDONLY", "O_CLOEXEC", "O_BINARY", "O_NOFOLLOW"}:
                    out.append(("query", c, ""))
                else:
                    ctx.need(any(f in flags for f in ("O_WRONLY", "O_RDWR", "O_TRUNC", "O_APPEND", "O_CREAT")),
                             "%s os.open()s the state file with flags the rule cannot resolve: %s" % (where, stmt_text(c, 60)))
                    out.append(("inplace", c, "the state file itself is opened for writing"))
            elif q in _PATH_REMOVERS:
                out.append(("gone", c, "the state file is removed"))
            elif q in _PATH_OVERWRITERS:
                if _PATH_OVERWRITERS[q] in hit:
                    out.append(("inplace", c, "the state file is overwritten by %s" % q))
                else:
                    ctx.need(q != "shutil.move", "%s moves the state file away" % where)
                    out.append(("query", c, ""))
            elif q in _PATH_QUERIES or q == "os.path.join" or is_log_call(c):
                out.append(("query", c, ""))
            else:
                ctx.need(False, "%s hands the state file's path to %s; the rule does not know what that does to the file" % (where, q or stmt_text(c.func, 40)))
    return out


_OPEN_ERRORS = ("FileNotFoundError", "OSError", "IOError", "EnvironmentError", "PermissionError", "IsADirectoryError", "NotADirectoryError")


@R.clause("C12.h", "no state of the persisted file that a crash inside _store can leave behind is taken by _load for a never-used context (empty, initialised window)")
def h_crash_states(ctx):
    from . import c13, _kit_c13 as kit
    from ..report import Ctx as _Ctx

    prog = ctx.prog
    lf = c13._fn(ctx, FSC + "._load")
    # the state file: the one _load decodes into a local; when there are several, the one whose content reaches
    # initialize_from_persisted
    names = []
    for c in calls_in(lf.node):
        if kit.qual(lf, c.func) in _OPENERS and c.args:
            jp = kit.path_parts(prog, lf, c.args[0])
            if jp is not None and jp[1] not in names:
                names.append(jp[1])
    cands = [lm for lm in (c13._load_model(ctx, nm) for nm in names) if lm.var is not None]
    if len(cands) > 1:
        restores = mcalls(lf.node, "initialize_from_persisted")
        linked = []
        for lm in cands:
            for r in restores:
                a0 = kit.deep_resolve(lf.node, r.args[0], keep={lm.var}) if r.args else None
                if a0 is not None and any(isinstance(x, ast.Name) and x.id == lm.var for x in ast.walk(a0)) and lm not in linked:
                    linked.append(lm)
        cands = linked
    ctx.need(len(cands) == 1, "the file _load restores the replay window from is not a single `<local> = json.load(open(<dir>/<constant name>))` (%d candidates)" % len(cands))
    lm = cands[0]
    tname = kit.path_parts(prog, lf, lm.open_call.args[0])[1]
    cfg = lm.cfg
    rp = c13._load_paths(ctx, lm)

    # ---- reader: what is taken for "never used"
    empties = [c for c in calls_in(lf.node) if isinstance(c.func, ast.Attribute) and c.func.attr == "initialize_empty"]
    called = {id(c.func) for c in empties}
    refs = [n for n in walk_no_nested(lf.node) if isinstance(n, ast.Attribute) and n.attr == "initialize_empty" and id(n) not in called]
    ctx.need(not refs, "_load takes initialize_empty as a value instead of calling it")
    ctx.floor("initialize_empty sites in _load", len(empties), 1)
    before_open = cfg.reach({cfg.entry}, avoid={lm.open_nid}, include_src=True)
    # when one statement both opens and decodes (`x = json.load(open(p))`), its exceptional edge into a handler that
    # catches more than the errors of open() may as well be the decoder's
    decodes_too = lm.open_nid in set(cfg.locate(lm.load_stmt))

    def open_failure(p, i):
        """None, or the classes a failure of the opening statement before position i of path p stands for"""
        for j in range(min(i, len(p.labels))):
            if p.nodes[j] == lm.open_nid and p.labels[j] == "exc":
                k = {"unopened"}
                h = cfg.nodes[p.nodes[j + 1]]
                hc = c13._handler_classes(h.ast) if h.kind == "handler" else None
                if decodes_too and not (hc and all(x in _OPEN_ERRORS for x in hc)):
                    k.add("undecoded")
                return k
        return None

    classes = {}  # id(call) -> {class: example path | None}
    for c in empties:
        nids = [x for x in cfg.locate(c) if cfg.is_reachable(x)]
        k = classes.setdefault(id(c), {})
        if any(x in before_open for x in nids):
            k.setdefault("decoded", None)  # reached without looking at the file at all
        for p in rp.through(nids):
            for i in p.positions(nids):
                if c13._loaded_before(lm, p, i):
                    k.setdefault("decoded", p)
                    continue
                for x in open_failure(p, i) or {"undecoded"}:
                    k.setdefault(x, p)
    taken = {x for k in classes.values() for x in k}

    # ---- writer: what a crash can leave behind
    sf = c13._fn(ctx, FSC + "._store")
    unit = call_unit(prog, sf)
    rdir = kit.full_resolve(prog, lf, lm.dir)

    def is_path(g, a):
        jp = kit.path_parts(prog, g, a)
        return jp is not None and jp[1] == tname and same(kit.full_resolve(prog, g, jp[0]), rdir)

    effects = _state_file_effects(ctx, kit, unit, is_path)
    ctx.need(any(k in ("onto", "inplace") for k, _c, _t in effects), "_store does not write %s in a way the rule can see (rename onto it / open it for writing)" % tname)
    gone = [(c, t) for k, c, t in effects if k == "gone"]
    torn = ["%s (%s): a crash before the new content is complete leaves an empty or truncated file" % (t, stmt_text(c, 60)) for k, c, t in effects if k == "inplace"]
    if "undecoded" in taken and not torn:
        # the file only ever appears by a rename: it is complete when the renamed file was (C13.c, evaluated on a private
        # context -- its verdicts count here only because _load relies on them)
        sub = _Ctx(prog, ctx.pid, ctx.tier, True)
        sub.clause = ctx.clause
        refused = None
        try:
            c13.c(sub)
        except AnalysisError as e:
            refused = e
        torn = ["the renamed file need not be complete and durable: %s (%s)" % (v.msg.split(":")[0], v.construct[:60]) for v in sub.violations]
        if not torn and refused is not None:
            raise AnalysisError("_load takes an undecodable state file for a never-used context, and whether _store can leave one could not be decided: %s" % refused)

    for c in empties:
        k = classes[id(c)]
        if "decoded" in k:
            p = k["decoded"]
            ctx.ob("an empty (initialised) replay window is not assumed for a state file that was read completely", False, lf, c,
                   detail="reached %s" % ("without opening the file" if p is None else "after the file was decoded: %s" % rp.describe(p)))
        if "undecoded" in k:
            ctx.ob("an empty, truncated or unparsable state file is taken for a never-used context only if _store can never leave one behind "
                   "(atomic, durable replacement)", not torn, lf, c,
                   detail=None if not torn else "path in _load: %s; _store: %s" % (rp.describe(k["undecoded"]), "; ".join(torn)))
        if "unopened" in k:
            ctx.ob("a missing state file means a never-used context: _store never removes the file or moves it away", not gone, lf, c,
                   detail=None if not gone else "; ".join("%s (%s)" % (t, stmt_text(g, 60)) for g, t in gone))
        if not k:
            ctx.ob("initialize_empty in _load lies on no feasible path from the open() of the state file", True, lf, c)


# ---------------------------------------------------------------------------
# C12.i: what an unauthenticated message may leave behind
#
# "Messages that fail authentication never mark or advance the window, so a forgery cannot block the genuine request",
# and "[unprotection] succeeds for any authentic number above everything seen so far": whether a request is accepted may
# depend on the message itself and on what *authenticated* messages left in the security context, on nothing else.  A
# necessary condition that needs no knowledge of any particular mechanism: on a path of unprotect on which the AEAD has
# not (yet) returned normally -- before the decrypt call, or in its exception handler -- nothing that outlives the call
# is written: no attribute or element of the context (`self`), of an object reached from it (through attribute chains,
# subscripts, element accessors, methods of the context that hand out such an object, local aliases of any of these,
# loop variables over them), or of a module-level object.  It is an invariant over ALL writers (assignment, augmented
# assignment, del, setattr/delattr, every mutating container method, a mutating method taken as a value, methods of the
# context and of its subclasses that write, methods of package classes that write their own `self` called on a reached
# object); the window mutators that C12.a places after decrypt are simply four of them.  State that is only *read*
# before decrypt (keys, ids, the window tests) is untouched by this clause, as are writes to locals, to fresh objects
# and to the message / request-id objects handed in by the caller (they do not belong to the context).

_MUTATING = {"pop", "append", "remove", "add", "update", "setdefault", "insert", "clear", "popitem", "extend", "discard", "popleft",
             "appendleft", "extendleft", "rotate", "sort", "reverse", "move_to_end", "subtract", "difference_update",
             "intersection_update", "symmetric_difference_update", "__setitem__", "__delitem__", "__setattr__", "__delattr__",
             "__iadd__", "__ior__", "put", "put_nowait", "set_result", "set_exception"}
_ELEMENT_ACCESS = {"get", "setdefault", "pop", "popitem", "popleft", "values", "items", "keys", "__getitem__"}
_BUILTIN_NAMES = set(dir(__import__("builtins")))


def _local_names(fnode):
    a = fnode.args
    out = {x.arg for x in a.posonlyargs + a.args + a.kwonlyargs}
    for x in (a.vararg, a.kwarg):
        if x is not None:
            out.add(x.arg)
    declared_global = set()
    for n in walk_no_nested(fnode):
        if isinstance(n, ast.Name) and isinstance(n.ctx, (ast.Store, ast.Del)):
            out.add(n.id)
        elif isinstance(n, ast.ExceptHandler) and n.name:
            out.add(n.name)
        elif isinstance(n, (ast.Global, ast.Nonlocal)):
            declared_global.update(n.names)
        elif isinstance(n, (ast.FunctionDef, ast.AsyncFunctionDef, ast.ClassDef)) and n is not fnode:
            out.add(n.name)
        elif isinstance(n, (ast.Import, ast.ImportFrom)):
            for al in n.names:
                out.add((al.asname or al.name).split(".")[0])
    return out - declared_global, declared_global


class Lasting:
    """Which constructs of a function write state that outlives the call (see C12.i)."""

    def __init__(self, prog, root_cls, shared=None):
        self.prog = prog
        self.root_cls = root_cls  # ClassInfo whose instances `self` denotes (with all subclasses)
        self.family = [root_cls.qn] + [c for c in prog.subclasses(root_cls.qn) if c != root_cls.qn] if root_cls is not None else []
        self._effects = {}
        self._busy = set()
        self._per_cls = {}
        # method name -> [FuncInfo] over all package classes (for calls on objects reached from the context)
        self.top = shared.top if shared is not None else self
        if shared is not None:
            self.by_name = shared.by_name
        else:
            self.by_name = {}
            for ci in prog.classes.values():
                for nm, f in ci.methods.items():
                    self.by_name.setdefault(nm, []).append(f)

    def for_class(self, ci):
        """The analysis in which `self` denotes an instance of another package class."""
        top = self.top
        if top.root_cls is not None and ci.qn == top.root_cls.qn:
            return top
        if ci.qn not in top._per_cls:
            top._per_cls[ci.qn] = Lasting(self.prog, ci, shared=top)
        return top._per_cls[ci.qn]

    def defs_of(self, name):
        """Every definition `self.<name>(...)` may run: the one the root class sees and every override below it."""
        out = []
        for q in self.family:
            g = self.prog.lookup_method(q, name)
            if g is not None and all(g is not h for h in out):
                out.append(g)
        return out

    # -- which expressions denote lasting state ---------------------------------------------------------------
    def _scope(self, fi):
        loc, glob = _local_names(fi.node)
        p = fi.parent
        outer = set()
        while p is not None:  # names of enclosing functions are not module-level objects
            outer |= _local_names(p.node)[0]
            p = p.parent
        first = params(fi, skip_self=False)[:1]
        selfname = first[0] if fi.cls is not None and first and first[0] in ("self", "cls") else None
        return loc, glob, outer, selfname

    def tainted(self, fi):
        """Locals of fi that may hold (an element of) lasting state; fixed point over all bindings."""
        loc, glob, outer, selfname = self._scope(fi)
        t = {}  # name -> grade (2: reached from the context, 1: reached from a module-level object)

        def bind(target, value):
            ch = False
            if isinstance(target, ast.Name):
                g_ = self.grade(fi, value, t, (loc, glob, outer, selfname))
                if g_ > t.get(target.id, 0):
                    t[target.id] = g_
                    ch = True
            elif isinstance(target, (ast.Tuple, ast.List)):
                if isinstance(value, (ast.Tuple, ast.List)) and len(value.elts) == len(target.elts) and not any(isinstance(x, ast.Starred) for x in list(value.elts) + list(target.elts)):
                    for a_, b_ in zip(target.elts, value.elts):
                        ch |= bind(a_, b_)
                else:
                    for a_ in target.elts:
                        ch |= bind(a_.value if isinstance(a_, ast.Starred) else a_, value)
            return ch

        changed = True
        while changed:
            changed = False
            for n in walk_no_nested(fi.node):
                if isinstance(n, ast.Assign):
                    for tg in n.targets:
                        changed |= bind(tg, n.value)
                elif isinstance(n, ast.AnnAssign) and n.value is not None:
                    changed |= bind(n.target, n.value)
                elif isinstance(n, ast.NamedExpr):
                    changed |= bind(n.target, n.value)
                elif isinstance(n, (ast.For, ast.AsyncFor)):
                    changed |= bind(n.target, n.iter)
                elif isinstance(n, ast.comprehension):
                    changed |= bind(n.target, n.iter)
                elif isinstance(n, (ast.With, ast.AsyncWith)):
                    for it in n.items:
                        if it.optional_vars is not None:
                            changed |= bind(it.optional_vars, it.context_expr)
        return t, (loc, glob, outer, selfname)

    def is_state(self, fi, e, t, scope):
        return self.grade(fi, e, t, scope) > 0

    def grade(self, fi, e, t, scope):
        """2: the expression denotes the context or something reached from it; 1: a module-level object or something
        reached from it; 0: a local / fresh value / something the caller handed in."""
        loc, glob, outer, selfname = scope
        G = lambda x: self.grade(fi, x, t, scope)
        if isinstance(e, ast.Name):
            if e.id == selfname:
                return 2
            if e.id in t:
                return t[e.id]
            if e.id in glob:
                return 1
            if e.id in loc or e.id in outer or e.id in _BUILTIN_NAMES:
                return 0
            return 1  # a module-level object (a container, a class, an imported module): it outlives the call
        if isinstance(e, (ast.Attribute, ast.Subscript, ast.Starred, ast.NamedExpr, ast.Await)):
            return G(e.value)
        if isinstance(e, ast.IfExp):
            return max(G(e.body), G(e.orelse))
        if isinstance(e, ast.BoolOp):
            return max(G(v) for v in e.values)
        # a tuple / list / dict / set display or comprehension is a fresh container: changing IT changes nothing that
        # lasts (its elements are bound pairwise by tainted(); returns_state() looks into a returned tuple)
        if isinstance(e, ast.Call):
            cn = chain(e.func)
            if cn in ("vars", "iter", "reversed", "enumerate", "next", "getattr") and e.args:
                return G(e.args[0])
            if cn == "zip":
                return max([G(a_) for a_ in e.args], default=0)
            if cn == "globals" and not e.args:
                return 1
            if isinstance(e.func, ast.Attribute):
                recv = e.func.value
                if (isinstance(recv, ast.Name) and recv.id == selfname) or (isinstance(recv, ast.Call) and chain(recv.func) == "super"):
                    return max([self.returns_state(g) for g in self.defs_of(e.func.attr)], default=0)
                if e.func.attr in _ELEMENT_ACCESS:
                    return G(recv)
            return 0  # the result of any other call is taken to be a fresh value
        return 0

    def returns_state(self, g):
        """Grade of what the method hands out (see grade())."""
        key = ("r", id(g.node))
        if key in self._effects:
            return self._effects[key]
        if key in self._busy:
            return 0
        self._busy.add(key)
        res = 0
        try:
            t, scope = self.tainted(g)
            for n in walk_no_nested(g.node):
                if isinstance(n, ast.Return) and n.value is not None:
                    v = n.value
                    if isinstance(v, ast.Name) and v.id == scope[3]:
                        continue  # `return self` (fluent style) hands out nothing new
                    for x in (v.elts if isinstance(v, (ast.Tuple, ast.List)) else [v]):
                        res = max(res, self.grade(g, x, t, scope))
                elif isinstance(n, (ast.Yield, ast.YieldFrom)) and n.value is not None:
                    res = max(res, self.grade(g, n.value, t, scope))
        finally:
            self._busy.discard(key)
        self._effects[key] = res
        return res

    # -- writers -------------------------------------------------------------------------------------------
    def effects(self, fi):
        """[(construct, text)]: constructs of fi (outside nested defs) that write lasting state, directly or by calling
        something that does."""
        key = ("e", id(fi.node))
        if key in self._effects:
            return self._effects[key]
        if key in self._busy:
            return []
        self._busy.add(key)
        out = []
        try:
            t, scope = self.tainted(fi)
            selfname = scope[3]

            def st(e):
                return self.is_state(fi, e, t, scope)

            def store_target(tt):
                if isinstance(tt, (ast.Tuple, ast.List)):
                    return any(store_target(x) for x in tt.elts)
                if isinstance(tt, ast.Starred):
                    return store_target(tt.value)
                if isinstance(tt, (ast.Attribute, ast.Subscript)):
                    return st(tt.value)
                if isinstance(tt, ast.Name):
                    return tt.id in scope[1]  # declared global / nonlocal
                return False

            called = set()
            for n in walk_no_nested(fi.node):
                if isinstance(n, ast.Call):
                    called.add(id(n.func))
            for n in walk_no_nested(fi.node):
                if isinstance(n, (ast.Assign, ast.AugAssign, ast.AnnAssign)):
                    if isinstance(n, ast.AnnAssign) and n.value is None:
                        continue
                    targets = n.targets if isinstance(n, ast.Assign) else [n.target]
                    if any(store_target(x) for x in targets):
                        out.append((n, "store"))
                elif isinstance(n, ast.NamedExpr):
                    if store_target(n.target):
                        out.append((n, "store"))
                elif isinstance(n, ast.Delete):
                    if any(store_target(x) for x in n.targets):
                        out.append((n, "del"))
                elif isinstance(n, (ast.For, ast.AsyncFor)):
                    if store_target(n.target):
                        out.append((n, "store by loop target"))
                elif isinstance(n, ast.Call):
                    cn = chain(n.func)
                    if cn in ("setattr", "delattr") and n.args and st(n.args[0]):
                        out.append((n, cn))
                        continue
                    if cn in ("object.__setattr__", "object.__delattr__") and n.args and st(n.args[0]):
                        out.append((n, cn))
                        continue
                    if not isinstance(n.func, ast.Attribute):
                        continue
                    recv, m = n.func.value, n.func.attr
                    is_self = (isinstance(recv, ast.Name) and recv.id == selfname) or (isinstance(recv, ast.Call) and chain(recv.func) == "super")
                    if is_self:
                        for g in self.defs_of(m):
                            sub = self.effects(g)
                            if sub:
                                out.append((n, "%s writes: %s" % (g.short, stmt_text(sub[0][0], 80))))
                                break
                        else:
                            if m in _MUTATING and not self.defs_of(m):
                                out.append((n, "mutating method on the context itself"))
                        continue
                    if not st(recv):
                        continue
                    if m in _MUTATING:
                        out.append((n, "mutating method %s" % m))
                        continue
                    if m in _ELEMENT_ACCESS:
                        continue
                    rc = chain(recv)
                    if rc is not None and rc.split(".")[0] != selfname and rc.split(".")[0] not in t:
                        continue  # `module.f(...)`, `pkg.mod.Class.m(...)`: a function, not a method of a lasting object
                    # a method of a package class called on an object reached from the context: does it write its own self?
                    for g in self.by_name.get(m, ()):
                        if g.cls is None:
                            continue
                        sub = self.for_class(g.cls).effects(g)
                        if sub:
                            out.append((n, "%s writes: %s" % (g.short, stmt_text(sub[0][0], 80))))
                            break
                elif isinstance(n, ast.Attribute) and isinstance(n.ctx, ast.Load) and n.attr in _MUTATING and id(n) not in called and st(n.value):
                    if not (isinstance(n.value, ast.Name) and n.value.id == selfname and self.defs_of(n.attr)):
                        out.append((n, "mutating method %s taken as a value" % n.attr))
        finally:
            self._busy.discard(key)
        self._effects[key] = out
        return out


@R.clause("C12.i", "a message that has not been authenticated leaves nothing behind: unprotect writes state that outlives the call (the context, anything reached from it, module-level objects) only after the AEAD decrypt returned normally")
def i_no_trace(ctx):
    u = _unprotect(ctx)
    fi, cfg = u.fi, u.cfg
    ctx.need(fi.cls is not None, "unprotect is not a method")
    la = Lasting(ctx.prog, fi.cls)
    eff = la.effects(fi)
    ctx.extra["C12.i lasting writes in unprotect"] = ["%s (%s)" % (stmt_text(n, 80), why) for n, why in eff]
    # the writers C12.a knows must be among them: otherwise this clause does not see what it claims to see
    seen = {id(n) for n, _ in eff}
    ctx.need(all(id(c) in seen for c in u.strikes + u.inits), "the replay window calls of unprotect are not recognised as writers of lasting state")
    for n, why in eff:
        locs = cfg.locate(n)
        ctx.need(bool(locs), "a writer of lasting state in unprotect has no place in its flow graph: %s" % stmt_text(n, 80))
        bad = [x for x in locs if cfg.is_reachable(x) and not after_normal(cfg, u.dec, x)]
        ctx.ob("state that outlives unprotect is written only after the AEAD decrypt call returned normally (%s)" % why.split(":")[0],
               not bad, fi, n,
               detail=None if not bad else "%s; path without successful decryption: %s" % (why, witness(cfg, cfg.entry, bad[0], cut_normal=u.dec)))


F = "aiocoap/oscore.py"

_DECRYPT_BLOCK = (
    "        try:\n"
    "            plaintext = alg_symmetric.decrypt(ciphertext, aad, key, nonce)\n"
    "        except Exception as e:\n"
    "            _alglog.debug(\"Unprotecting failed\")\n"
    "            raise e\n"
)
_STRIKE = (
    "        if not is_response and seqno is not None and replay_error is None:\n"
    "            self.recipient_replay_window.strike_out(seqno)\n"
)
_BETWEEN = (
    "\n"
    "        self._post_decrypt_checks(\n"
    "            external_aad, plaintext, protected_message, request_id\n"
    "        )\n"
    "\n"
)
R.seed("C12.a", F, _DECRYPT_BLOCK + _BETWEEN + _STRIKE, _STRIKE + _DECRYPT_BLOCK + _BETWEEN, "strike_out moved before decrypt: a forgery marks the window")
R.seed("C12.a", F, _BETWEEN + _STRIKE, "\n" + _STRIKE + _BETWEEN[1:], "strike_out before the post-decrypt checks")
R.seed("C12.a", F, "if not is_response and seqno is not None and replay_error is None:", "if not is_response and seqno is not None:", "replay_error is None dropped")
R.seed("C12.a", F, "if not is_response and seqno is not None and replay_error is None:", "if seqno is not None and replay_error is None:", "request-side guard dropped")
R.seed("C12.a", F, "            _alglog.debug(\"Unprotecting failed\")\n            raise e\n", "            _alglog.debug(\"Unprotecting failed\")\n            plaintext = b\"\\x01\"\n", "decrypt failure swallowed")
R.seed("C12.a", F, "seqno = int.from_bytes(partial_iv_short, \"big\")", "seqno = int.from_bytes(partial_iv_short, \"little\")", "window checks a number that is not the nonce's")
R.seed("C12.a", F, "                elif not self.recipient_replay_window.is_valid(seqno):", "                elif False:", "is_valid test removed")
R.seed("C12.a", F, "                    replay_error = ReplayError(\"Sequence number was reused\")", "                    _alglog.debug(\"Sequence number was reused\")", "reused number only logged")
R.seed("C12.a", F, "                if seqno is not None:\n                    self.recipient_replay_window.initialize_from_freshlyseen(seqno)", "                if seqno is not None:\n                    self.recipient_replay_window.initialize_from_freshlyseen(0)", "recovery from a number that was not authenticated")
R.seed("C12.b", F, "                if unprotected_message.opt.echo == self.echo_recovery:", "                if True:", "echo test removed")
R.seed("C12.b", F, "        if replay_error is not None:\n            raise replay_error\n\n        if unprotected_message.code.is_request():", "        if unprotected_message.code.is_request():", "final raise removed: verdict lost")
R.seed("C12.b", F, "        # FIXME add options from unprotected\n", "        replay_error = None\n", "verdict cleared unconditionally after decrypt")
R.seed("C12.b", F, "                if unprotected_message.opt.echo == self.echo_recovery:", "                if protected_message.opt.echo == self.echo_recovery:", "unauthenticated outer Echo option compared")
R.seed("C12.b", F, "                    self.recipient_replay_window.initialize_from_freshlyseen(seqno)\n                    replay_error = None", "                    replay_error = None", "accepted number not recorded: the same request passes again")
R.seed("C12.b", F, "            not self.recipient_replay_window.is_initialized()\n            and self.echo_recovery is not None", "            self.echo_recovery is not None", "a reused number with a valid Echo clears the verdict and resets the window")
R.seed("C12.b", F, "        if replay_error is not None:\n            raise replay_error\n\n        if unprotected_message.code.is_request():", "        if replay_error is not None and is_response:\n            raise replay_error\n\n        if unprotected_message.code.is_request():", "verdict raised only for responses")
R.seed("C12.c", F, "        if number >= self._index + self._size:\n            return True", "        if number > self._index + self._size:\n            return True", ">= -> > in is_valid")
R.seed("C12.c", F, "        if number < self._index:\n            return False", "        if number <= self._index:\n            return False", "lowest tracked number rejected")
R.seed("C12.c", F, "        return (self._bitfield >> (number - self._index)) & 1 == 0", "        return (self._bitfield >> (number - self._index)) & 1 == 1", "bit sense inverted")
R.seed("C12.c", F, "        return (self._bitfield >> (number - self._index)) & 1 == 0", "        return (self._bitfield >> (number - self._index + 1)) & 1 == 0", "wrong bit tested")
R.seed("C12.c", F, "overshoot = number - (self._index + self._size - 1)", "overshoot = number - (self._index + self._size)", "size - 1 -> size")
R.seed("C12.c", F, "            self._index += overshoot\n            self._bitfield >>= overshoot\n", "            self._index += overshoot\n", "only the index is shifted")
R.seed("C12.c", F, "            self._index += overshoot\n            self._bitfield >>= overshoot\n", "            self._bitfield >>= overshoot\n", "only the bitfield is shifted")
R.seed("C12.c", F, "self._bitfield |= 1 << (number - self._index)", "self._bitfield |= 1 << number", "wrong bit set")
R.seed("C12.c", F, "        self._index = seen\n        self._bitfield = 1", "        self._index = seen\n        self._bitfield = 0", "bitfield = 0 after recovery: the fresh number is accepted twice")
R.seed("C12.c", F, "        overshoot = number - (", "        self.strike_out_callback()\n        overshoot = number - (", "callback before the mutation")
R.seed("C12.c", F, "        if not self.is_valid(number):\n            raise ValueError(", "        if False:\n            raise ValueError(", "strike_out no longer refuses invalid numbers")
R.seed("C12.c", F, "        if overshoot > 0:\n", "        if overshoot > 1:\n", "number index+size marked without shifting: it stays valid and is accepted twice")
R.seed("C12.d", F, "self.echo_recovery = secrets.token_bytes(8)", "self.echo_recovery = b\"\\x00\" * 8", "constant echo value")
R.seed("C12.d", F, "self.echo_recovery = secrets.token_bytes(8)", "self.echo_recovery = secrets.token_bytes(1)", "guessable echo value")
R.seed("C12.d", F, "    def is_initialized(self):\n        return self._index is not None", "    def is_initialized(self):\n        return True", "uninitialised window reported as initialised")
R.seed("C12.d", F, "secctx=self, request_id=request_id, echo=self.echo_recovery", "secctx=self, request_id=request_id, echo=unprotected_message.opt.echo", "challenge reflects the client's value")
R.seed("C12.d", F, "                self.replay_window_persisted = False\n            else:\n                try:", "                self.replay_window_persisted = False\n                self.recipient_replay_window.initialize_empty()\n            else:\n                try:", "unknown window initialised empty: everything before the crash is accepted again")
R.seed("C12.d", F, "    _index = None\n", "    _index = 0\n", "fresh window counts as initialised")

R.seed("C12.e", F, "        if self.replay_window_persisted:\n            # Just remove the sequence numbers once from the file\n            self.replay_window_persisted = False\n            self._store()", "        if self.replay_window_persisted:\n            # Just remove the sequence numbers once from the file\n            self._store()\n            self.replay_window_persisted = False", "the file keeps a stale real window: after a crash replays of everything but the first request are accepted")

# seeds for the path-sensitive readings (they must keep biting where the shape no longer matters)
R.seed("C12.a", F, "if not is_response and seqno is not None and replay_error is None:", "if (not is_response and seqno is not None) or replay_error is None:", "guards joined by `or`: none of them holds on every path to strike_out")
R.seed("C12.a", F, "            seqno = int.from_bytes(partial_iv_short, \"big\")\n", "            seqno = int.from_bytes(partial_iv_short, \"big\")\n            partial_iv_short = partial_iv_short.lstrip(b\"\\0\")\n", "the nonce is built from other bytes than the number checked")
# (the earlier form of this seed, `is_request() and seqno is not None`, is NOT a fault: the else arm re-tests the same
# unchanged local, so a request still cannot reach the initialisation there -- the value-aware path model sees that)
R.seed("C12.b", F, "            if protected_message.code.is_request():\n                # Either accept", "            if protected_message.code.is_request() and unprotected_message.opt.echo is not None:\n                # Either accept", "a request without Echo option falls into the response arm of the recovery: window initialised from a possibly replayed number")
R.seed("C12.c", F, "        overshoot = number - (self._index + self._size - 1)\n        if overshoot > 0:\n            self._index += overshoot\n            self._bitfield >>= overshoot\n        assert self.is_valid(number), \"Sequence number was not valid before strike-out\"\n        self._bitfield |= 1 << (number - self._index)\n",
       "        overshoot = number - (self._index + self._size - 1)\n        mask = 1 << (number - self._index)\n        if overshoot > 0:\n            self._index += overshoot\n            self._bitfield >>= overshoot\n        self._bitfield |= mask\n", "bit mask computed before the window is shifted")
R.seed("C12.c", F, "        self._index = seen\n        self._bitfield = 1", "        self._index, self._bitfield = 1, seen", "tuple assignment with the fields swapped")
R.seed("C12.d", F, "                self.replay_window_persisted = True\n\n    # This is called internally", "                self.replay_window_persisted = True\n        if not self.recipient_replay_window.is_initialized():\n            self.recipient_replay_window.initialize_empty()\n\n    # This is called internally", "an 'unknown' window is initialised empty further down in _load")
R.seed("C12.d", F, "secctx=self, request_id=request_id, echo=self.echo_recovery", "self, request_id, unprotected_message.opt.echo", "positional challenge reflects the client's value")
R.seed("C12.f", F, "            seqno = int.from_bytes(partial_iv_short, \"big\")\n", "            seqno = int.from_bytes(request_id.partial_iv if is_response else partial_iv_short, \"big\")\n", "a response with its own PIV is numbered by the request's")

R.seed("C12.f", F, "            seqno = None  # sentinel for not striking out anything\n", "            seqno = int.from_bytes(request_id.partial_iv, \"big\")\n", "response without PIV: window initialised from the request's (our own) number")

# seeds for the value-aware readings: a decision carried in a sentinel / flag / copy must still be the right decision
R.seed("C12.a", F, _STRIKE,
       "        to_strike = None\n        if not is_response and seqno is not None:\n            to_strike = seqno\n        if to_strike is not None:\n            self.recipient_replay_window.strike_out(to_strike)\n",
       "sentinel form of the strike-out decision that forgot the pending verdict")
R.seed("C12.a", F, _STRIKE,
       "        do_strike = False\n        if replay_error is None:\n            do_strike = seqno is not None\n        if do_strike:\n            self.recipient_replay_window.strike_out(seqno)\n",
       "flag form of the strike-out decision that forgot the request side")
R.seed("C12.a", F, _STRIKE,
       "        if not is_response and seqno is not None and replay_error is None:\n            struck = int.from_bytes(nonce, \"big\")\n            self.recipient_replay_window.strike_out(struck)\n",
       "another number than the one tested is struck out")
R.seed("C12.b", F, "        try_initialize = (\n            not self.recipient_replay_window.is_initialized()\n            and self.echo_recovery is not None\n        )\n",
       "        try_initialize = (\n            True if self.echo_recovery is not None else not self.recipient_replay_window.is_initialized()\n        )\n",
       "predicate as a conditional expression that no longer requires an uninitialised window")
R.seed("C12.f", F, "            seqno = None  # sentinel for not striking out anything\n", "            seqno = None\n            own = int.from_bytes(request_id.partial_iv, \"big\")\n            seqno = own\n",
       "the request's number reaches the window through a copy")
# ... and in a dedicated sentinel object (a fresh object() / a module-level Sentinel, `_kit_c12.SentinelIndex`): the paths
# on which the local still is the sentinel are not paths to the call, the others must carry all three guards
R.seed("C12.a", F, _STRIKE,
       "        nothing = object()\n        to_strike = nothing\n        if not is_response and seqno is not None:\n            to_strike = seqno\n        if to_strike is not nothing:\n            self.recipient_replay_window.strike_out(to_strike)\n",
       "object() sentinel form of the strike-out decision that forgot the pending verdict")
R.seed("C12.a", F, _STRIKE,
       "        to_strike = PRESENT_BUT_NO_VALUE_YET\n        if seqno is not None and replay_error is None:\n            to_strike = seqno\n        if PRESENT_BUT_NO_VALUE_YET is not to_strike:\n            self.recipient_replay_window.strike_out(to_strike)\n",
       "module-level Sentinel form of the strike-out decision that forgot the request side")

# seeds for the per-arrival reading of the kill (C12.b): the obligations are owed on the paths on which a verdict can be
# pending and the request is accepted -- they must still bite there
R.seed("C12.b", F, "                    self.recipient_replay_window.initialize_from_freshlyseen(seqno)\n                    replay_error = None",
       "                    if seqno:\n                        self.recipient_replay_window.initialize_from_freshlyseen(seqno)\n                    replay_error = None",
       "number 0 is accepted through Echo recovery without being recorded (one path of the kill lacks the initialisation)")
R.seed("C12.b", F, "        if replay_error is not None:\n            raise replay_error\n\n        if unprotected_message.code.is_request():",
       "        pending = replay_error\n        if try_initialize and seqno is not None:\n            pending = None\n        if pending is not None:\n            raise pending\n\n        if unprotected_message.code.is_request():",
       "the verdict is carried under another name and dropped whenever the window was (re)initialised, Echo or not: a path with an initialisation that is not the authenticated recovery")
R.seed("C12.b", F, _STRIKE,
       "        if not is_response and seqno is not None:\n            if replay_error is None:\n                self.recipient_replay_window.strike_out(seqno)\n            replay_error = None\n",
       "`replay_error = None` shared by the nothing-pending arm (where it clears nothing) and the verdict-pending arm (where it accepts a replay)")

# seeds for C12.g / C12.h
R.seed("C12.g", F, "        self._index = persisted[\"index\"]\n        self._bitfield = persisted[\"bitfield\"]\n",
       "        self._index = persisted[\"index\"] or 0\n        self._bitfield = persisted[\"bitfield\"] or 0\n",
       "the null window a clean stop writes while the context waits for its Echo exchange comes back initialised and empty")

_H_READ = "        except FileNotFoundError:\n"
_H_MID1 = (
    '            self.sender_sequence_number = 0\n'
    '            self.recipient_replay_window.initialize_empty()\n'
    '            self.replay_window_persisted = True\n'
    '        else:\n'
    '            self.sender_sequence_number = int(sequence["next-to-send"])\n'
    '            received = sequence["received"]\n'
    '            if received == "unknown":\n'
    '                # The replay window will stay uninitialized, which triggers\n'
    '                # Echo recovery\n'
    '                self.replay_window_persisted = False\n'
    '            else:\n'
    '                try:\n'
    '                    self.recipient_replay_window.initialize_from_persisted(received)\n'
    '                except (ValueError, TypeError, KeyError):\n'
    '                    # Not being particularly careful about what could go wrong: If\n'
    "                    # someone tampers with the replay data, we're already in *big*\n"
    '                    # trouble, of which I fail to see how it would become worse\n'
    '                    # than a crash inside the application around "failure to\n'
    '                    # right-shift a string" or that like; at worst it\'d result in\n'
    '                    # nonce reuse which tampering with the replay window file\n'
    '                    # already does.\n'
    '                    raise self.LoadError(\n'
    '                        "Persisted replay window state was not understood"\n'
    '                    )\n'
    '                self.replay_window_persisted = True\n'
    '\n'
    '    # This is called internally whenever a new sequence number is taken or\n'
    '    # crossed out from the window, and blocks a lot; B.1 mode mitigates that.\n'
    '    #\n'
    '    # Making it async and block in a threadpool would mitigate the blocking of\n'
    '    # other messages, but the more visible effect of this will be that no\n'
    '    # matter if sync or async, a reply will need to wait for a file sync\n'
    '    # operation to conclude.\n'
    '    def _store(self):\n'
)
_H_TMP = (
    '        tmphand, tmpnam = tempfile.mkstemp(\n'
    '            dir=self.basedir, prefix=".sequence-", suffix=".json", text=True\n'
    '        )\n'
    '\n'
)
_H_MID2 = (
    '        data = {"next-to-send": self.sequence_number_persisted}\n'
    '        if not self.replay_window_persisted:\n'
    '            data["received"] = "unknown"\n'
    '        else:\n'
    '            data["received"] = self.recipient_replay_window.persist()\n'
    '\n'
    '        # Using io.open (instead os.fdopen) and binary / write with encode\n'
    '        # rather than dumps as that works even while the interpreter is\n'
    '        # shutting down.\n'
    '        #\n'
    '        # This can be relaxed when there is a defined shutdown sequence for\n'
    "        # security contexts that's triggered from the general context shutdown\n"
    "        # -- but right now, there isn't.\n"
)
_H_WRITE = (
    '        with io.open(tmphand, "wb") as tmpfile:\n'
    '            tmpfile.write(json.dumps(data).encode("utf8"))\n'
    '            tmpfile.flush()\n'
    '            os.fsync(tmpfile.fileno())\n'
    '\n'
)
_H_REPLACE = '        os.replace(tmpnam, os.path.join(self.basedir, "sequence.json"))\n'
# two-site seeds: each half alone keeps the invariant (checked by hand: C12.h is silent on either half)
R.seed("C12.h", F, _H_READ + _H_MID1 + _H_TMP + _H_MID2 + _H_WRITE + _H_REPLACE,
       "        except (FileNotFoundError, ValueError):\n" + _H_MID1 + _H_MID2 +
       '        target = os.path.join(self.basedir, "sequence.json")\n'
       '        with open(target, "w") as out:\n'
       '            json.dump(data, out)\n'
       '            out.flush()\n'
       '            os.fsync(out.fileno())\n',
       "TWO-SITE: the state file is rewritten in place, and an unparsable one is taken for a never-used context: a crash during the rewrite resets the window")
R.seed("C12.h", F, _H_READ + _H_MID1 + _H_TMP + _H_MID2 + _H_WRITE + _H_REPLACE,
       "        except (OSError, json.JSONDecodeError):\n" + _H_MID1 + _H_TMP + _H_MID2 + _H_WRITE.replace("            os.fsync(tmpfile.fileno())\n", "") + _H_REPLACE,
       "TWO-SITE: the temp file is renamed into place without fsync (it may surface empty after a power loss), and an undecodable file is taken for a never-used context")
R.seed("C12.h", F, _H_REPLACE,
       '        target = os.path.join(self.basedir, "sequence.json")\n'
       '        if os.path.exists(target):\n'
       '            os.remove(target)\n'
       '        os.rename(tmpnam, target)\n',
       "remove-then-rename: a crash in between leaves no state file, which _load takes for a never-used context")

# C12.i: every family of writer, before the decrypt call and in its exception handler
_UNSUPPORTED = '        if unprotected:\n            raise DecodeError("Unsupported unprotected option")\n'
_FAILED = '            _alglog.debug("Unprotecting failed")\n'
R.seed("C12.i", F, _FAILED, _FAILED + "            self.last_failed_piv = partial_iv_short\n",
       "the context remembers the number of a message that failed authentication")
R.seed("C12.i", F, _UNSUPPORTED,
       _UNSUPPORTED +
       '        seen_pivs = self.__dict__.setdefault("_seen_pivs", set())\n'
       '        if not is_response and partial_iv_short in seen_pivs:\n'
       '            raise ProtectionInvalid("Repeated partial IV")\n'
       '        seen_pivs.add(partial_iv_short)\n',
       "de-duplication by partial IV before authentication (through a local alias of a set kept in the context): a forgery blocks the genuine request")
R.seed("C12.i", F, _FAILED, _FAILED + '            globals().setdefault("_FAILED_PIVS", set()).add(partial_iv_short)\n',
       "failed numbers collected in a module-level set")
R.seed("C12.i", F, "        return self.recipient_key\n", "        self.last_key_use = protected_message.opt.oscore\n        return self.recipient_key\n",
       "a method of the context that unprotect calls before decrypting records the (unauthenticated) OSCORE option")
R.seed("C12.i", F, _FAILED, _FAILED + "            note_failure = self.failure_log.append\n            note_failure(seqno)\n",
       "a mutating method of an object reached from the context taken as a value and called later")
