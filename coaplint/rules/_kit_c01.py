"""C01 kit: the checker's own evaluator for a side-effect-free subset of Python.

The codec clauses of C01 are statements about *values* ("the writer maps 300 to
nibble 14 + two bytes 0x001f", "the reader maps them back").  Instead of
matching the shape of the functions that compute those values, the rules
evaluate the functions' syntax trees over finite domains in this evaluator
(same idea as absdom._eval_code_pred / norm.consteval, with a larger
vocabulary: calls between repository functions, classes, enums, namedtuples,
properties, closures, exceptions) and compare the results with an RFC
reference written in the checker.  Nothing of the repository is imported,
compiled, exec'd or eval'd; the evaluator has no model for I/O, and anything
outside its vocabulary raises AnalysisError (exit 2), it never guesses.

Vocabulary (second pass): every statement of Python 3.12 a synchronous function
can contain -- including `match` with literal / singleton / capture / wildcard /
or / sequence (star) / mapping (**rest) / class patterns (positional through
__match_args__, namedtuple and dataclass fields, the host's self-matching
builtins) and guards, `with` over interpreted managers, contextlib.suppress /
nullcontext / @contextmanager generators and in-memory host buffers, classes
defined inside functions (closure-free), `type` aliases -- and generator
functions with yields anywhere a statement can suspend (inside if / for / while
/ try-finally / with / match, `x = yield v`, `return (yield from g)`), sent
values, generator return values and `yield from` delegation.  Classes: plain,
enum, namedtuple (collections.namedtuple base and typing.NamedTuple class
syntax), @dataclass (init / repr / eq / order / frozen / kw_only / field() /
__post_init__ / replace / astuple / asdict), iterator classes (__iter__ /
__next__).  Module level: conditional definitions (`if cond: X = a else: X =
b`, the test is evaluated), try / except ImportError fallbacks (the body's
binding only where the body certainly completes, refused otherwise), import-time
loops replayed tolerantly for every module touched.  Only `await`, a yield nested
inside an expression, class decorators other than dataclass, user-defined
descriptors / metaclass __call__ / __init_subclass__ stay outside (refused).

Values: ints, bytes, str, tuples, lists, dicts, sets are host values (their
operators are the host's, hence faithful); instances of repository classes
are Obj / IntInst (int-derived: enums) / TupleInst (namedtuple-derived);
functions are FuncVal / BoundMethod; classes ClassRef; modules ModuleVal /
ExtModule (explicit models of a few pure stdlib modules).
"""

import ast
import base64 as _base64
import binascii
import bisect as _bisect
import codecs as _codecs
import collections
import dataclasses as _dataclasses
import functools
import html as _html
import io as _io
import itertools
import math
import operator
import socket as _socket
import errno as _errno
import string as _string
import struct
import sys
import types
import unicodedata

from ..model import AnalysisError, BUILTIN_EXC, PKG


class Unsupported(AnalysisError):
    """construct outside the evaluator's vocabulary"""


class Raised(Exception):
    """an exception of the *interpreted* program in flight"""

    def __init__(self, exc):
        Exception.__init__(self)
        self.exc = exc


# ---------------------------------------------------------------------------
# values


class Obj:
    __slots__ = ("_k_cref", "_k_attrs", "__weakref__")

    def __init__(self, cref):
        self._k_cref = cref
        self._k_attrs = {}

    def __eq__(self, other):
        f = self._k_cref.interp.find_dunder(self, "__eq__")
        if f is not None:
            r = f(other)
            if r is NotImplemented:
                return self is other
            return r
        return self is other

    def __ne__(self, other):
        r = self.__eq__(other)
        return not r

    def __hash__(self):
        f = self._k_cref.interp.find_dunder(self, "__hash__")
        if f is not None:
            return f()
        return id(self)

    def __repr__(self):
        return "<%s object>" % self._k_cref.qn.split(".")[-1]


class IntInst(int):
    def __new__(cls, v, cref):
        o = int.__new__(cls, v)
        o._k_cref = cref
        o._k_attrs = {}
        return o


class TupleInst(tuple):
    def __new__(cls, items, cref):
        o = tuple.__new__(cls, items)
        o._k_cref = cref
        o._k_attrs = {}
        return o


INST = (Obj, IntInst, TupleInst)


class Poison:
    """a binding whose evaluation is outside the vocabulary: fails on use"""

    def __init__(self, why):
        self.why = why


class NTBase:
    """collections.namedtuple(name, fields) as a class-like value"""

    def __init__(self, name, fields, defaults=()):
        self.name = name
        self.fields = tuple(fields)
        self.defaults = tuple(defaults)
        self.qn = "namedtuple:" + name


class Property:
    def __init__(self, fget=None, fset=None, fdel=None, doc=None):
        self.fget, self.fset, self.fdel, self.doc = fget, fset, fdel, doc


class ClassMethod:
    def __init__(self, f):
        self.f = f


class StaticMethod:
    def __init__(self, f):
        self.f = f


class ModuleVal:
    def __init__(self, name):
        self.name = name


class ExtModule:
    def __init__(self, name, attrs):
        self.name = name
        self.attrs = attrs


class FuncVal:
    def __init__(self, interp, node, module, closure, owner=None, defaults=(), kwdefaults=None, clsscope=None):
        self.interp = interp
        self.node = node
        self.module = module
        self.closure = closure
        self.owner = owner  # qualified name of the class whose body defines it
        self.defaults = defaults
        self.kwdefaults = kwdefaults or {}
        self.name = getattr(node, "name", "<lambda>")

    def __call__(self, *a, **k):
        return self.interp.call_function(self, list(a), k)


class BoundMethod:
    def __init__(self, func, obj):
        self.func = func
        self.obj = obj

    def __call__(self, *a, **k):
        f = self.func
        if isinstance(f, FuncVal):
            return f.interp.call_function(f, [self.obj] + list(a), k)
        return f(self.obj, *a, **k)


class ClassRef:
    def __init__(self, interp, qn):
        self.interp = interp
        self.qn = qn

    def __call__(self, *a, **k):
        return self.interp.instantiate(self, list(a), k)

    def __repr__(self):
        return "<class %s>" % self.qn


class SuperProxy:
    def __init__(self, owner, obj):
        self.owner = owner
        self.obj = obj


class Builtin:
    """a model function implemented in the checker"""

    def __init__(self, name, fn):
        self.name = name
        self.fn = fn

    def __call__(self, *a, **k):
        return self.fn(*a, **k)


class SynthMethod(Builtin):
    """a method the host would generate for a class (dataclass __init__/__eq__/...): written in the checker, bound
    like a function defined in the class body"""


class DCField:
    """dataclasses.field(...)"""

    def __init__(self, default=_dataclasses.MISSING, default_factory=_dataclasses.MISSING, init=True, repr=True, hash=None, compare=True, metadata=None, kw_only=_dataclasses.MISSING):
        self.default, self.default_factory, self.init, self.repr, self.hash, self.compare, self.kw_only = default, default_factory, init, repr, hash, compare, kw_only


class NullLogger:
    pass


class Stub:
    """a collaborator supplied by the rule: a bag of attributes (values or Builtin models)"""

    def __init__(self, name, **attrs):
        self._k_name = name
        self._k_stub = attrs

    def __repr__(self):
        return "<stub %s>" % self._k_name


class AutoStub:
    """a collaborator nobody specified: every attribute is another AutoStub, every call is recorded in the shared
    log as (dotted name, args, kwargs) and returns an AutoStub.  Used for `self.log`, `self._mman`, ... of a transport
    object whose receive path is evaluated."""

    def __init__(self, name, log):
        self._k_name = name
        self._k_log = log
        self._k_kids = {}

    def __repr__(self):
        return "<autostub %s>" % self._k_name


class Suppress:
    """contextlib.suppress(*exceptions)"""

    def __init__(self, types):
        self.types = tuple(types)


class NullContext:
    """contextlib.nullcontext(value)"""

    def __init__(self, value=None):
        self.value = value


class GenContext:
    """the context manager made by a @contextlib.contextmanager function: wraps the (host) generator that runs the
    interpreted generator function"""

    def __init__(self, gen):
        self.gen = gen


class _Sig:
    __slots__ = ("kind", "value")

    def __init__(self, kind, value=None):
        self.kind = kind
        self.value = value


_BREAK = _Sig("break")
_CONTINUE = _Sig("continue")

SAFE_TYPES = (
    int, bool, float, complex, str, bytes, bytearray, tuple, list, dict, set, frozenset, range, slice, type(None),
    collections.OrderedDict, collections.defaultdict, collections.deque, collections.Counter, memoryview,
    type(NotImplemented), type(Ellipsis),
    struct.Struct, _io.BytesIO, _io.StringIO,  # pure in-memory host objects (a precompiled format, a growing buffer)
    types.MappingProxyType,  # read-only view of a dict
)
_ITER_TYPES = tuple(
    {type(iter([])), type(iter(())), type(iter({})), type(iter(set())), type(iter(b"")), type(iter("")), type(iter(range(0))), type({}.keys()), type({}.values()),
     type({}.items()), type(iter({}.values())), type(iter({}.items())), enumerate, zip, map, filter, reversed, types.GeneratorType, type(iter(bytearray())),
     itertools.chain, itertools.count, itertools.islice, itertools.repeat, itertools.accumulate, itertools.takewhile, itertools.dropwhile, itertools.zip_longest,
     itertools.product, itertools.starmap, itertools.groupby, itertools.cycle, itertools.permutations, itertools.combinations, type(reversed({}.keys()) if sys.version_info >= (3, 8) else iter(())),
     type(reversed([])), type(iter(collections.deque())), itertools.compress, itertools.filterfalse, itertools.combinations_with_replacement,
     type(itertools.tee(())[0]), type(struct.iter_unpack("B", b""))}
    | {getattr(itertools, n) for n in ("pairwise", "batched") if hasattr(itertools, n)}
)

HOST_EXC = {n: v for n, v in vars(__import__("builtins")).items() if isinstance(v, type) and issubclass(v, BaseException)}

_BINOPS = {
    ast.Add: (operator.add, "__add__", "__radd__"), ast.Sub: (operator.sub, "__sub__", "__rsub__"), ast.Mult: (operator.mul, "__mul__", "__rmul__"),
    ast.Div: (operator.truediv, "__truediv__", "__rtruediv__"), ast.FloorDiv: (operator.floordiv, "__floordiv__", "__rfloordiv__"),
    ast.Mod: (operator.mod, "__mod__", "__rmod__"), ast.Pow: (operator.pow, "__pow__", "__rpow__"), ast.LShift: (operator.lshift, "__lshift__", "__rlshift__"),
    ast.RShift: (operator.rshift, "__rshift__", "__rrshift__"), ast.BitOr: (operator.or_, "__or__", "__ror__"), ast.BitAnd: (operator.and_, "__and__", "__rand__"),
    ast.BitXor: (operator.xor, "__xor__", "__rxor__"), ast.MatMult: (operator.matmul, "__matmul__", "__rmatmul__"),
}
_IOPS = {
    ast.Add: (operator.iadd, "__iadd__"), ast.Sub: (operator.isub, "__isub__"), ast.Mult: (operator.imul, "__imul__"), ast.Div: (operator.itruediv, "__itruediv__"),
    ast.FloorDiv: (operator.ifloordiv, "__ifloordiv__"), ast.Mod: (operator.imod, "__imod__"), ast.Pow: (operator.ipow, "__ipow__"), ast.LShift: (operator.ilshift, "__ilshift__"),
    ast.RShift: (operator.irshift, "__irshift__"), ast.BitOr: (operator.ior, "__ior__"), ast.BitAnd: (operator.iand, "__iand__"), ast.BitXor: (operator.ixor, "__ixor__"),
    ast.MatMult: (operator.imatmul, "__imatmul__"),
}
_CMPOPS = {
    ast.Lt: (operator.lt, "__lt__", "__gt__"), ast.LtE: (operator.le, "__le__", "__ge__"), ast.Gt: (operator.gt, "__gt__", "__lt__"), ast.GtE: (operator.ge, "__ge__", "__le__"),
}

# what a host-level primitive may raise on behalf of the interpreted program
_PRIM_EXC = (TypeError, ValueError, IndexError, KeyError, AttributeError, OverflowError, ZeroDivisionError, struct.error, StopIteration, UnicodeError, LookupError, ArithmeticError, binascii.Error)


class Frame:
    __slots__ = ("locals", "localnames", "closure", "module", "func", "clsns", "exc")

    def __init__(self, localnames, closure, module, func=None, clsns=None):
        self.locals = {}
        self.localnames = localnames
        self.closure = closure
        self.module = module
        self.func = func
        self.clsns = clsns  # class-body scope: dict being built
        self.exc = None  # exception being handled (for bare raise)


def _assigned_names(node):
    """names bound in the scope of a function / lambda / comprehension node (not nested scopes)"""
    out = set()
    glob = set()

    def tgt(t):
        for n in ast.walk(t):
            if isinstance(n, ast.Name) and isinstance(n.ctx, (ast.Store, ast.Del)):
                out.add(n.id)

    def rec(n, top=False):
        if not top and isinstance(n, (ast.FunctionDef, ast.AsyncFunctionDef, ast.ClassDef)):
            out.add(n.name)
            return
        if not top and isinstance(n, ast.Lambda):
            return
        if isinstance(n, (ast.ListComp, ast.SetComp, ast.DictComp, ast.GeneratorExp)) and not top:
            # only the first iterable is evaluated in the enclosing scope; walrus targets leak
            for x in ast.walk(n):
                if isinstance(x, ast.NamedExpr):
                    out.add(x.target.id)
            return
        if isinstance(n, ast.Name) and isinstance(n.ctx, (ast.Store, ast.Del)):
            out.add(n.id)
        elif isinstance(n, (ast.Global, ast.Nonlocal)):
            glob.update(n.names)
        elif isinstance(n, (ast.Import, ast.ImportFrom)):
            for a in n.names:
                out.add((a.asname or a.name).split(".")[0])
        elif isinstance(n, ast.ExceptHandler) and n.name:
            out.add(n.name)
        elif isinstance(n, (ast.MatchAs, ast.MatchStar)) and getattr(n, "name", None):
            out.add(n.name)
        elif isinstance(n, ast.MatchMapping) and n.rest:
            out.add(n.rest)
        elif isinstance(n, getattr(ast, "TypeAlias", ())) and isinstance(n.name, ast.Name):
            out.add(n.name.id)
        for c in ast.iter_child_nodes(n):
            rec(c)

    if isinstance(node, (ast.FunctionDef, ast.AsyncFunctionDef, ast.Lambda)):
        a = node.args
        for x in a.posonlyargs + a.args + a.kwonlyargs:
            out.add(x.arg)
        if a.vararg:
            out.add(a.vararg.arg)
        if a.kwarg:
            out.add(a.kwarg.arg)
        body = node.body if isinstance(node.body, list) else [node.body]
        for st in body:
            rec(st)
    else:  # comprehension
        for g in node.generators:
            tgt(g.target)
        for x in ast.walk(node):
            pass
    return out - glob, glob


def _exclusive(arms_a, arms_b):
    """two statements sit in different arms of the same if statement"""
    return any(a[0] == b[0] and a[1] != b[1] for a in arms_a for b in arms_b)


def _has_yield(fnode):
    todo = list(fnode.body) if isinstance(fnode.body, list) else [fnode.body]
    while todo:
        n = todo.pop()
        if isinstance(n, (ast.Yield, ast.YieldFrom)):
            return True
        if isinstance(n, (ast.FunctionDef, ast.AsyncFunctionDef, ast.Lambda, ast.ClassDef)):
            continue
        todo.extend(ast.iter_child_nodes(n))
    return False


# ---------------------------------------------------------------------------
# the evaluator


class Interp:
    def __init__(self, prog, max_steps=30_000_000, effect_modules=(), tolerant_effect_modules=()):
        self.prog = prog
        self.max_steps = max_steps
        self.steps = 0
        self._globals = {}  # module name -> {name: value}
        self._global_busy = set()
        self._classes = {}  # qn -> ClassRef
        self._clsns = {}  # qn -> namespace dict (class body evaluated lazily, statement by statement)
        self._clsstate = {}  # qn -> {attr: value} assigned on the class object / enum tables
        self._kind = {}
        self._scope = {}
        self._effects_done = set()
        self._clcache = {}
        self._clver = 0
        self._ycache = {}
        self._dc = {}
        self.effect_modules = set(effect_modules) | set(tolerant_effect_modules)  # repository modules whose import-time statements are replayed
        self.tolerant = set(tolerant_effect_modules) - set(effect_modules)  # ... of these, statements outside the vocabulary are skipped (and listed)
        self.skipped_effects = []
        self.depth = 0
        self.ext = self._ext_modules()
        self.builtins = self._builtins()
        if sys.getrecursionlimit() < 6000:
            sys.setrecursionlimit(6000)

    # -- helpers ----------------------------------------------------------------
    def tick(self, n=1):
        self.steps += n
        if self.steps > self.max_steps:
            raise Unsupported("evaluation budget of %d steps exhausted" % self.max_steps)

    def throw(self, hostcls, *args):
        raise Raised(hostcls(*args))

    def scope_of(self, node):
        r = self._scope.get(id(node))
        if r is None:
            r = self._scope[id(node)] = _assigned_names(node)
        return r

    # -- exceptions ---------------------------------------------------------------
    def exc_names(self, exc):
        """class names (most derived first) of an interpreted exception"""
        if isinstance(exc, INST):
            return [q for q in self.prog.mro(exc._k_cref.qn)]
        out = []
        for c in type(exc).__mro__:
            out.append("struct.error" if c is struct.error else ("binascii.Error" if c is binascii.Error else c.__name__))
        return out

    def exc_matches(self, exc, handler_type):
        if isinstance(handler_type, tuple):
            return any(self.exc_matches(exc, t) for t in handler_type)
        names = self.exc_names(exc)
        if isinstance(handler_type, ClassRef):
            return handler_type.qn in names
        if isinstance(handler_type, type) and issubclass(handler_type, BaseException):
            if isinstance(exc, BaseException):
                return isinstance(exc, handler_type)
            return handler_type.__name__ in names or (handler_type is struct.error and "struct.error" in names)
        raise Unsupported("except clause names something that is not an exception class: %r" % (handler_type,))

    # -- modules --------------------------------------------------------------------
    def module(self, name):
        if name not in self.prog.modules:
            raise Unsupported("no repository module %s" % name)
        return self.prog.modules[name]

    def _module_bindings(self, m):
        """name -> (statement binding it, conditional?) for a name bound by one top-level statement;
        name -> ("multi", candidates) for a name bound by several, candidates = [(statement, conditional?, arms)] with
        arms = the (if-statement, arm, test, polarity) tuples the statement sits under, or None where the bindings are
        not simple statements.  Conditional blocks are flattened; of a try statement the body's bindings count (the
        handlers hold fallback definitions)."""
        key = "bind:" + m.name
        b = self._scope.get(key)
        if b is not None:
            return b
        b = {}

        def add(name, st, cond, arms, first_wins=False):
            prev = b.get(name)
            if prev is None:
                b[name] = (st, cond, arms)
            elif prev[0] is st:
                return
            elif prev[0] == "multi":
                if prev[1] is not None and not first_wins:
                    prev[1].append((st, cond, arms))
            elif first_wins and not _exclusive(prev[2], arms):
                return
            else:
                b[name] = ("multi", [prev, (st, cond, arms)])

        def scan(body, cond, arms):
            for st in body:
                if isinstance(st, (ast.FunctionDef, ast.AsyncFunctionDef, ast.ClassDef)):
                    add(st.name, st, cond, arms)
                elif isinstance(st, ast.Assign):
                    for t in st.targets:
                        for n in ast.walk(t):
                            if isinstance(n, ast.Name) and isinstance(n.ctx, ast.Store):
                                add(n.id, st, cond, arms)
                elif isinstance(st, ast.AnnAssign) and isinstance(st.target, ast.Name) and st.value is not None:
                    add(st.target.id, st, cond, arms)
                elif isinstance(st, ast.AugAssign) and isinstance(st.target, ast.Name):
                    b[st.target.id] = ("multi", None)
                elif isinstance(st, (ast.Import, ast.ImportFrom)):
                    for a in st.names:
                        nm = (a.asname or a.name).split(".")[0]
                        add(nm, st, cond, arms, first_wins=True)
                elif isinstance(st, ast.If):
                    scan(st.body, True, arms + ((id(st), 0, st.test, True),))
                    scan(st.orelse, True, arms + ((id(st), 1, st.test, False),))
                elif isinstance(st, ast.Try):
                    if st.handlers and not self._try_body_completes(m, st.body):
                        # whether the body completes depends on the host (an optional dependency, a platform constant):
                        # every name the statement binds is refused on use, none is guessed
                        for n in ast.walk(st):
                            if isinstance(n, ast.Name) and isinstance(n.ctx, ast.Store):
                                b[n.id] = ("multi", None)
                            elif isinstance(n, (ast.FunctionDef, ast.AsyncFunctionDef, ast.ClassDef)):
                                b[n.name] = ("multi", None)
                            elif isinstance(n, (ast.Import, ast.ImportFrom)):
                                for a in n.names:
                                    b[(a.asname or a.name).split(".")[0]] = ("multi", None)
                        continue
                    scan(st.body, cond, arms)
                    scan(st.orelse, cond, arms)
                elif isinstance(st, (ast.For, ast.While, ast.With, ast.Match)):
                    for n in ast.walk(st):
                        if isinstance(n, ast.Name) and isinstance(n.ctx, ast.Store):
                            b[n.id] = ("multi", None)

        scan(m.tree.body, False, ())
        self._scope["arms:" + m.name] = {k: v[2] for k, v in b.items() if v[0] != "multi" and v[2]}
        b = {k: (v if v[0] == "multi" else (v[0], v[1])) for k, v in b.items()}
        self._scope[key] = b
        return b

    def _try_body_completes(self, m, body):
        """the body of a module-level try statement cannot raise: it only imports modules that certainly exist (modules
        of the repository, names of the standard-library models of this evaluator), defines functions / classes and
        binds constants"""
        for st in body:
            if isinstance(st, ast.Import):
                for a in st.names:
                    if not (a.name in self.prog.modules or a.name.split(".")[0] in self.ext):
                        return False
            elif isinstance(st, ast.ImportFrom):
                if st.level:
                    pkgparts = m.name.split(".") if m.is_pkg else m.name.split(".")[:-1]
                    modname = ".".join(pkgparts[: len(pkgparts) - (st.level - 1)] + ([st.module] if st.module else []))
                else:
                    modname = st.module or ""
                for a in st.names:
                    if modname in self.prog.modules:
                        if not (modname + "." + a.name in self.prog.modules or a.name in self._module_bindings(self.prog.modules[modname])):
                            return False
                    elif not (modname in self.ext and a.name in self.ext[modname].attrs):
                        return False
            elif isinstance(st, (ast.FunctionDef, ast.AsyncFunctionDef, ast.ClassDef)):
                if st.decorator_list:
                    return False
            elif isinstance(st, (ast.Assign, ast.AnnAssign)):
                if st.value is not None and not isinstance(st.value, ast.Constant):
                    return False
            elif isinstance(st, ast.Pass) or (isinstance(st, ast.Expr) and isinstance(st.value, ast.Constant)):
                continue
            else:
                return False
        return True

    def _select_binding(self, m, name, cands):
        """several top-level statements bind the name.  Where every two of them sit in different arms of one `if`
        statement (a conditional definition: exactly one of them is executed when the module is imported) the tests
        are evaluated and the one executed is the binding; anything else (re-binding in sequence, loops) is refused."""
        if cands is None or not all(_exclusive(x[2], y[2]) for i, x in enumerate(cands) for y in cands[i + 1:]):
            raise Unsupported("module global %s.%s is bound more than once" % (m.name, name))
        if any(isinstance(c[0], ast.ClassDef) for c in cands):
            raise Unsupported("class %s.%s is defined conditionally" % (m.name, name))
        fr = Frame(set(), None, m)
        for st, cond, arms in cands:
            if all(bool(self.truth(self.eval(test, fr))) == pol for _i, _a, test, pol in arms):
                return st, cond
        raise KeyError(name)

    def global_lookup(self, modname, name, default=KeyError):
        self.run_effects(modname)
        g = self._globals.setdefault(modname, {})
        if name in g:
            v = g[name]
            if isinstance(v, Poison):
                raise Unsupported(v.why)
            return v
        m = self.module(modname)
        b = self._module_bindings(m)
        if name not in b:
            if name in ("__name__",):
                return modname
            if default is KeyError:
                raise KeyError(name)
            return default
        st, cond = b[name]
        key = (modname, name)
        if key in self._global_busy:
            raise Unsupported("cyclic definition of module global %s.%s" % key)
        self._global_busy.add(key)
        try:
            if st == "multi":
                try:
                    st, cond = self._select_binding(m, name, cond)
                except KeyError:
                    if default is KeyError:
                        raise
                    return default
            elif cond:
                # bound under `if` statements only: bound iff their tests hold when the module is imported
                arms = self._scope["arms:" + modname].get(name, ())
                cfr = Frame(set(), None, m)
                if not all(bool(self.truth(self.eval(test, cfr))) == pol for _i, _a, test, pol in arms):
                    if default is KeyError:
                        raise KeyError(name)
                    return default
            fr = Frame(set(), None, m)
            if isinstance(st, (ast.FunctionDef, ast.AsyncFunctionDef)):
                v = self.make_function(st, fr)
                v = self.apply_decorators(st, v, fr)
                g[name] = v
            elif isinstance(st, ast.ClassDef):
                g[name] = self.classref(modname + "." + name)
            elif isinstance(st, (ast.Import, ast.ImportFrom)):
                g[name] = self.import_binding(m, name)
            elif isinstance(st, ast.Assign):
                if cond and not (len(st.targets) == 1 and isinstance(st.targets[0], ast.Name)):
                    raise Unsupported("conditional module-level binding of %s.%s" % (modname, name))
                val = self.eval(st.value, fr)
                for t in st.targets:
                    self._bind_global_target(g, t, val)
            else:  # AnnAssign
                g[name] = self.eval(st.value, fr)
        finally:
            self._global_busy.discard(key)
        if name not in g:
            raise Unsupported("could not bind module global %s.%s" % (modname, name))
        return g[name]

    def _bind_global_target(self, g, t, val):
        if isinstance(t, ast.Name):
            g[t.id] = val
        elif isinstance(t, (ast.Tuple, ast.List)):
            vals = list(self.iterate(val))
            if any(isinstance(x, ast.Starred) for x in t.elts) or len(vals) != len(t.elts):
                raise Unsupported("module-level unpacking")
            for x, v in zip(t.elts, vals):
                self._bind_global_target(g, x, v)
        else:
            raise Unsupported("module-level store to %s" % ast.unparse(t))

    def import_binding(self, m, name):
        tgt = m.imports.get(name)
        if tgt is None:
            raise Unsupported("import of %s in %s not indexed" % (name, m.name))
        return self.resolve_qualified(tgt)

    def resolve_qualified(self, q):
        if q in self.prog.modules:
            return ModuleVal(q)
        parts = q.split(".")
        if parts[0] == PKG:
            for i in range(len(parts) - 1, 0, -1):
                mod = ".".join(parts[:i])
                if mod in self.prog.modules:
                    v = self.global_lookup_or_submodule(mod, parts[i])
                    for p in parts[i + 1:]:
                        v = self.getattr(v, p)
                    return v
            raise Unsupported("cannot resolve %s" % q)
        if parts[0] in self.ext:
            v = self.ext[parts[0]]
            for p in parts[1:]:
                v = self.getattr(v, p)
            return v
        return Poison("external module %s has no model in the evaluator" % q)

    def global_lookup_or_submodule(self, mod, name):
        try:
            return self.global_lookup(mod, name)
        except KeyError:
            if mod + "." + name in self.prog.modules:
                return ModuleVal(mod + "." + name)
            raise Unsupported("%s has no global %s" % (mod, name))

    def run_effects(self, modname):
        """replay the import-time effect statements (calls, loops) of the declared modules, once"""
        if modname not in self.effect_modules or modname in self._effects_done:
            return
        self._effects_done.add(modname)
        m = self.module(modname)
        fr = Frame(set(), None, m)
        for st in m.tree.body:
            if isinstance(st, (ast.FunctionDef, ast.AsyncFunctionDef, ast.ClassDef, ast.Import, ast.ImportFrom, ast.Assign, ast.AnnAssign, ast.Pass)):
                continue
            if isinstance(st, ast.Expr) and isinstance(st.value, ast.Constant):
                continue
            if modname in self.tolerant:
                try:
                    sig = self.exec_stmt(st, fr)
                except (Unsupported, Raised) as e:
                    self.skipped_effects.append("%s:%d %s" % (modname, st.lineno, e if isinstance(e, Unsupported) else "raised %s" % self.exc_names(e.exc)[0]))
                    continue
            else:
                sig = self.exec_stmt(st, fr)
            if sig is not None:
                raise Unsupported("control flow leaves module level of %s" % modname)
            # loop variables etc. become globals
            for k, v in fr.locals.items():
                self._globals.setdefault(modname, {})[k] = v

    # -- classes ------------------------------------------------------------------------
    def classref(self, qn):
        c = self._classes.get(qn)
        if c is None:
            if qn not in self.prog.classes:
                raise Unsupported("no repository class %s" % qn)
            c = self._classes[qn] = ClassRef(self, qn)
            self._meta_init(c)
        return c

    def _meta_init(self, c):
        """a repository metaclass's __init__ runs when the class is created (it typically adds class-level state)"""
        for q in self.prog.mro(c.qn):
            ci = self.prog.classes.get(q)
            if ci is None:
                continue
            for kw in ci.node.keywords:
                if kw.arg != "metaclass":
                    continue
                mq = self.prog.resolve_in_module(ci.module, ast.unparse(kw.value))
                if mq not in self.prog.classes:
                    return
                for k in self.prog.mro(mq):
                    mi = self.prog.classes.get(k)
                    if mi is not None and "__init__" in mi.methods:
                        fr = Frame(set(), None, mi.module, clsns={})
                        f = self.make_function(mi.methods["__init__"].node, fr, owner=k)
                        self.call_function(f, [c, c.qn.split(".")[-1], (), {}], {})
                        return
                return

    def mro(self, cref):
        if isinstance(cref, NTBase):
            return []
        r = self._scope.get(("mro", cref.qn))
        if r is None:
            r = self._scope[("mro", cref.qn)] = list(self.prog.mro(cref.qn))
        return r

    def class_ns(self, qn):
        """namespace of a repository class: its body evaluated statement by statement (definitions only)"""
        ns = self._clsns.get(qn)
        if ns is not None:
            return ns
        ci = self.prog.classes[qn]
        ns = self._clsns[qn] = {}
        self._clver += 1
        fr = Frame(set(), None, ci.module, clsns=ns)
        fr.func = None
        enum_like = self.kind_of(qn) == "enum"
        self._exec_class_body(ci.node.body, fr, qn, enum_like)
        if qn in self._dc:
            self._dataclass_finish(qn, ns)
        self._clver += 1
        return ns

    def _exec_class_body(self, body, fr, qn, enum_like):
        ns = fr.clsns
        for st in body:
            try:
                if isinstance(st, (ast.FunctionDef, ast.AsyncFunctionDef)):
                    f = self.make_function(st, fr, owner=qn)
                    ns[st.name] = self.apply_decorators(st, f, fr)
                elif isinstance(st, ast.ClassDef):
                    ns[st.name] = self.classref(qn + "." + st.name)
                elif isinstance(st, ast.Assign):
                    if enum_like and all(isinstance(t, ast.Name) and not t.id.startswith("_") for t in st.targets):
                        ns.setdefault("__members__src", []).append(st)
                        continue
                    v = self.eval(st.value, fr)
                    for t in st.targets:
                        if isinstance(t, ast.Name):
                            ns[t.id] = v
                        else:
                            raise Unsupported("class-level store to %s" % ast.unparse(t))
                elif isinstance(st, ast.AnnAssign):
                    if st.value is not None and isinstance(st.target, ast.Name):
                        ns[st.target.id] = self.eval(st.value, fr)
                elif isinstance(st, ast.If):
                    t = self.truth(self.eval(st.test, fr))
                    self._exec_class_body(st.body if t else st.orelse, fr, qn, enum_like)
                elif isinstance(st, (ast.Pass, ast.Expr)):
                    continue
                else:
                    raise Unsupported("class-level statement %s" % type(st).__name__)
            except Unsupported as e:
                for n in ast.walk(st):
                    if isinstance(n, ast.Name) and isinstance(n.ctx, ast.Store):
                        ns[n.id] = Poison("class attribute %s.%s: %s" % (qn, n.id, e))
                if isinstance(st, (ast.FunctionDef, ast.AsyncFunctionDef)):
                    ns[st.name] = Poison("method %s.%s: %s" % (qn, st.name, e))

    def class_lookup(self, cref, name, after=None):
        """(value, defining class qn) of a class attribute along the MRO (repository classes only)"""
        if isinstance(cref, NTBase):
            return None, None
        key = (cref.qn, name, after)
        hit = self._clcache.get(key)
        if hit is not None and hit[0] == self._clver:
            return hit[1]
        r = self._class_lookup(cref, name, after)
        self._clcache[key] = (self._clver, r)
        return r

    def _class_lookup(self, cref, name, after):
        started = after is None
        for q in self.mro(cref):
            if not started:
                if q == after:
                    started = True
                continue
            st = self._clsstate.get(q)
            if st is not None and name in st:
                return st[name], q
            if q in self.prog.classes:
                ns = self.class_ns(q)
                if name in ns:
                    v = ns[name]
                    if isinstance(v, Poison):
                        raise Unsupported(v.why)
                    return v, q
        return None, None

    def kind_of(self, qn):
        """'plain' | 'enum' | 'intenum' is folded into enum (int_mixin flag) | 'namedtuple' | 'exception' | 'external:<base>'"""
        k = self._kind.get(qn)
        if k is not None:
            return k[0]
        kind, extra = "plain", None
        for q in self.prog.mro(qn):
            if q in self.prog.classes:
                cnode = self.prog.classes[q].node
                if "__init_subclass__" in self.prog.classes[q].methods and q != qn:
                    # the hook runs when a subclass is *created*, i.e. in import order, which a lazily evaluated
                    # program does not have: refused rather than skipped
                    raise Unsupported("class %s is created through %s.__init_subclass__" % (qn, q))
                for dnode in cnode.decorator_list:
                    dparams = self._dataclass_decorator(dnode, self.prog.classes[q].module)
                    if dparams is None:
                        raise Unsupported("class %s is decorated (%s): this class decorator has no model in the evaluator" % (q, ast.unparse(dnode)))
                    self._dc[q] = dparams
                if any(b == "typing.NamedTuple" for b in self.prog.classes[q].bases) and kind == "plain":
                    kind, extra = "namedtuple", self._typed_namedtuple(q)
                for kw in cnode.keywords:
                    if kw.arg == "metaclass" and ast.unparse(kw.value).split(".")[-1] not in ("ABCMeta", "EnumMeta", "EnumType", "ExtensibleEnumMeta"):
                        mq = self.prog.resolve_in_module(self.prog.classes[q].module, ast.unparse(kw.value))
                        if mq in self.prog.classes and any(n in self.prog.classes[k].methods for k in self.prog.mro(mq) if k in self.prog.classes for n in ("__call__", "__new__", "__getattr__", "__getattribute__", "__setattr__", "__instancecheck__")):
                            raise Unsupported("class %s has the metaclass %s, which customises class behaviour" % (q, mq))
                for b in cnode.bases:
                    if isinstance(b, ast.Call):
                        ci = self.prog.classes[q]
                        v = self.eval(b, Frame(set(), None, ci.module))
                        if isinstance(v, NTBase):
                            kind, extra = "namedtuple", v
                        else:
                            raise Unsupported("class %s has a computed base" % q)
                continue
            last = q.split(".")[-1]
            if last in ("Enum", "IntEnum", "IntFlag", "Flag", "StrEnum", "ReprEnum"):
                if kind != "namedtuple":
                    kind = "enum"
                    extra = (extra or False) or last in ("IntEnum", "IntFlag")
            elif q in BUILTIN_EXC or last in BUILTIN_EXC:
                if kind == "plain":
                    kind = "exception"
            elif q == "typing.NamedTuple" and kind == "namedtuple":
                continue
            elif last in ("NamedTuple", "TypedDict"):
                kind, extra = "external", q
            elif last in ("object", "ABC", "Generic", "Protocol", "ABCMeta") or q.startswith("typing.") or "[" in q or q.startswith("abc."):
                continue
            elif last == "int":
                extra = True
            elif kind == "plain":
                kind, extra = "external", q
        self._kind[qn] = (kind, extra)
        return kind

    def kind_extra(self, qn):
        self.kind_of(qn)
        return self._kind[qn][1]

    def _typed_namedtuple(self, q):
        """class X(typing.NamedTuple): the annotated names of the body are the fields, their values the defaults --
        the same class-like value as collections.namedtuple("X", fields, defaults=...)"""
        ci = self.prog.classes[q]
        fields, defaults = [], []
        fr = Frame(set(), None, ci.module)
        for st in ci.node.body:
            if isinstance(st, ast.AnnAssign) and isinstance(st.target, ast.Name):
                fields.append(st.target.id)
                if st.value is not None:
                    defaults.append(self.eval(st.value, fr))
                elif defaults:
                    raise Unsupported("NamedTuple %s: field without default after a field with default" % q)
        return NTBase(q.split(".")[-1], fields, tuple(defaults))

    # -- dataclasses: the decorator is read syntactically (class decorators are not evaluated), the methods the host
    #    would generate are written here once, from the documented semantics of dataclasses.dataclass ------------------
    _DC_FLAGS = {"init": True, "repr": True, "eq": True, "order": False, "unsafe_hash": False, "frozen": False, "match_args": True, "kw_only": False, "slots": False, "weakref_slot": False}

    def _dataclass_decorator(self, dnode, module):
        target = dnode.func if isinstance(dnode, ast.Call) else dnode
        try:
            q = self.prog.resolve_in_module(module, ast.unparse(target))
        except Exception:
            return None
        if q != "dataclasses.dataclass":
            return None
        params = dict(self._DC_FLAGS)
        if isinstance(dnode, ast.Call):
            if dnode.args:
                return None
            for kw in dnode.keywords:
                if kw.arg not in params or not (isinstance(kw.value, ast.Constant) and isinstance(kw.value.value, bool)):
                    raise Unsupported("dataclass parameter %s is not a literal flag" % ast.unparse(kw))
                params[kw.arg] = kw.value.value
        return params

    def dataclass_params(self, qn):
        self.kind_of(qn)
        for q in self.prog.mro(qn):
            if q in self._dc:
                return self._dc[q]
        return None

    def dataclass_fields(self, cref):
        """[(name, default, default_factory, options)] in definition order, base classes first"""
        out = {}
        self.kind_of(cref.qn)
        for q in reversed(self.mro(cref)):
            if q in self._dc:
                for name, fld in self.class_ns(q).get("__k_dc_own__", ()):
                    out[name] = (name, fld.default, fld.default_factory, {"init": fld.init, "repr": fld.repr, "compare": fld.compare, "kw_only": fld.kw_only is True})
        return list(out.values())

    def _dataclass_finish(self, qn, ns):
        params = self._dc[qn]
        ci = self.prog.classes[qn]
        M = _dataclasses.MISSING
        own = []
        kw_only = params["kw_only"]
        for st in ci.node.body:
            if not (isinstance(st, ast.AnnAssign) and isinstance(st.target, ast.Name)):
                continue
            ann = ast.unparse(st.annotation)
            if "ClassVar" in ann:
                continue
            if ann.split(".")[-1] == "KW_ONLY":
                kw_only = True
                continue
            if "InitVar" in ann:
                raise Unsupported("dataclass %s uses InitVar" % qn)
            name = st.target.id
            v = ns.get(name, M) if st.value is not None else M
            if isinstance(v, Poison):
                raise Unsupported(v.why)
            if isinstance(v, DCField):
                fld = v
                if fld.default is not M:
                    ns[name] = fld.default
                else:
                    ns.pop(name, None)
            else:
                if isinstance(v, (list, dict, set)):
                    raise Unsupported("dataclass %s: mutable default for %s (the host refuses it)" % (qn, name))
                fld = DCField(default=v)
            if fld.kw_only is M:
                fld.kw_only = kw_only
            own.append((name, fld))
        ns["__k_dc_own__"] = own
        cref = self.classref(qn)
        I = self
        fields = lambda: I.dataclass_fields(cref)
        short = qn.split(".")[-1]

        def same_class(a, b):
            return isinstance(a, INST) and isinstance(b, INST) and a._k_cref is b._k_cref

        def values(o, which="compare"):
            return [I.getattr(o, f[0]) for f in fields() if f[3][which]]

        def init(o, *args, **kwargs):
            fl = [f for f in fields() if f[3]["init"]]
            pos = [f for f in fl if not f[3]["kw_only"]]
            if len(args) > len(pos):
                I.throw(TypeError, "%s.__init__() takes %d positional arguments but %d were given" % (short, len(pos) + 1, len(args) + 1))
            given = {f[0]: a for f, a in zip(pos, args)}
            names = {f[0] for f in fl}
            for k, v in kwargs.items():
                if k not in names:
                    I.throw(TypeError, "%s.__init__() got an unexpected keyword argument %r" % (short, k))
                if k in given:
                    I.throw(TypeError, "%s.__init__() got multiple values for argument %r" % (short, k))
                given[k] = v
            store = I._raw_setattr if params["frozen"] else I.setattr
            for name, default, factory, opts in fields():
                if name in given:
                    val = given[name]
                elif factory is not M:
                    val = I.call(factory, [], {})
                elif default is not M:
                    val = default
                elif opts["init"]:
                    I.throw(TypeError, "%s.__init__() missing required argument %r" % (short, name))
                else:
                    continue
                store(o, name, val)
            post = I.find_dunder(o, "__post_init__")
            if post is not None:
                post()
            return None

        def repr_(o):
            return "%s(%s)" % (o._k_cref.qn.split(".")[-1], ", ".join("%s=%s" % (f[0], I.to_repr(I.getattr(o, f[0]))) for f in fields() if f[3]["repr"]))

        def eq(o, other):
            if not same_class(o, other):
                return NotImplemented
            return all(I.truth(I.equals(a, b)) for a, b in zip(values(o), values(other)))

        def order(op, on_equal):
            def cmp(o, other):
                if not same_class(o, other):
                    return NotImplemented
                for a, b in zip(values(o), values(other)):
                    if not I.truth(I.equals(a, b)):
                        return I.truth(I.compare(op(), a, b))
                return on_equal
            return cmp

        def frozen_set(o, name, val):
            I.throw(_dataclasses.FrozenInstanceError, "cannot assign to field %r" % name)

        def frozen_del(o, name):
            I.throw(_dataclasses.FrozenInstanceError, "cannot delete field %r" % name)

        def hash_(o):
            try:
                return hash(tuple(values(o)))
            except TypeError as ex:
                raise Raised(ex)

        def unhashable(o):
            I.throw(TypeError, "unhashable type: %r" % short)

        def put(name, fn):
            if name not in ns:
                ns[name] = SynthMethod("%s.%s" % (short, name), fn)

        if params["init"]:
            put("__init__", init)
        if params["repr"]:
            put("__repr__", repr_)
        if params["eq"]:
            put("__eq__", eq)
        if params["order"]:
            for name, op, oneq in (("__lt__", ast.Lt, False), ("__le__", ast.LtE, True), ("__gt__", ast.Gt, False), ("__ge__", ast.GtE, True)):
                if name in ns:
                    I.throw(TypeError, "Cannot overwrite attribute %s in class %s" % (name, short))
                put(name, order(op, oneq))
        if params["frozen"]:
            put("__setattr__", frozen_set)
            put("__delattr__", frozen_del)
        if params["unsafe_hash"] or (params["eq"] and params["frozen"]):
            put("__hash__", hash_)
        elif params["eq"]:
            put("__hash__", unhashable)
        if params["match_args"] and "__match_args__" not in ns:
            ns["__match_args__"] = tuple(name for name, fld in self._dc_all_own(qn, own) if fld.init and fld.kw_only is not True)

    def _dc_all_own(self, qn, own):
        out = {}
        for q in reversed(self.prog.mro(qn)):
            if q == qn:
                for name, fld in own:
                    out[name] = (name, fld)
            elif q in self._dc:
                for name, fld in self.class_ns(q).get("__k_dc_own__", ()):
                    out[name] = (name, fld)
        return list(out.values())

    # enum tables
    def enum_state(self, cref):
        st = self._clsstate.setdefault(cref.qn, {})
        if "_value2member_map_" in st:
            return st
        self._clver += 1
        v2m, mm = {}, {}
        st["_value2member_map_"] = v2m
        st["_member_map_"] = mm
        st["_member_names_"] = []
        int_mixin = bool(self.kind_extra(cref.qn))
        # members of this class only (an enum with members cannot be subclassed)
        ns = self.class_ns(cref.qn)
        ci = self.prog.classes[cref.qn]
        fr = Frame(set(), None, ci.module, clsns=ns)
        last = 0
        for a in ns.get("__members__src", []):
            val = self.eval(a.value, fr)
            if isinstance(val, (Property, FuncVal, ClassMethod, StaticMethod)):
                for t in a.targets:
                    ns[t.id] = val
                continue
            if val is _AUTO:
                val = last + 1
            if isinstance(val, int):
                last = val
            for t in a.targets:
                try:
                    existing = v2m.get(val)
                except TypeError:
                    existing = None
                if existing is not None:
                    mm[t.id] = existing
                    continue
                if int_mixin:
                    if not isinstance(val, int):
                        raise Unsupported("non-integer member in integer enum %s" % cref.qn)
                    mem = IntInst(val, cref)
                else:
                    mem = Obj(cref)
                mem._k_attrs["_value_"] = val
                mem._k_attrs["_name_"] = t.id
                try:
                    v2m[val] = mem
                except TypeError:
                    pass
                mm[t.id] = mem
                st["_member_names_"].append(t.id)
        self._clver += 1
        return st

    def enum_call(self, cref, args, kwargs):
        if kwargs or len(args) != 1:
            raise Unsupported("functional enum API on %s" % cref.qn)
        st = self.enum_state(cref)
        v = args[0]
        if isinstance(v, INST) and v._k_cref is cref:
            return v
        try:
            if v in st["_value2member_map_"]:
                return st["_value2member_map_"][v]
        except TypeError:
            pass
        f, _ = self.class_lookup(cref, "_missing_")
        res = None
        if f is not None:
            if isinstance(f, ClassMethod):
                res = self.call(f.f, [cref, v], {})
            elif isinstance(f, StaticMethod):
                res = self.call(f.f, [v], {})
            else:
                res = self.call(f, [cref, v], {})
        if isinstance(res, INST) and cref.qn in self.mro(res._k_cref):
            return res
        if res is None:
            self.throw(ValueError, "%r is not a valid %s" % (v, cref.qn.split(".")[-1]))
        self.throw(TypeError, "error in %s._missing_: returned %r instead of None or a valid member" % (cref.qn, res))

    # -- instantiation -----------------------------------------------------------------------
    def instantiate(self, cref, args, kwargs):
        self.tick()
        kind = self.kind_of(cref.qn)
        if kind == "enum":
            return self.enum_call(cref, args, kwargs)
        new, newq = self.class_lookup(cref, "__new__")
        if kind == "namedtuple":
            nt = self.kind_extra(cref.qn)
            if new is not None:
                f = new.f if isinstance(new, StaticMethod) else new
                o = self.call(f, [cref] + args, kwargs)
            else:
                o = self.nt_new(cref, nt, args, kwargs)
            if isinstance(o, INST) and cref.qn in self.mro(o._k_cref):
                init, _ = self.class_lookup(cref, "__init__")
                if init is not None:
                    self.call(init, [o] + args, kwargs)
            return o
        if kind == "external":
            raise Unsupported("class %s derives from %s, which the evaluator does not model" % (cref.qn, self.kind_extra(cref.qn)))
        if new is not None:
            f = new.f if isinstance(new, StaticMethod) else new
            o = self.call(f, [cref] + args, kwargs)
            if not (isinstance(o, INST) and cref.qn in self.mro(o._k_cref)):
                return o
        else:
            o = Obj(cref)
        init, _ = self.class_lookup(cref, "__init__")
        if init is not None:
            r = self.call(init, [o] + args, kwargs)
            if r is not None:
                self.throw(TypeError, "__init__() should return None")
        elif kind == "exception":
            if kwargs:
                self.throw(TypeError, "exception takes no keyword arguments")
        elif (args or kwargs) and new is None:
            self.throw(TypeError, "%s() takes no arguments" % cref.qn.split(".")[-1])
        if kind == "exception":
            o._k_attrs.setdefault("args", tuple(args))
        return o

    def nt_new(self, cref, nt, args, kwargs):
        fields = nt.fields
        if len(args) > len(fields):
            self.throw(TypeError, "%s() takes %d positional arguments but %d were given" % (nt.name, len(fields), len(args)))
        vals = dict(zip(fields, args))
        for k, v in kwargs.items():
            if k not in fields:
                self.throw(TypeError, "%s() got an unexpected keyword argument %r" % (nt.name, k))
            if k in vals:
                self.throw(TypeError, "%s() got multiple values for argument %r" % (nt.name, k))
            vals[k] = v
        nd = len(nt.defaults)
        for i, f in enumerate(fields):
            if f not in vals:
                j = i - (len(fields) - nd)
                if j >= 0:
                    vals[f] = nt.defaults[j]
                else:
                    self.throw(TypeError, "%s() missing required argument %r" % (nt.name, f))
        return TupleInst([vals[f] for f in fields], cref)

    # -- attributes -----------------------------------------------------------------------------
    def find_dunder(self, obj, name):
        """bound interpreted special method of an instance, or None"""
        if not isinstance(obj, INST) or isinstance(obj._k_cref, NTBase):
            return None
        f, _ = self.class_lookup(obj._k_cref, name)
        if f is None:
            return None
        if isinstance(f, (FuncVal, SynthMethod)):
            return BoundMethod(f, obj)
        if isinstance(f, StaticMethod):
            return f.f
        if isinstance(f, ClassMethod):
            return BoundMethod(f.f, obj._k_cref)
        return None

    def _host_attr(self, v, name):
        if name.startswith("__") and name not in ("__len__", "__name__", "__doc__", "__contains__", "__getitem__", "__iter__", "__str__", "__repr__", "__eq__", "__hash__", "__int__", "__index__", "__add__"):
            raise Unsupported("special attribute %s on a %s" % (name, type(v).__name__))
        try:
            return getattr(v, name)
        except AttributeError as e:
            raise Raised(e)

    def getattr(self, v, name):
        if isinstance(v, INST):
            return self._inst_getattr(v, name)
        if isinstance(v, ClassRef):
            return self._class_getattr(v, name)
        if isinstance(v, ModuleVal):
            try:
                return self.global_lookup_or_submodule(v.name, name)
            except Unsupported:
                if name in self._module_bindings(self.module(v.name)) or v.name + "." + name in self.prog.modules:
                    raise
                self.throw(AttributeError, "module %s has no attribute %s" % (v.name, name))
        if isinstance(v, ExtModule):
            if name in v.attrs:
                r = v.attrs[name]
                if isinstance(r, Poison):
                    raise Unsupported(r.why)
                return r
            raise Unsupported("%s.%s has no model in the evaluator" % (v.name, name))
        if isinstance(v, Poison):
            raise Unsupported(v.why)
        if isinstance(v, SuperProxy):
            return self._super_getattr(v, name)
        if isinstance(v, NTBase):
            if name == "_fields":
                return v.fields
            if name == "_make":
                return Builtin("_make", lambda it: TupleInst(list(it), v))
            if name == "__name__":
                return v.name
            self.throw(AttributeError, name)
        if isinstance(v, FuncVal):
            if name == "__name__":
                return v.name
            if name == "__doc__":
                return ast.get_docstring(v.node) if not isinstance(v.node, ast.Lambda) else None
            if name == "__qualname__":
                return v.name
            self.throw(AttributeError, "function has no attribute %s" % name)
        if isinstance(v, BoundMethod):
            if name == "__self__":
                return v.obj
            if name == "__func__":
                return v.func
            return self.getattr(v.func, name)
        if isinstance(v, Property):
            if name in ("fget", "fset", "fdel"):
                return getattr(v, name)
            if name == "__doc__":
                return v.doc
            if name == "setter":
                return Builtin("setter", lambda f: Property(v.fget, f, v.fdel, v.doc))
            if name == "getter":
                return Builtin("getter", lambda f: Property(f, v.fset, v.fdel, v.doc))
            if name == "deleter":
                return Builtin("deleter", lambda f: Property(v.fget, v.fset, f, v.doc))
            self.throw(AttributeError, name)
        if isinstance(v, Stub):
            if name in v._k_stub:
                return v._k_stub[name]
            self.throw(AttributeError, "%s has no attribute %s" % (v._k_name, name))
        if isinstance(v, AutoStub):
            if name.startswith("__") and name.endswith("__"):
                self.throw(AttributeError, name)
            k = v._k_kids.get(name)
            if k is None:
                k = v._k_kids[name] = AutoStub(v._k_name + "." + name, v._k_log)
            return k
        if isinstance(v, NullLogger):
            return Builtin("log", lambda *a, **k: None) if name not in ("getChild",) else Builtin("getChild", lambda *a: v)
        if v is int and name == "__new__":
            return Builtin("int.__new__", self._int_new)
        if v is object and name == "__new__":
            return Builtin("object.__new__", self._object_new)
        if v is object and name == "__setattr__":
            return Builtin("object.__setattr__", lambda o, k, val: self._raw_setattr(o, k, val))
        if v is object and name == "__init__":
            return Builtin("object.__init__", lambda *a, **k: None)
        if isinstance(v, type):
            if v in SAFE_TYPES or v in HOST_EXC.values() or v is object or v is struct.error or v is type:
                if name in ("__name__", "__qualname__"):
                    return v.__name__
                if name.startswith("__") and name.endswith("__") and name in ("__str__", "__repr__", "__eq__", "__hash__", "__init__", "__len__", "__getitem__", "__setitem__", "__contains__", "__add__", "__int__"):
                    return getattr(v, name)
                return self._host_attr(v, name)
            if v in _ITER_TYPES and not name.startswith("_"):
                return self._host_attr(v, name)
            raise Unsupported("attribute %s of host type %s" % (name, v.__name__))
        if isinstance(v, BaseException):
            if name == "args":
                return v.args
            if name in ("errno", "strerror", "reason", "start", "end", "object", "encoding", "__cause__", "__context__", "value"):
                return self._host_attr(v, name)
            if name == "with_traceback":
                return Builtin("with_traceback", lambda tb: v)
            raise Unsupported("attribute %s of a host exception" % name)
        if isinstance(v, SAFE_TYPES) or isinstance(v, _ITER_TYPES) or isinstance(v, functools.partial):
            return self._host_attr(v, name)
        if isinstance(v, Builtin):
            if name == "__name__":
                return v.name
        if v is _VERSION_INFO_HOLDER:
            return getattr(sys.version_info, name)
        raise Unsupported("attribute %s of a %s value" % (name, type(v).__name__))

    def _int_new(self, cls, value=0):
        if isinstance(cls, ClassRef) and (self.kind_extra(cls.qn) is True or "int" in [q.split(".")[-1] for q in self.mro(cls)]):
            return IntInst(value, cls)
        if cls is int:
            return int(value)
        raise Unsupported("int.__new__ for %r" % (cls,))

    def _object_new(self, cls, *a, **k):
        if isinstance(cls, ClassRef):
            kind = self.kind_of(cls.qn)
            if kind in ("plain", "exception"):
                return Obj(cls)
            if kind == "enum" and not self.kind_extra(cls.qn):
                return Obj(cls)
        raise Unsupported("object.__new__ for %r" % (cls,))

    def _no_descriptor(self, cv, name):
        if isinstance(cv, INST) and isinstance(cv._k_cref, ClassRef):
            for dn in ("__get__", "__set__", "__delete__"):
                if self.class_lookup(cv._k_cref, dn)[0] is not None:
                    raise Unsupported("attribute %s is a user-defined descriptor" % name)

    def _inst_getattr(self, o, name):
        cref = o._k_cref
        if isinstance(cref, ClassRef) and self.class_lookup(cref, "__getattribute__")[0] is not None:
            raise Unsupported("class %s defines __getattribute__" % cref.qn)
        cv, cq = self.class_lookup(cref, name)
        self._no_descriptor(cv, name)
        if isinstance(cv, Property):
            if cv.fget is None:
                self.throw(AttributeError, "unreadable attribute %s" % name)
            return self.call(cv.fget, [o], {})
        at = o._k_attrs
        if name in at:
            return at[name]
        if isinstance(cref, ClassRef) and self.kind_of(cref.qn) == "enum":
            if name == "name":
                if "_name_" in at:
                    return at["_name_"]
                self.throw(AttributeError, "_name_")
            if name == "value":
                if "_value_" in at:
                    return at["_value_"]
                self.throw(AttributeError, "_value_")
            mm = self.enum_state(cref)["_member_map_"]
            if name in mm and cv is None:
                return mm[name]
        if isinstance(o, TupleInst):
            nt = cref if isinstance(cref, NTBase) else self.kind_extra(cref.qn)
            if isinstance(nt, NTBase):
                if name in nt.fields:
                    return tuple.__getitem__(o, nt.fields.index(name))
                if name == "_fields":
                    return nt.fields
                if name == "_asdict":
                    return Builtin("_asdict", lambda: dict(zip(nt.fields, o)))
                if name == "_replace":
                    def _replace(**kw):
                        d = dict(zip(nt.fields, o))
                        for k in kw:
                            if k not in d:
                                self.throw(ValueError, "Got unexpected field names: %r" % [k])
                        d.update(kw)
                        return TupleInst([d[f] for f in nt.fields], cref)
                    return Builtin("_replace", _replace)
        if cv is not None:
            if isinstance(cv, (FuncVal, SynthMethod)):
                return BoundMethod(cv, o)
            if isinstance(cv, ClassMethod):
                return BoundMethod(cv.f, cref)
            if isinstance(cv, StaticMethod):
                return cv.f
            return cv
        if name == "__class__":
            return cref
        if name == "__dict__":
            return at
        if isinstance(o, IntInst) and not name.startswith("_"):
            try:
                return getattr(int(o), name)
            except AttributeError:
                pass
        if isinstance(o, TupleInst) and name in ("count", "index"):
            return getattr(tuple(o), name)
        if isinstance(o, Obj) and isinstance(cref, ClassRef) and self.kind_of(cref.qn) == "exception" and name == "with_traceback":
            return Builtin("with_traceback", lambda tb: o)
        ga, _ = self.class_lookup(cref, "__getattr__")
        if isinstance(ga, FuncVal):
            return self.call(ga, [o, name], {})
        fb = at.get("__k_fallback__")
        if fb is not None and not (name.startswith("__") and name.endswith("__")):
            v = at[name] = fb(name)
            return v
        self.throw(AttributeError, "%r object has no attribute %r" % (getattr(cref, "qn", "?").split(".")[-1], name))

    def _class_getattr(self, c, name):
        if self.kind_of(c.qn) == "enum":
            st = self.enum_state(c)
            if name in st["_member_map_"]:
                return st["_member_map_"][name]
            if name == "__members__":
                return dict(st["_member_map_"])
        cv, cq = self.class_lookup(c, name)
        self._no_descriptor(cv, name)
        if cv is not None or cq is not None:
            if isinstance(cv, ClassMethod):
                return BoundMethod(cv.f, c)
            if isinstance(cv, StaticMethod):
                return cv.f
            return cv
        if name == "__name__" or name == "__qualname__":
            return c.qn.split(".")[-1]
        if name == "__module__":
            return self.prog.classes[c.qn].module.name
        if name == "__mro__":
            return tuple(self.classref(q) for q in self.mro(c) if q in self.prog.classes)
        if self.kind_of(c.qn) == "namedtuple":
            nt = self.kind_extra(c.qn)
            if name == "_fields":
                return nt.fields
            if name == "_make":
                return Builtin("_make", lambda it: TupleInst(list(it), c))
        self.throw(AttributeError, "type object %r has no attribute %r" % (c.qn.split(".")[-1], name))

    def _super_getattr(self, sp, name):
        obj = sp.obj
        cref = obj if isinstance(obj, ClassRef) else obj._k_cref
        cv, cq = self.class_lookup(cref, name, after=sp.owner)
        if cv is not None:
            if isinstance(cv, (FuncVal, SynthMethod)):
                return BoundMethod(cv, obj)
            if isinstance(cv, ClassMethod):
                return BoundMethod(cv.f, cref)
            if isinstance(cv, StaticMethod):
                return cv.f
            if isinstance(cv, Property):
                return self.call(cv.fget, [obj], {})
            return cv
        kind = self.kind_of(cref.qn)
        if name == "__init__":
            if kind == "exception":
                def _exc_init(*a, **k):
                    obj._k_attrs["args"] = tuple(a)
                return Builtin("Exception.__init__", _exc_init)
            return Builtin("object.__init__", lambda *a, **k: None)
        if name == "__setattr__":
            return Builtin("object.__setattr__", lambda k, v: self._raw_setattr(obj, k, v))
        if name == "__new__":
            if kind in ("plain", "exception"):
                return Builtin("object.__new__", self._object_new)
            if kind == "namedtuple":
                nt = self.kind_extra(cref.qn)
                return Builtin("tuple.__new__", lambda cls, *a, **k: self.nt_new(cls, nt, list(a), k))
            if kind == "enum" and self.kind_extra(cref.qn):
                return Builtin("int.__new__", self._int_new)
        if name in ("__eq__", "__ne__", "__hash__", "__repr__", "__str__") and isinstance(obj, (IntInst, TupleInst)):
            base = int if isinstance(obj, IntInst) else tuple
            return functools.partial(getattr(base, name), obj)
        if name == "__init_subclass__":
            return Builtin("__init_subclass__", lambda *a, **k: None)
        raise Unsupported("super().%s beyond the repository classes of %s" % (name, cref.qn))

    def _raw_setattr(self, o, name, val):
        if isinstance(o, INST):
            o._k_attrs[name] = val
        elif isinstance(o, ClassRef):
            self._clsstate.setdefault(o.qn, {})[name] = val
            self._clver += 1
        else:
            raise Unsupported("attribute store on a %s value" % type(o).__name__)

    def setattr(self, o, name, val):
        if isinstance(o, INST):
            cv, _ = self.class_lookup(o._k_cref, name)
            self._no_descriptor(cv, name)
            if isinstance(cv, Property):
                if cv.fset is None:
                    self.throw(AttributeError, "can't set attribute %r" % name)
                self.call(cv.fset, [o, val], {})
                return
            sa, _ = self.class_lookup(o._k_cref, "__setattr__")
            if isinstance(sa, (FuncVal, SynthMethod)):
                self.call(sa, [o, name, val], {})
                return
            if isinstance(o, Obj) and isinstance(o._k_cref, ClassRef):
                # __slots__ without __dict__: only declared names may be stored
                slots = self._slots(o._k_cref)
                if slots is not None and name not in slots:
                    self.throw(AttributeError, "%r object has no attribute %r" % (o._k_cref.qn.split(".")[-1], name))
            o._k_attrs[name] = val
            return
        if isinstance(o, ClassRef):
            self._clsstate.setdefault(o.qn, {})[name] = val
            self._clver += 1
            return
        if isinstance(o, ModuleVal):
            self._globals.setdefault(o.name, {})[name] = val
            return
        if isinstance(o, Poison):
            raise Unsupported(o.why)
        if isinstance(o, Stub):
            o._k_stub[name] = val
            return
        if isinstance(o, AutoStub):
            o._k_kids[name] = val
            return
        raise Unsupported("attribute store on a %s value" % type(o).__name__)

    def _slots(self, cref):
        """union of __slots__ along the MRO if *every* repository class declares them and no external base adds a dict"""
        out = set()
        for q in self.mro(cref):
            if q in self.prog.classes:
                ns = self.class_ns(q)
                if "__slots__" not in ns:
                    return None
                s = ns["__slots__"]
                if isinstance(s, str):
                    s = [s]
                try:
                    out.update(s)
                except TypeError:
                    return None
            elif q.split(".")[-1] != "object":
                return None
        return out

    def delattr(self, o, name):
        if isinstance(o, INST):
            cv, _ = self.class_lookup(o._k_cref, name)
            if isinstance(cv, Property):
                if cv.fdel is None:
                    self.throw(AttributeError, "can't delete attribute %r" % name)
                self.call(cv.fdel, [o], {})
                return
            da, _ = self.class_lookup(o._k_cref, "__delattr__")
            if isinstance(da, (FuncVal, SynthMethod)):
                self.call(da, [o, name], {})
                return
            if name in o._k_attrs:
                del o._k_attrs[name]
                return
            self.throw(AttributeError, name)
        raise Unsupported("attribute delete on a %s value" % type(o).__name__)

    def hasattr(self, o, name):
        try:
            self.getattr(o, name)
            return True
        except Raised as r:
            if self.exc_matches(r.exc, AttributeError):
                return False
            raise

    # -- protocols -------------------------------------------------------------------------------
    def truth(self, v):
        if isinstance(v, INST):
            f = self.find_dunder(v, "__bool__")
            if f is not None:
                return bool(f())
            f = self.find_dunder(v, "__len__")
            if f is not None:
                return f() != 0
            if isinstance(v, Obj):
                return True
            return bool(v)
        if isinstance(v, (ClassRef, FuncVal, BoundMethod, ModuleVal, ExtModule, Builtin, Property, NTBase, Stub, AutoStub)):
            return True
        if isinstance(v, Poison):
            raise Unsupported(v.why)
        return bool(v)

    def iterate(self, v):
        if isinstance(v, Obj) or (isinstance(v, INST) and self.find_dunder(v, "__iter__") is not None):
            f = self.find_dunder(v, "__iter__")
            if f is None:
                self.throw(TypeError, "object is not iterable")
            r = f()
            if isinstance(r, INST) and self.find_dunder(r, "__next__") is not None:
                return self._iter_via_next(r)
            if r is v:
                self.throw(TypeError, "iter() returned non-iterator")
            return self.iterate(r)
        if isinstance(v, ClassRef):
            if self.kind_of(v.qn) == "enum":
                st = self.enum_state(v)
                return iter([st["_member_map_"][n] for n in st["_member_names_"]])
            self.throw(TypeError, "type object is not iterable")
        if isinstance(v, Poison):
            raise Unsupported(v.why)
        if isinstance(v, SAFE_TYPES) or isinstance(v, _ITER_TYPES) or isinstance(v, (IntInst, TupleInst)):
            try:
                return iter(v)
            except TypeError as e:
                raise Raised(e)
        raise Unsupported("iteration over a %s value" % type(v).__name__)

    def _iter_via_next(self, o):
        """host iterator over an interpreted iterator object (a class with __next__)"""
        nxt = self.find_dunder(o, "__next__")

        def gen():
            while True:
                self.tick()
                try:
                    x = nxt()
                except Raised as r:
                    if self.exc_matches(r.exc, StopIteration):
                        return
                    raise
                yield x

        return gen()

    def next_of(self, it):
        """one step of a host iterator on behalf of the interpreted program -> (True, v) | (False, None)"""
        try:
            return True, next(it)
        except StopIteration:
            return False, None
        except Raised:
            raise
        except _PRIM_EXC as e:
            raise Raised(e)

    # -- functions ---------------------------------------------------------------------------------
    def make_function(self, node, fr, owner=None):
        a = node.args
        defaults = tuple(self.eval(d, fr) for d in a.defaults)
        kwd = {}
        for p, d in zip(a.kwonlyargs, a.kw_defaults):
            if d is not None:
                kwd[p.arg] = self.eval(d, fr)
        closure = fr if (fr.func is not None or fr.localnames or fr.locals) and fr.clsns is None else (fr.closure if fr.clsns is not None else None)
        if isinstance(node, ast.AsyncFunctionDef):
            # calling it would produce a coroutine: outside the vocabulary (checked at call time)
            pass
        return FuncVal(self, node, fr.module, closure, owner=owner, defaults=defaults, kwdefaults=kwd)

    def apply_decorators(self, node, f, fr):
        for d in reversed(node.decorator_list):
            dv = self.eval(d, fr)
            f = self.call(dv, [f], {})
        return f

    def bind_args(self, f, args, kwargs):
        node = f.node
        a = node.args
        pos = a.posonlyargs + a.args
        npos = len(pos)
        loc = {}
        if len(args) > npos:
            if a.vararg is None:
                self.throw(TypeError, "%s() takes %d positional arguments but %d were given" % (f.name, npos, len(args)))
            loc[a.vararg.arg] = tuple(args[npos:])
        elif a.vararg is not None:
            loc[a.vararg.arg] = ()
        for p, v in zip(pos, args):
            loc[p.arg] = v
        extra = {}
        posonly = {p.arg for p in a.posonlyargs}
        names = {p.arg for p in a.args} | {p.arg for p in a.kwonlyargs}
        for k, v in kwargs.items():
            if k in names and k not in posonly:
                if k in loc:
                    self.throw(TypeError, "%s() got multiple values for argument %r" % (f.name, k))
                loc[k] = v
            elif a.kwarg is not None:
                extra[k] = v
            else:
                self.throw(TypeError, "%s() got an unexpected keyword argument %r" % (f.name, k))
        if a.kwarg is not None:
            loc[a.kwarg.arg] = extra
        nd = len(f.defaults)
        for i, p in enumerate(pos):
            if p.arg not in loc:
                j = i - (npos - nd)
                if j >= 0:
                    loc[p.arg] = f.defaults[j]
                else:
                    self.throw(TypeError, "%s() missing required positional argument %r" % (f.name, p.arg))
        for p in a.kwonlyargs:
            if p.arg not in loc:
                if p.arg in f.kwdefaults:
                    loc[p.arg] = f.kwdefaults[p.arg]
                else:
                    self.throw(TypeError, "%s() missing required keyword-only argument %r" % (f.name, p.arg))
        return loc

    def call_function(self, f, args, kwargs):
        self.tick()
        node = f.node
        if isinstance(node, ast.AsyncFunctionDef):
            raise Unsupported("call of coroutine function %s" % f.name)
        localnames, _g = self.scope_of(node)
        fr = Frame(localnames, f.closure, f.module, func=f)
        fr.locals = self.bind_args(f, args, kwargs)
        if self.depth > 120:
            raise Unsupported("call depth exceeded in %s" % f.name)
        self.depth += 1
        try:
            if isinstance(node, ast.Lambda):
                return self.eval(node.body, fr)
            hy = self._scope.get(("yield", id(node)))
            if hy is None:
                hy = self._scope[("yield", id(node))] = _has_yield(node)
            if hy:
                return self.exec_gen_body(node.body, fr)
            sig = self.exec_block(node.body, fr)
            if sig is None:
                return None
            if sig.kind == "return":
                return sig.value
            raise Unsupported("break/continue outside loop in %s" % f.name)
        finally:
            self.depth -= 1

    def callable_ok(self, f):
        if isinstance(f, (FuncVal, BoundMethod, ClassRef, Builtin, NTBase)):
            return True
        if isinstance(f, functools.partial):
            return self.callable_ok(f.func)
        if f in _SAFE_CALLABLES:
            return True
        if isinstance(f, type) and (f in SAFE_TYPES or issubclass(f, BaseException) or f in _ITER_TYPES or f is object):
            return True
        s = getattr(f, "__self__", None)
        if isinstance(f, types.BuiltinFunctionType) or isinstance(f, types.MethodType):
            if s is not None and (isinstance(s, SAFE_TYPES) or isinstance(s, _ITER_TYPES) or isinstance(s, (IntInst, TupleInst)) or (isinstance(s, type) and s in SAFE_TYPES)):
                return True
        if isinstance(f, (types.WrapperDescriptorType, types.MethodDescriptorType, types.ClassMethodDescriptorType)):
            oc = getattr(f, "__objclass__", None)
            return oc in SAFE_TYPES or oc is object
        if isinstance(f, types.MethodWrapperType):
            return isinstance(s, SAFE_TYPES) or isinstance(s, (IntInst, TupleInst))
        if isinstance(f, (operator.attrgetter, operator.itemgetter, operator.methodcaller)):
            return True
        return False

    def call(self, f, args, kwargs):
        if isinstance(f, FuncVal):
            return self.call_function(f, args, kwargs)
        if isinstance(f, BoundMethod):
            if isinstance(f.func, FuncVal):
                return self.call_function(f.func, [f.obj] + list(args), kwargs)
            return self.call(f.func, [f.obj] + list(args), kwargs)
        if isinstance(f, ClassRef):
            return self.instantiate(f, list(args), kwargs)
        if isinstance(f, NTBase):
            return self.nt_new(f, f, list(args), kwargs)
        if isinstance(f, Poison):
            raise Unsupported(f.why)
        if isinstance(f, AutoStub):
            f._k_log.append((f._k_name, list(args), dict(kwargs)))
            return AutoStub(f._k_name + "()", f._k_log)
        if isinstance(f, INST):
            c = self.find_dunder(f, "__call__")
            if c is None:
                self.throw(TypeError, "object is not callable")
            return self.call(c, args, kwargs)
        sp = self._special.get(id(f))
        if sp is not None and sp[0] is f:
            return sp[1](*args, **kwargs)
        if not self.callable_ok(f):
            raise Unsupported("call of %r: no model in the evaluator" % (f,))
        self.tick()
        try:
            return f(*args, **kwargs)
        except Raised:
            raise
        except AnalysisError:
            raise
        except _PRIM_EXC as e:
            raise Raised(e)

    # -- expressions ---------------------------------------------------------------------------------
    def lookup(self, name, fr):
        f = fr
        while f is not None:
            if f.clsns is not None:
                if f is fr and name in f.clsns:
                    v = f.clsns[name]
                    if isinstance(v, Poison):
                        raise Unsupported(v.why)
                    return v
            elif name in f.localnames or name in f.locals:
                if name in f.locals:
                    v = f.locals[name]
                    if isinstance(v, Poison):
                        raise Unsupported(v.why)
                    return v
                if f is fr:
                    self.throw(UnboundLocalError, "cannot access local variable %r where it is not associated with a value" % name)
                self.throw(NameError, "cannot access free variable %r where it is not associated with a value in enclosing scope" % name)
            f = f.closure
        try:
            return self.global_lookup(fr.module.name, name)
        except KeyError:
            pass
        if name in self.builtins:
            return self.builtins[name]
        if hasattr(__import__("builtins"), name):
            raise Unsupported("builtin %s has no model in the evaluator" % name)
        self.throw(NameError, "name %r is not defined" % name)

    def store_name(self, name, val, fr):
        if fr.clsns is not None:
            fr.clsns[name] = val
            return
        node = fr.func.node if fr.func is not None else None
        if node is not None:
            _l, glob = self.scope_of(node)
            if name in glob:
                # global or nonlocal declaration
                f = fr.closure
                while f is not None:
                    if name in f.localnames and f.clsns is None:
                        f.locals[name] = val
                        return
                    f = f.closure
                self._globals.setdefault(fr.module.name, {})[name] = val
                return
        fr.locals[name] = val

    def eval(self, e, fr):
        m = self._EV.get(type(e))
        if m is None:
            raise Unsupported("expression %s is outside the evaluator's vocabulary" % type(e).__name__)
        return m(self, e, fr)

    def _e_const(self, e, fr):
        return e.value

    def _e_name(self, e, fr):
        return self.lookup(e.id, fr)

    def _e_attr(self, e, fr):
        return self.getattr(self.eval(e.value, fr), e.attr)

    def _e_tuple(self, e, fr):
        return tuple(self._elts(e.elts, fr))

    def _e_list(self, e, fr):
        return self._elts(e.elts, fr)

    def _e_set(self, e, fr):
        try:
            return set(self._elts(e.elts, fr))
        except TypeError as ex:
            raise Raised(ex)

    def _elts(self, elts, fr):
        out = []
        for x in elts:
            if isinstance(x, ast.Starred):
                out.extend(self.iterate(self.eval(x.value, fr)))
            else:
                out.append(self.eval(x, fr))
        return out

    def _e_dict(self, e, fr):
        d = {}
        try:
            for k, v in zip(e.keys, e.values):
                if k is None:
                    src = self.eval(v, fr)
                    if not isinstance(src, dict):
                        raise Unsupported("** of a non-dict in a dict display")
                    d.update(src)
                else:
                    kk = self.eval(k, fr)
                    d[kk] = self.eval(v, fr)
        except TypeError as ex:
            raise Raised(ex)
        return d

    def binop(self, op, l, r):
        host, dn, rdn = _BINOPS[op]
        if isinstance(l, INST):
            f = self.find_dunder(l, dn)
            if f is not None:
                res = f(r)
                if res is not NotImplemented:
                    return res
        if isinstance(r, INST):
            f = self.find_dunder(r, rdn)
            if f is not None:
                res = f(l)
                if res is not NotImplemented:
                    return res
        if isinstance(l, Obj) or isinstance(r, Obj):
            self.throw(TypeError, "unsupported operand type(s)")
        self._host_operands(l, r)
        try:
            return host(l, r)
        except _PRIM_EXC as ex:
            raise Raised(ex)
        except MemoryError:
            raise Unsupported("operand too large")

    def _host_operands(self, *vs):
        for v in vs:
            if not (isinstance(v, SAFE_TYPES) or isinstance(v, (IntInst, TupleInst)) or isinstance(v, _ITER_TYPES) or v is NotImplemented):
                if isinstance(v, Poison):
                    raise Unsupported(v.why)
                raise Unsupported("operator applied to a %s value" % type(v).__name__)

    def _e_binop(self, e, fr):
        l = self.eval(e.left, fr)
        r = self.eval(e.right, fr)
        if type(e.op) is ast.Pow and isinstance(r, int) and isinstance(l, int) and abs(r) > 4096:
            raise Unsupported("exponent too large")
        if type(e.op) is ast.LShift and isinstance(r, int) and r > 1 << 16:
            raise Unsupported("shift too large")
        if type(e.op) is ast.Mod and isinstance(l, (str, bytes)):
            return self._percent_format(l, r)
        return self.binop(type(e.op), l, r)

    def _percent_format(self, l, r):
        def conv(x):
            if isinstance(x, INST) or not isinstance(x, SAFE_TYPES):
                return _Fmt(self, x)
            return x
        if isinstance(r, tuple) and not isinstance(r, TupleInst):
            r = tuple(conv(x) for x in r)
        elif isinstance(r, dict):
            r = {k: conv(v) for k, v in r.items()}
        else:
            r = conv(r)
        try:
            return l % r
        except _PRIM_EXC as ex:
            raise Raised(ex)

    def _e_unary(self, e, fr):
        v = self.eval(e.operand, fr)
        if isinstance(e.op, ast.Not):
            return not self.truth(v)
        if isinstance(v, INST):
            dn = {ast.USub: "__neg__", ast.UAdd: "__pos__", ast.Invert: "__invert__"}[type(e.op)]
            f = self.find_dunder(v, dn)
            if f is not None:
                return f()
        self._host_operands(v)
        try:
            if isinstance(e.op, ast.USub):
                return -v
            if isinstance(e.op, ast.UAdd):
                return +v
            return ~v
        except _PRIM_EXC as ex:
            raise Raised(ex)

    def _e_boolop(self, e, fr):
        if isinstance(e.op, ast.And):
            v = True
            for x in e.values:
                v = self.eval(x, fr)
                if not self.truth(v):
                    return v
            return v
        v = False
        for x in e.values:
            v = self.eval(x, fr)
            if self.truth(v):
                return v
        return v

    def equals(self, l, r):
        if isinstance(l, Obj) or isinstance(r, Obj):
            if isinstance(l, Obj):
                f = self.find_dunder(l, "__eq__")
                if f is not None:
                    res = f(r)
                    if res is not NotImplemented:
                        return res
            if isinstance(r, Obj):
                f = self.find_dunder(r, "__eq__")
                if f is not None:
                    res = f(l)
                    if res is not NotImplemented:
                        return res
            return l is r
        if isinstance(l, (IntInst, TupleInst)):
            f = self.find_dunder(l, "__eq__")
            if f is not None:
                res = f(r)
                if res is not NotImplemented:
                    return res
        if isinstance(l, Poison) or isinstance(r, Poison):
            raise Unsupported((l if isinstance(l, Poison) else r).why)
        try:
            return l == r
        except _PRIM_EXC as ex:
            raise Raised(ex)

    def contains(self, container, item):
        if isinstance(container, INST):
            f = self.find_dunder(container, "__contains__")
            if f is not None:
                return self.truth(f(item))
            if isinstance(container, Obj):
                for x in self.iterate(container):
                    if x is item or self.truth(self.equals(x, item)):
                        return True
                return False
        if isinstance(container, ClassRef):
            if self.kind_of(container.qn) == "enum":
                st = self.enum_state(container)
                return any(item is m for m in st["_member_map_"].values()) or (not isinstance(item, INST) and item in st["_value2member_map_"])
            self.throw(TypeError, "argument of type 'type' is not iterable")
        self._host_operands(container)
        try:
            return item in container
        except _PRIM_EXC as ex:
            raise Raised(ex)

    def compare(self, op, l, r):
        t = type(op)
        if t is ast.Eq:
            return self.equals(l, r)
        if t is ast.NotEq:
            if isinstance(l, INST):
                f = self.find_dunder(l, "__ne__")
                if f is not None:
                    res = f(r)
                    if res is not NotImplemented:
                        return res
            res = self.equals(l, r)
            return not self.truth(res)
        if t is ast.Is:
            return self._is(l, r)
        if t is ast.IsNot:
            return not self._is(l, r)
        if t is ast.In:
            return self.contains(r, l)
        if t is ast.NotIn:
            return not self.contains(r, l)
        host, dn, rdn = _CMPOPS[t]
        if isinstance(l, INST):
            f = self.find_dunder(l, dn)
            if f is not None:
                res = f(r)
                if res is not NotImplemented:
                    return res
        if isinstance(r, INST):
            f = self.find_dunder(r, rdn)
            if f is not None:
                res = f(l)
                if res is not NotImplemented:
                    return res
        if isinstance(l, Obj) or isinstance(r, Obj):
            self.throw(TypeError, "ordering not supported between these instances")
        self._host_operands(l, r)
        try:
            return host(l, r)
        except _PRIM_EXC as ex:
            raise Raised(ex)

    @staticmethod
    def _is(l, r):
        if l is r:
            return True
        # identity of small immutable host values is an implementation detail of the host; the
        # interpreted program may only rely on it for singletons
        if isinstance(l, (ClassRef, ModuleVal)) and isinstance(r, type(l)):
            return getattr(l, "qn", getattr(l, "name", None)) == getattr(r, "qn", getattr(r, "name", None))
        return False

    def _e_compare(self, e, fr):
        l = self.eval(e.left, fr)
        res = True
        for op, c in zip(e.ops, e.comparators):
            r = self.eval(c, fr)
            res = self.compare(op, l, r)
            if not self.truth(res):
                return res
            l = r
        return res

    def _e_ifexp(self, e, fr):
        return self.eval(e.body, fr) if self.truth(self.eval(e.test, fr)) else self.eval(e.orelse, fr)

    def _e_call(self, e, fr):
        fn = e.func
        if isinstance(fn, ast.Name) and fn.id == "super" and not e.args and self._is_builtin_name("super", fr):
            return self._zero_arg_super(fr)
        f = self.eval(fn, fr)
        args = []
        for a in e.args:
            if isinstance(a, ast.Starred):
                args.extend(self.iterate(self.eval(a.value, fr)))
            else:
                args.append(self.eval(a, fr))
        kwargs = {}
        for k in e.keywords:
            if k.arg is None:
                d = self.eval(k.value, fr)
                if not isinstance(d, dict):
                    raise Unsupported("** of a non-dict in a call")
                for kk, vv in d.items():
                    if kk in kwargs:
                        self.throw(TypeError, "got multiple values for keyword argument %r" % kk)
                    kwargs[kk] = vv
            else:
                kwargs[k.arg] = self.eval(k.value, fr)
        return self.call(f, args, kwargs)

    def _is_builtin_name(self, name, fr):
        f = fr
        while f is not None:
            if name in f.localnames or name in f.locals:
                return False
            f = f.closure
        return name not in self._module_bindings(fr.module)

    def _zero_arg_super(self, fr):
        f = fr
        while f is not None and (f.func is None or f.func.owner is None):
            f = f.closure
        if f is None:
            raise Unsupported("super() outside a method")
        node = f.func.node
        a = node.args
        first = (a.posonlyargs + a.args)[0].arg if (a.posonlyargs + a.args) else None
        if first is None or first not in f.locals:
            raise Unsupported("super() without a first argument")
        return SuperProxy(f.func.owner, f.locals[first])

    def subscript(self, v, idx):
        if isinstance(v, INST):
            f = self.find_dunder(v, "__getitem__")
            if f is not None:
                return f(idx)
            if isinstance(v, Obj):
                self.throw(TypeError, "object is not subscriptable")
        if isinstance(v, ClassRef):
            if self.kind_of(v.qn) == "enum":
                mm = self.enum_state(v)["_member_map_"]
                if idx in mm:
                    return mm[idx]
                self.throw(KeyError, idx)
            f, _ = self.class_lookup(v, "__class_getitem__")
            if f is not None:
                return v
            return v  # typing-style subscription of a class: the class itself
        self._host_operands(v)
        try:
            return v[idx]
        except _PRIM_EXC as ex:
            raise Raised(ex)

    def _e_subscript(self, e, fr):
        v = self.eval(e.value, fr)
        idx = self.eval(e.slice, fr)
        return self.subscript(v, idx)

    def _e_slice(self, e, fr):
        lo = self.eval(e.lower, fr) if e.lower is not None else None
        hi = self.eval(e.upper, fr) if e.upper is not None else None
        st = self.eval(e.step, fr) if e.step is not None else None
        for x in (lo, hi, st):
            if isinstance(x, Obj):
                f = self.find_dunder(x, "__index__")
                if f is None:
                    self.throw(TypeError, "slice indices must be integers")
        return slice(lo, hi, st)

    def _e_lambda(self, e, fr):
        return self.make_function(e, fr, owner=fr.func.owner if fr.func is not None else None)

    def _comp_frames(self, e, fr):
        """generator over frames, one per iteration point of the comprehension clauses"""
        names, _ = self.scope_of(e)
        cfr = Frame(names, fr if fr.clsns is None else fr.closure, fr.module, func=fr.func)
        first = self.iterate(self.eval(e.generators[0].iter, fr))

        def rec(i):
            g = e.generators[i]
            if g.is_async:
                raise Unsupported("async comprehension")
            it = first if i == 0 else self.iterate(self.eval(g.iter, cfr))
            while True:
                ok, item = self.next_of(it)
                if not ok:
                    return
                self.tick()
                self.assign(g.target, item, cfr)
                if all(self.truth(self.eval(c, cfr)) for c in g.ifs):
                    if i + 1 < len(e.generators):
                        yield from rec(i + 1)
                    else:
                        yield cfr

        return rec(0)

    def _e_listcomp(self, e, fr):
        return [self.eval(e.elt, f) for f in self._comp_frames(e, fr)]

    def _e_setcomp(self, e, fr):
        try:
            return {self.eval(e.elt, f) for f in self._comp_frames(e, fr)}
        except TypeError as ex:
            raise Raised(ex)

    def _e_dictcomp(self, e, fr):
        d = {}
        try:
            for f in self._comp_frames(e, fr):
                k = self.eval(e.key, f)
                d[k] = self.eval(e.value, f)
        except TypeError as ex:
            raise Raised(ex)
        return d

    def _e_genexp(self, e, fr):
        frames = self._comp_frames(e, fr)  # the first iterable is evaluated now, like the host does

        def gen():
            for f in frames:
                yield self.eval(e.elt, f)

        return gen()

    def to_str(self, v):
        if isinstance(v, INST):
            f = self.find_dunder(v, "__str__")
            if f is not None:
                return f()
            f = self.find_dunder(v, "__repr__")
            if f is not None:
                return f()
            if isinstance(v, IntInst):
                return int.__repr__(v)
            if isinstance(v, TupleInst):
                return self.to_repr(v)
            if isinstance(v._k_cref, ClassRef) and self.kind_of(v._k_cref.qn) == "exception":
                a = v._k_attrs.get("args", ())
                return "" if not a else (self.to_str(a[0]) if len(a) == 1 else self.to_repr(tuple(a)))
            if isinstance(v._k_cref, ClassRef) and self.kind_of(v._k_cref.qn) == "enum":
                return "%s.%s" % (v._k_cref.qn.split(".")[-1], v._k_attrs.get("_name_"))
            return self.to_repr(v)
        if isinstance(v, SAFE_TYPES) and not isinstance(v, (list, tuple, dict, set, frozenset)):
            return str(v)
        if isinstance(v, BaseException):
            return str(v)
        return self.to_repr(v)

    def to_repr(self, v):
        if isinstance(v, INST):
            f = self.find_dunder(v, "__repr__")
            if f is not None:
                return f()
            if isinstance(v, IntInst):
                n = v._k_attrs.get("_name_")
                return "<%s.%s: %d>" % (v._k_cref.qn.split(".")[-1], n, int(v)) if n else int.__repr__(v)
            if isinstance(v, TupleInst):
                cref = v._k_cref
                nt = cref if isinstance(cref, NTBase) else self.kind_extra(cref.qn)
                nm = cref.name if isinstance(cref, NTBase) else cref.qn.split(".")[-1]
                return "%s(%s)" % (nm, ", ".join("%s=%s" % (f, self.to_repr(x)) for f, x in zip(nt.fields, v)))
            return "<%s object>" % v._k_cref.qn.split(".")[-1]
        if isinstance(v, list):
            return "[%s]" % ", ".join(self.to_repr(x) for x in v)
        if isinstance(v, tuple):
            return "(%s%s)" % (", ".join(self.to_repr(x) for x in v), "," if len(v) == 1 else "")
        if isinstance(v, dict):
            return "{%s}" % ", ".join("%s: %s" % (self.to_repr(k), self.to_repr(x)) for k, x in v.items())
        if isinstance(v, (set, frozenset)):
            return repr(v) if not v else "{%s}" % ", ".join(self.to_repr(x) for x in v)
        if isinstance(v, SAFE_TYPES) or isinstance(v, BaseException):
            return repr(v)
        if isinstance(v, ClassRef):
            return "<class '%s'>" % v.qn
        if isinstance(v, Poison):
            raise Unsupported(v.why)
        return "<%s>" % type(v).__name__

    def format_value(self, v, spec=""):
        if isinstance(v, INST):
            f = self.find_dunder(v, "__format__")
            if f is not None:
                return f(spec)
            if isinstance(v, IntInst):
                if spec:
                    return format(int(v), spec)
                # mixed-in enums format like their str()
                return self.to_str(v)
            if spec:
                try:
                    return format(self.to_str(v), spec)
                except _PRIM_EXC as ex:
                    raise Raised(ex)
            return self.to_str(v)
        if isinstance(v, SAFE_TYPES) and not isinstance(v, (list, tuple, dict, set, frozenset)):
            try:
                return format(v, spec)
            except _PRIM_EXC as ex:
                raise Raised(ex)
        s = self.to_str(v)
        try:
            return format(s, spec)
        except _PRIM_EXC as ex:
            raise Raised(ex)

    def _e_joined(self, e, fr):
        out = []
        for p in e.values:
            if isinstance(p, ast.Constant):
                out.append(p.value)
            else:
                out.append(self._e_formatted(p, fr))
        return "".join(out)

    def _e_formatted(self, e, fr):
        v = self.eval(e.value, fr)
        spec = self.eval(e.format_spec, fr) if e.format_spec is not None else ""
        if e.conversion == 114:
            v = self.to_repr(v)
        elif e.conversion == 115:
            v = self.to_str(v)
        elif e.conversion == 97:
            v = ascii(self.to_repr(v))[1:-1]
        return self.format_value(v, spec)

    def _e_named(self, e, fr):
        v = self.eval(e.value, fr)
        # a walrus inside a comprehension binds in the enclosing function scope
        f = fr
        while f.func is not None and f.closure is not None and e.target.id not in f.localnames and f.closure.func is f.func:
            f = f.closure
        self.store_name(e.target.id, v, f)
        return v

    def _e_starred(self, e, fr):
        raise Unsupported("starred expression outside a call or display")

    def _e_await(self, e, fr):
        raise Unsupported("await")

    def _e_yield(self, e, fr):
        raise Unsupported("yield nested inside an expression (or outside a generator function)")

    _EV = {
        ast.Constant: _e_const, ast.Name: _e_name, ast.Attribute: _e_attr, ast.Tuple: _e_tuple, ast.List: _e_list, ast.Set: _e_set, ast.Dict: _e_dict,
        ast.BinOp: _e_binop, ast.UnaryOp: _e_unary, ast.BoolOp: _e_boolop, ast.Compare: _e_compare, ast.IfExp: _e_ifexp, ast.Call: _e_call,
        ast.Subscript: _e_subscript, ast.Slice: _e_slice, ast.Lambda: _e_lambda, ast.ListComp: _e_listcomp, ast.SetComp: _e_setcomp, ast.DictComp: _e_dictcomp,
        ast.GeneratorExp: _e_genexp, ast.JoinedStr: _e_joined, ast.FormattedValue: _e_formatted, ast.NamedExpr: _e_named, ast.Starred: _e_starred,
        ast.Await: _e_await, ast.Yield: _e_yield, ast.YieldFrom: _e_yield,
    }

    # -- statements ------------------------------------------------------------------------------------
    def assign(self, t, val, fr):
        if isinstance(t, ast.Name):
            self.store_name(t.id, val, fr)
        elif isinstance(t, ast.Attribute):
            self.setattr(self.eval(t.value, fr), t.attr, val)
        elif isinstance(t, ast.Subscript):
            self.setitem(self.eval(t.value, fr), self.eval(t.slice, fr), val)
        elif isinstance(t, (ast.Tuple, ast.List)):
            items = []
            it = self.iterate(val)
            while True:
                ok, x = self.next_of(it)
                if not ok:
                    break
                items.append(x)
                if len(items) > 100000:
                    raise Unsupported("unpacking of a very long iterable")
            stars = [i for i, x in enumerate(t.elts) if isinstance(x, ast.Starred)]
            if not stars:
                if len(items) != len(t.elts):
                    self.throw(ValueError, "not enough values to unpack" if len(items) < len(t.elts) else "too many values to unpack (expected %d)" % len(t.elts))
                for x, v in zip(t.elts, items):
                    self.assign(x, v, fr)
            else:
                i = stars[0]
                after = len(t.elts) - i - 1
                if len(items) < len(t.elts) - 1:
                    self.throw(ValueError, "not enough values to unpack")
                for x, v in zip(t.elts[:i], items[:i]):
                    self.assign(x, v, fr)
                self.assign(t.elts[i].value, items[i:len(items) - after], fr)
                for x, v in zip(t.elts[i + 1:], items[len(items) - after:]):
                    self.assign(x, v, fr)
        elif isinstance(t, ast.Starred):
            self.assign(t.value, val, fr)
        else:
            raise Unsupported("assignment target %s" % type(t).__name__)

    def setitem(self, c, idx, val):
        if isinstance(c, INST):
            f = self.find_dunder(c, "__setitem__")
            if f is not None:
                f(idx, val)
                return
            self.throw(TypeError, "object does not support item assignment")
        if not isinstance(c, (list, dict, bytearray, collections.deque)):
            if isinstance(c, (tuple, bytes, str)):
                self.throw(TypeError, "'%s' object does not support item assignment" % type(c).__name__)
            raise Unsupported("item store on a %s value" % type(c).__name__)
        try:
            c[idx] = val
        except _PRIM_EXC as ex:
            raise Raised(ex)

    def delitem(self, c, idx):
        if isinstance(c, INST):
            f = self.find_dunder(c, "__delitem__")
            if f is not None:
                f(idx)
                return
            self.throw(TypeError, "object does not support item deletion")
        if not isinstance(c, (list, dict, bytearray, collections.deque)):
            raise Unsupported("item delete on a %s value" % type(c).__name__)
        try:
            del c[idx]
        except _PRIM_EXC as ex:
            raise Raised(ex)

    def exec_block(self, body, fr):
        for st in body:
            sig = self.exec_stmt(st, fr)
            if sig is not None:
                return sig
        return None

    def exec_stmt(self, st, fr):
        m = self._EX.get(type(st))
        if m is None:
            raise Unsupported("statement %s is outside the evaluator's vocabulary" % type(st).__name__)
        return m(self, st, fr)

    def _s_expr(self, st, fr):
        if isinstance(st.value, (ast.Yield, ast.YieldFrom)):
            raise Unsupported("yield outside the generator executor")
        self.eval(st.value, fr)

    def _s_assign(self, st, fr):
        v = self.eval(st.value, fr)
        for t in st.targets:
            self.assign(t, v, fr)

    def _s_annassign(self, st, fr):
        if st.value is not None:
            self.assign(st.target, self.eval(st.value, fr), fr)

    def _aug_load(self, t, fr):
        if isinstance(t, ast.Name):
            return self.lookup(t.id, fr), None, None
        if isinstance(t, ast.Attribute):
            obj = self.eval(t.value, fr)
            return self.getattr(obj, t.attr), obj, None
        if isinstance(t, ast.Subscript):
            obj = self.eval(t.value, fr)
            idx = self.eval(t.slice, fr)
            return self.subscript(obj, idx), obj, idx
        raise Unsupported("augmented assignment target")

    def _aug_store(self, st, fr, cur, obj, idx, r):
        t = st.target
        host, dn = _IOPS[type(st.op)]
        new = NotImplemented
        if isinstance(cur, INST):
            f = self.find_dunder(cur, dn)
            if f is not None:
                new = f(r)
        if new is NotImplemented:
            if isinstance(cur, INST) or isinstance(r, INST):
                new = self.binop(type(st.op), cur, r)
            else:
                self._host_operands(cur, r)
                if isinstance(cur, list) and type(st.op) is ast.Add and not isinstance(r, (list, tuple, bytes, str, dict, set, frozenset, range, bytearray)):
                    r = list(self.iterate(r))
                try:
                    new = host(cur, r)
                except _PRIM_EXC as ex:
                    raise Raised(ex)
        if isinstance(t, ast.Name):
            self.store_name(t.id, new, fr)
        elif isinstance(t, ast.Attribute):
            self.setattr(obj, t.attr, new)
        else:
            self.setitem(obj, idx, new)

    def _s_augassign(self, st, fr):
        cur, obj, idx = self._aug_load(st.target, fr)
        self._aug_store(st, fr, cur, obj, idx, self.eval(st.value, fr))

    def _s_return(self, st, fr):
        return _Sig("return", self.eval(st.value, fr) if st.value is not None else None)

    def _s_pass(self, st, fr):
        return None

    def _s_break(self, st, fr):
        return _BREAK

    def _s_continue(self, st, fr):
        return _CONTINUE

    def _s_if(self, st, fr):
        if self.truth(self.eval(st.test, fr)):
            return self.exec_block(st.body, fr)
        return self.exec_block(st.orelse, fr)

    def _s_while(self, st, fr):
        while self.truth(self.eval(st.test, fr)):
            self.tick()
            sig = self.exec_block(st.body, fr)
            if sig is not None:
                if sig is _BREAK:
                    return None
                if sig is _CONTINUE:
                    continue
                return sig
        return self.exec_block(st.orelse, fr)

    def _s_for(self, st, fr):
        it = self.iterate(self.eval(st.iter, fr))
        while True:
            ok, item = self.next_of(it)
            if not ok:
                break
            self.tick()
            self.assign(st.target, item, fr)
            sig = self.exec_block(st.body, fr)
            if sig is not None:
                if sig is _BREAK:
                    return None
                if sig is _CONTINUE:
                    continue
                return sig
        return self.exec_block(st.orelse, fr)

    def make_exception(self, v):
        """value of a raise operand -> exception instance"""
        if isinstance(v, ClassRef):
            v = self.instantiate(v, [], {})
        elif isinstance(v, type) and issubclass(v, BaseException):
            v = v()
        if isinstance(v, BaseException):
            return v
        if isinstance(v, Obj) and isinstance(v._k_cref, ClassRef) and self.kind_of(v._k_cref.qn) == "exception":
            return v
        self.throw(TypeError, "exceptions must derive from BaseException")

    def _s_raise(self, st, fr):
        if st.exc is None:
            f = fr
            while f is not None and f.exc is None:
                f = f.closure if f.func is not None and f.closure is not None and f.closure.func is f.func else None
            if f is None or f.exc is None:
                self.throw(RuntimeError, "No active exception to reraise")
            raise Raised(f.exc)
        exc = self.make_exception(self.eval(st.exc, fr))
        if st.cause is not None:
            c = self.eval(st.cause, fr)
            if c is not None:
                c = self.make_exception(c)
            if isinstance(exc, Obj):
                exc._k_attrs["__cause__"] = c
        raise Raised(exc)

    def _s_assert(self, st, fr):
        return None  # `assert` is never a guard (python -O semantics)

    def _s_delete(self, st, fr):
        for t in st.targets:
            if isinstance(t, ast.Name):
                if t.id in fr.locals:
                    del fr.locals[t.id]
                else:
                    self.throw(NameError, t.id)
            elif isinstance(t, ast.Attribute):
                self.delattr(self.eval(t.value, fr), t.attr)
            elif isinstance(t, ast.Subscript):
                self.delitem(self.eval(t.value, fr), self.eval(t.slice, fr))
            else:
                raise Unsupported("del target")

    def _s_funcdef(self, st, fr):
        f = self.make_function(st, fr, owner=fr.func.owner if fr.func is not None else None)
        self.store_name(st.name, self.apply_decorators(st, f, fr), fr)

    def _s_import(self, st, fr):
        for a in st.names:
            if isinstance(st, ast.Import):
                top = a.name.split(".")[0]
                v = self.resolve_qualified(a.name if a.asname else top)
                self.store_name(a.asname or top, v, fr)
            else:
                if st.level:
                    m = fr.module
                    pkgparts = m.name.split(".") if m.is_pkg else m.name.split(".")[:-1]
                    base = pkgparts[: len(pkgparts) - (st.level - 1)]
                    modname = ".".join(base + ([st.module] if st.module else []))
                else:
                    modname = st.module or ""
                self.store_name(a.asname or a.name, self.resolve_qualified(self.prog.canonical(modname + "." + a.name)), fr)

    def _s_global(self, st, fr):
        return None

    def _s_try(self, st, fr):
        sig = None
        try:
            try:
                sig = self.exec_block(st.body, fr)
            except Raised as r:
                exc = r.exc
                for h in st.handlers:
                    if h.type is None or self.exc_matches(exc, self.eval(h.type, fr)):
                        break
                else:
                    raise
                if h.name:
                    self.store_name(h.name, exc, fr)
                saved = fr.exc
                fr.exc = exc
                try:
                    sig = self.exec_block(h.body, fr)
                finally:
                    fr.exc = saved
                    if h.name and h.name in fr.locals:
                        del fr.locals[h.name]
            else:
                if sig is None:
                    sig = self.exec_block(st.orelse, fr)
        finally:
            if st.finalbody:
                # the host's own `finally` semantics: a signal from the finally body overrides
                fsig = self.exec_block(st.finalbody, fr)
                if fsig is not None:
                    return fsig  # noqa: B012 (mirrors the interpreted program)
        return sig

    # -- with statements: every manager is normalised to an exit function `exit(r) -> swallowed?` (r: the Raised in
    #    flight or None); the unwinding below is the host's: innermost first, an exception raised by an exit function
    #    replaces the one in flight, a manager that swallows lets the outer ones see a normal exit ----------------------
    def _with_enter(self, st, fr, mgrs):
        for it in st.items:
            cm = self.eval(it.context_expr, fr)
            if isinstance(cm, Suppress):
                v = None
                mgrs.append(lambda r, cm=cm: r is not None and bool(cm.types) and self.exc_matches(r.exc, cm.types))
            elif isinstance(cm, NullContext):
                v = cm.value
                mgrs.append(lambda r: False)
            elif isinstance(cm, GenContext):
                v = self._genctx_enter(cm)
                mgrs.append(lambda r, cm=cm: self._genctx_exit(cm, r))
            elif isinstance(cm, (_io.BytesIO, _io.StringIO, memoryview)):
                # in-memory host objects: entering returns the object, leaving releases the buffer (host semantics)
                v = cm.__enter__()
                mgrs.append(lambda r, cm=cm: bool(cm.__exit__(None, None, None)))
            elif isinstance(cm, INST):
                enter = self.find_dunder(cm, "__enter__")
                exit_ = self.find_dunder(cm, "__exit__")
                if enter is None or exit_ is None:
                    self.throw(TypeError, "object does not support the context manager protocol")
                v = enter()
                mgrs.append(functools.partial(self._inst_exit, exit_))
            else:
                if isinstance(cm, Poison):
                    raise Unsupported(cm.why)
                raise Unsupported("with-statement over a %s value" % type(cm).__name__)
            if it.optional_vars is not None:
                self.assign(it.optional_vars, v, fr)

    def _inst_exit(self, exit_, r):
        if r is None:
            exit_(None, None, None)
            return False
        return self.truth(exit_(self._exc_type(r.exc), r.exc, None))

    def _with_unwind(self, mgrs, r):
        """run the exit functions; returns the Raised still in flight afterwards (None: normal continuation)"""
        for ex in reversed(mgrs):
            try:
                if ex(r):
                    r = None
            except Raised as r2:
                r = r2
        return r

    def _genctx_enter(self, cm):
        ok, v = self.next_of(cm.gen)
        if not ok:
            self.throw(RuntimeError, "generator didn't yield")
        return v

    def _genctx_exit(self, cm, r):
        if r is None:
            ok, _ = self.next_of(cm.gen)
            if ok:
                self.throw(RuntimeError, "generator didn't stop")
            return False
        try:
            cm.gen.throw(r)
        except StopIteration:
            return True
        except Raised as r2:
            if r2.exc is r.exc:
                return False
            raise
        self.throw(RuntimeError, "generator didn't stop after throw()")

    def _s_with(self, st, fr):
        mgrs = []
        try:
            self._with_enter(st, fr, mgrs)
            sig = self.exec_block(st.body, fr)
        except Raised as r:
            r2 = self._with_unwind(mgrs, r)
            if r2 is None:
                return None
            if r2 is r:
                raise
            raise r2
        r2 = self._with_unwind(mgrs, None)
        if r2 is not None:
            raise r2
        return sig

    def _exc_type(self, exc):
        return exc._k_cref if isinstance(exc, INST) else type(exc)

    def _s_classdef(self, st, fr):
        """a class defined inside a function.  The program index knows it as <function>.<locals>.<name>; its namespace
        is evaluated like that of a module-level class, i.e. without the enclosing function's frame -- exact as long as
        neither the body nor a method refers to a local of the enclosing function, which is checked here (otherwise
        refused)."""
        qn = self._local_classes().get(id(st))
        if qn is None:
            raise Unsupported("class definition %s inside a function is not indexed" % st.name)
        free = set()
        for n in ast.walk(st):
            if isinstance(n, ast.Name) and isinstance(n.ctx, ast.Load):
                free.add(n.id)
        f = fr
        while f is not None:
            hit = sorted(x for x in free if (x in f.localnames or x in f.locals) and x != st.name)
            if hit and f.clsns is None:
                raise Unsupported("class %s defined inside a function refers to the enclosing function's local %s" % (st.name, hit[0]))
            f = f.closure
        self.store_name(st.name, self.classref(qn), fr)

    def _local_classes(self):
        m = self._scope.get("localclasses")
        if m is None:
            m = self._scope["localclasses"] = {id(ci.node): q for q, ci in self.prog.classes.items() if ".<locals>." in q}
        return m

    def _s_typealias(self, st, fr):
        # `type X = ...` (PEP 695): the value is evaluated lazily by the host and is never a run-time operand of the codec
        if isinstance(st.name, ast.Name):
            self.store_name(st.name.id, Poison("type alias %s used as a value" % st.name.id), fr)

    # -- match statements (PEP 634) ------------------------------------------------------------------------
    _MATCH_SELF = (bool, bytearray, bytes, dict, float, frozenset, int, list, set, str, tuple)

    def _match_args(self, cls):
        """names the positional sub-patterns of `case cls(a, b)` stand for; "self": the single positional sub-pattern
        matches the subject itself (classes derived from the host's int/str/... without __match_args__); None: no
        positional sub-patterns are accepted"""
        if isinstance(cls, NTBase):
            return tuple(cls.fields)
        v, _q = self.class_lookup(cls, "__match_args__")
        if v is not None:
            if not isinstance(v, tuple) or not all(isinstance(x, str) for x in v):
                self.throw(TypeError, "__match_args__ must be a tuple of strings")
            return v
        kind = self.kind_of(cls.qn)
        if kind == "namedtuple":
            return tuple(self.kind_extra(cls.qn).fields)
        dc = self.dataclass_params(cls.qn)
        if dc is not None and dc.get("match_args", True):
            return tuple(f[0] for f in self.dataclass_fields(cls) if f[3].get("init", True) and not f[3].get("kw_only", False))
        if kind == "enum" and self.kind_extra(cls.qn):
            return "self"
        return None

    def _match_pattern(self, p, subj, fr, binds):
        """does subj match pattern p?  Captures are collected in `binds` and stored by the caller once the whole
        pattern has matched, before the guard is evaluated (what the host does)."""
        t = type(p)
        if t is ast.MatchValue:
            return self.truth(self.equals(subj, self.eval(p.value, fr)))
        if t is ast.MatchSingleton:
            return subj is p.value
        if t is ast.MatchAs:
            if p.pattern is not None and not self._match_pattern(p.pattern, subj, fr, binds):
                return False
            if p.name is not None:
                binds[p.name] = subj
            return True
        if t is ast.MatchOr:
            for alt in p.patterns:
                b2 = {}
                if self._match_pattern(alt, subj, fr, b2):
                    binds.update(b2)
                    return True
            return False
        if isinstance(subj, Poison):
            raise Unsupported(subj.why)
        if not (isinstance(subj, INST) or isinstance(subj, SAFE_TYPES) or isinstance(subj, (BaseException, ClassRef, NTBase, FuncVal, BoundMethod, Builtin, ModuleVal, ExtModule, Property)) or isinstance(subj, _ITER_TYPES)):
            raise Unsupported("structural pattern applied to a %s value" % type(subj).__name__)
        if t is ast.MatchSequence:
            # sequences of the host's data model: list, tuple (and namedtuple instances), range, deque, memoryview;
            # never str / bytes / bytearray; an instance of a repository class is one only through
            # collections.abc.Sequence, which the evaluator does not model (such a class cannot be instantiated here)
            if not isinstance(subj, (list, tuple, range, collections.deque, memoryview)):
                return False
            items = list(subj)
            pats = p.patterns
            stars = [i for i, x in enumerate(pats) if isinstance(x, ast.MatchStar)]
            if not stars:
                if len(items) != len(pats):
                    return False
                return all(self._match_pattern(x, v, fr, binds) for x, v in zip(pats, items))
            i = stars[0]
            after = len(pats) - i - 1
            if len(items) < len(pats) - 1:
                return False
            if not all(self._match_pattern(x, v, fr, binds) for x, v in zip(pats[:i], items[:i])):
                return False
            if after and not all(self._match_pattern(x, v, fr, binds) for x, v in zip(pats[i + 1:], items[len(items) - after:])):
                return False
            if pats[i].name is not None:
                binds[pats[i].name] = items[i:len(items) - after]
            return True
        if t is ast.MatchMapping:
            if not isinstance(subj, (dict, types.MappingProxyType)):
                return False
            keys = [self.eval(k, fr) for k in p.keys]
            if len(subj) < len(keys):
                return False
            missing = object()
            for k, sub in zip(keys, p.patterns):
                try:
                    v = subj.get(k, missing)  # .get: a defaultdict is not extended, as in the host
                except TypeError as ex:
                    raise Raised(ex)
                if v is missing or not self._match_pattern(sub, v, fr, binds):
                    return False
            if p.rest:
                rest = dict(subj)
                for k in keys:
                    rest.pop(k, None)
                binds[p.rest] = rest
            return True
        if t is ast.MatchClass:
            cls = self.eval(p.cls, fr)
            if not (isinstance(cls, (ClassRef, NTBase)) or isinstance(cls, type)):
                if isinstance(cls, Poison):
                    raise Unsupported(cls.why)
                self.throw(TypeError, "called match pattern must be a class")
            if not self._classinfo_match(subj, cls):
                return False
            names = []
            if p.patterns:
                if isinstance(cls, type):
                    margs = "self" if any(issubclass(cls, b) for b in self._MATCH_SELF) else None
                else:
                    margs = self._match_args(cls)
                if margs == "self":
                    if len(p.patterns) > 1:
                        self.throw(TypeError, "class pattern accepts at most 1 positional sub-pattern")
                    if not self._match_pattern(p.patterns[0], subj, fr, binds):
                        return False
                else:
                    margs = margs or ()
                    if len(p.patterns) > len(margs):
                        self.throw(TypeError, "class pattern accepts at most %d positional sub-patterns (%d given)" % (len(margs), len(p.patterns)))
                    names = [(n, sub) for n, sub in zip(margs, p.patterns)]
            names += list(zip(p.kwd_attrs, p.kwd_patterns))
            for n, sub in names:
                try:
                    v = self.getattr(subj, n)
                except Raised as r:
                    if self.exc_matches(r.exc, AttributeError):
                        return False
                    raise
                if not self._match_pattern(sub, v, fr, binds):
                    return False
            return True
        raise Unsupported("pattern %s is outside the evaluator's vocabulary" % t.__name__)

    def _select_case(self, st, subj, fr):
        for case in st.cases:
            self.tick()
            binds = {}
            if not self._match_pattern(case.pattern, subj, fr, binds):
                continue
            for k, v in binds.items():
                self.store_name(k, v, fr)
            if case.guard is not None and not self.truth(self.eval(case.guard, fr)):
                continue
            return case
        return None

    def _s_match(self, st, fr):
        case = self._select_case(st, self.eval(st.subject, fr), fr)
        return self.exec_block(case.body, fr) if case is not None else None

    _EX = {
        ast.Expr: _s_expr, ast.Assign: _s_assign, ast.AnnAssign: _s_annassign, ast.AugAssign: _s_augassign, ast.Return: _s_return, ast.Pass: _s_pass,
        ast.Break: _s_break, ast.Continue: _s_continue, ast.If: _s_if, ast.While: _s_while, ast.For: _s_for, ast.Raise: _s_raise, ast.Assert: _s_assert,
        ast.Delete: _s_delete, ast.FunctionDef: _s_funcdef, ast.Import: _s_import, ast.ImportFrom: _s_import, ast.Global: _s_global, ast.Nonlocal: _s_global,
        ast.Try: _s_try, ast.With: _s_with, ast.ClassDef: _s_classdef, ast.Match: _s_match,
    }
    if "TypeAlias" in vars(ast):
        _EX[ast.TypeAlias] = _s_typealias

    # -- generator functions: a second executor that can suspend.  It mirrors the statement executor for every
    #    compound statement (if / for / while / try / with / match) and suspends at the places a statement can carry a
    #    yield at its top: `yield v`, `x = yield v`, `x += yield v`, `return (yield v)`, the same with `yield from`, and
    #    a condition that is a yield.  Sent values, throw() and close() are the host generator's own.  A yield nested
    #    deeper inside an expression is outside the vocabulary (refused by _e_yield). --------
    def exec_gen_body(self, body, fr):
        def gen():
            sig = yield from self._g_block(body, fr)
            if sig is None:
                return None
            if sig.kind == "return":
                return sig.value
            raise Unsupported("break/continue outside loop in a generator")

        return gen()

    def _g_block(self, body, fr):
        for st in body:
            sig = yield from self._g_stmt(st, fr)
            if sig is not None:
                return sig
        return None

    def _g_value(self, e, fr):
        if isinstance(e, ast.Yield):
            v = self.eval(e.value, fr) if e.value is not None else None
            sent = yield v
            return sent
        if isinstance(e, ast.YieldFrom):
            it = self.iterate(self.eval(e.value, fr))
            if isinstance(it, types.GeneratorType):
                # an interpreted generator (function or generator expression): the host's delegation passes sent
                # values / throw() / close() through and hands back the generator's return value
                return (yield from it)
            while True:
                ok, x = self.next_of(it)
                if not ok:
                    return None
                yield x
        return self.eval(e, fr)

    def _g_stmt(self, st, fr):
        hy = self._ycache.get(id(st))
        if hy is None:
            hy = self._ycache[id(st)] = (_has_yield_stmt(st), st)
        if not hy[0]:
            return self.exec_stmt(st, fr)
        if isinstance(st, ast.Expr):
            yield from self._g_value(st.value, fr)
            return None
        if isinstance(st, ast.Assign):
            v = yield from self._g_value(st.value, fr)
            for t in st.targets:
                self.assign(t, v, fr)
            return None
        if isinstance(st, ast.AnnAssign):
            if st.value is not None:
                v = yield from self._g_value(st.value, fr)
                self.assign(st.target, v, fr)
            return None
        if isinstance(st, ast.AugAssign):
            cur, obj, idx = self._aug_load(st.target, fr)
            r = yield from self._g_value(st.value, fr)
            self._aug_store(st, fr, cur, obj, idx, r)
            return None
        if isinstance(st, ast.Return):
            return _Sig("return", (yield from self._g_value(st.value, fr)) if st.value is not None else None)
        if isinstance(st, ast.If):
            if self.truth((yield from self._g_value(st.test, fr))):
                return (yield from self._g_block(st.body, fr))
            return (yield from self._g_block(st.orelse, fr))
        if isinstance(st, ast.For):
            it = self.iterate(self.eval(st.iter, fr))
            while True:
                ok, item = self.next_of(it)
                if not ok:
                    break
                self.tick()
                self.assign(st.target, item, fr)
                sig = yield from self._g_block(st.body, fr)
                if sig is not None:
                    if sig is _BREAK:
                        return None
                    if sig is _CONTINUE:
                        continue
                    return sig
            return (yield from self._g_block(st.orelse, fr))
        if isinstance(st, ast.While):
            while self.truth((yield from self._g_value(st.test, fr))):
                self.tick()
                sig = yield from self._g_block(st.body, fr)
                if sig is not None:
                    if sig is _BREAK:
                        return None
                    if sig is _CONTINUE:
                        continue
                    return sig
            return (yield from self._g_block(st.orelse, fr))
        if isinstance(st, ast.Match):
            case = self._select_case(st, self.eval(st.subject, fr), fr)
            return (yield from self._g_block(case.body, fr)) if case is not None else None
        if isinstance(st, ast.Try):
            return (yield from self._g_try(st, fr))
        if isinstance(st, ast.With):
            return (yield from self._g_with(st, fr))
        raise Unsupported("yield inside %s" % type(st).__name__)

    def _g_try(self, st, fr):
        sig = None
        try:
            try:
                sig = yield from self._g_block(st.body, fr)
            except Raised as r:
                exc = r.exc
                for h in st.handlers:
                    if h.type is None or self.exc_matches(exc, self.eval(h.type, fr)):
                        break
                else:
                    raise
                if h.name:
                    self.store_name(h.name, exc, fr)
                saved = fr.exc
                fr.exc = exc
                try:
                    sig = yield from self._g_block(h.body, fr)
                finally:
                    fr.exc = saved
                    if h.name and h.name in fr.locals:
                        del fr.locals[h.name]
            else:
                if sig is None:
                    sig = yield from self._g_block(st.orelse, fr)
        finally:
            if st.finalbody:
                fsig = yield from self._g_block(st.finalbody, fr)
                if fsig is not None:
                    return fsig  # noqa: B012 (mirrors the interpreted program)
        return sig

    def _g_with(self, st, fr):
        mgrs = []
        try:
            self._with_enter(st, fr, mgrs)
            sig = yield from self._g_block(st.body, fr)
        except Raised as r:
            r2 = self._with_unwind(mgrs, r)
            if r2 is None:
                return None
            if r2 is r:
                raise
            raise r2
        except GeneratorExit:
            # the generator is closed while suspended inside the with-body: the managers see a normal exit here
            # (the host would pass GeneratorExit; none of the modelled managers distinguishes the two)
            self._with_unwind(mgrs, None)
            raise
        r2 = self._with_unwind(mgrs, None)
        if r2 is not None:
            raise r2
        return sig


def _has_yield_stmt(st):
    if isinstance(st, (ast.FunctionDef, ast.AsyncFunctionDef, ast.ClassDef)):
        return False
    todo = [st]
    while todo:
        n = todo.pop()
        if isinstance(n, (ast.Yield, ast.YieldFrom)):
            return True
        if n is not st and isinstance(n, (ast.FunctionDef, ast.AsyncFunctionDef, ast.Lambda, ast.ClassDef)):
            continue
        todo.extend(ast.iter_child_nodes(n))
    return False


class _Fmt:
    """adapter so that host %-formatting asks the evaluator for str()/repr() of interpreted objects"""

    def __init__(self, interp, v):
        self.i, self.v = interp, v

    def __str__(self):
        return self.i.to_str(self.v)

    def __repr__(self):
        return self.i.to_repr(self.v)

    def __int__(self):
        return int(self.v)

    def __index__(self):
        return int(self.v)

    def __float__(self):
        return float(self.v)


# ---------------------------------------------------------------------------
# models of builtins and of a few pure standard-library modules

_AUTO = object()
_VERSION_INFO_HOLDER = object()

_SAFE_CALLABLES = {
    abs, divmod, pow, round, ord, chr, hex, bin, oct, range, slice, min, max, sum, any, all, sorted, reversed, enumerate, zip, map, filter, id, ascii,
    struct.pack, struct.unpack, struct.unpack_from, struct.calcsize, functools.partial, functools.reduce,
    itertools.chain, itertools.chain.from_iterable, itertools.count, itertools.islice, itertools.repeat, itertools.accumulate, itertools.takewhile,
    itertools.dropwhile, itertools.zip_longest, itertools.product, itertools.starmap, itertools.groupby, itertools.cycle,
    unicodedata.normalize, unicodedata.category, unicodedata.name, unicodedata.lookup, unicodedata.is_normalized,
    binascii.hexlify, binascii.unhexlify, binascii.b2a_hex, binascii.a2b_hex, binascii.b2a_base64, binascii.a2b_base64, binascii.crc32,
    math.ceil, math.floor, math.log2, math.log, math.sqrt, math.gcd, math.isnan, math.isinf, math.isfinite, math.trunc,
    operator.itemgetter, operator.add, operator.sub, operator.mul, operator.or_, operator.and_, operator.xor, operator.lshift, operator.rshift,
    operator.floordiv, operator.mod, operator.neg, operator.lt, operator.le, operator.gt, operator.ge, operator.index, operator.getitem, operator.concat,
    struct.pack_into, struct.iter_unpack, _codecs.encode, _codecs.decode, _codecs.utf_8_decode, _codecs.utf_8_encode, _bisect.bisect, _bisect.bisect_left, _bisect.bisect_right, _bisect.insort, _bisect.insort_left, _bisect.insort_right,
    itertools.compress, itertools.filterfalse, itertools.tee, itertools.permutations, itertools.combinations, itertools.combinations_with_replacement,
    *[getattr(itertools, n) for n in ("pairwise", "batched") if hasattr(itertools, n)],
    _html.escape, _html.unescape, _base64.b64encode, _base64.b64decode, _base64.urlsafe_b64encode, _base64.urlsafe_b64decode, _base64.b16encode, _base64.b16decode, _base64.b32encode, _base64.b32decode, collections.OrderedDict, collections.defaultdict, collections.deque, collections.Counter,
}


def _install(Interp):
    def _ext_modules(self):
        I = self
        noop = Builtin("noop", lambda *a, **k: None)

        def namedtuple(typename, field_names, *, rename=False, defaults=None, module=None):
            if isinstance(field_names, str):
                field_names = field_names.replace(",", " ").split()
            return NTBase(typename, list(field_names), tuple(defaults or ()))

        def attrgetter(*names):
            def get(o):
                vals = []
                for n in names:
                    v = o
                    for p in n.split("."):
                        v = I.getattr(v, p)
                    vals.append(v)
                return vals[0] if len(vals) == 1 else tuple(vals)
            return Builtin("attrgetter", get)

        def methodcaller(name, *a, **k):
            return Builtin("methodcaller", lambda o: I.call(I.getattr(o, name), list(a), k))

        def eq(a, b):
            return I.equals(a, b)

        def identity(x):
            return x

        def wraps(wrapped, *a, **k):
            def apply(f):
                if isinstance(f, FuncVal) and isinstance(wrapped, FuncVal):
                    f.name = wrapped.name
                return f
            return Builtin("wraps", apply)

        def memoised(f):
            """functools.lru_cache / functools.cache as they behave (fifth pass; they used to be modelled as the identity,
            which is right for a pure function of immutable arguments only): results are remembered per argument tuple,
            compared by the arguments' own __hash__ / __eq__ -- a method memoised on `self` keeps answering what it
            answered first although the object was changed since, and that is exactly what C01.i must see.  An evicted
            entry is recomputed, so an unbounded memo is the faithful over-approximation of every maxsize."""
            memo = {}

            def call(*a, **k):
                for x in list(a) + list(k.values()):
                    if isinstance(x, Obj) and isinstance(x._k_cref, ClassRef) and I.class_lookup(x._k_cref, "__eq__")[0] is not None and I.class_lookup(x._k_cref, "__hash__")[0] is None:
                        I.throw(TypeError, "unhashable type: %r" % x._k_cref.qn.split(".")[-1])
                key = (tuple(a), tuple(sorted(k.items())))
                try:
                    if key in memo:
                        return memo[key]
                except TypeError as ex:
                    raise Raised(ex)
                v = I.call(f, list(a), k)
                memo[key] = v
                return v
            # binds like the function it wraps when it is defined in a class body
            return SynthMethod("memoised:" + getattr(f, "name", "?"), call)

        def lru_cache(*a, **k):
            if len(a) == 1 and not k and isinstance(a[0], (FuncVal, BoundMethod, SynthMethod)):
                return memoised(a[0])
            return Builtin("lru_cache", memoised)

        def cached_property(f):
            """functools.cached_property as it behaves: computed on the first read and from then on read from the
            instance, until it is assigned or deleted (the host keeps the value in the instance dictionary under the
            attribute's name; here under a key of its own, which copy/deepcopy carry along just the same)"""
            key = "__k_cached_%d" % id(f)

            def fget(o):
                if not isinstance(o, INST):
                    raise Unsupported("cached_property read on a %s value" % type(o).__name__)
                if isinstance(o, Obj) and isinstance(o._k_cref, ClassRef) and I._slots(o._k_cref) is not None:
                    I.throw(TypeError, "No '__dict__' attribute on instance to cache the property")
                if key not in o._k_attrs:
                    o._k_attrs[key] = I.call(f, [o], {})
                return o._k_attrs[key]

            def fset(o, v):
                o._k_attrs[key] = v

            def fdel(o):
                if key not in o._k_attrs:
                    I.throw(AttributeError, getattr(f, "name", "cached_property"))
                del o._k_attrs[key]
            keep.append(f)  # id(f) stays unique while the property exists
            return Property(Builtin("cached_property.get", fget), Builtin("cached_property.set", fset), Builtin("cached_property.del", fdel))

        keep = []

        def getLogger(*a):
            return NullLogger()

        def contextmanager(f):
            def make(*a, **k):
                g = I.call(f, list(a), k)
                if not isinstance(g, types.GeneratorType):
                    I.throw(TypeError, "contextmanager function did not return a generator")
                return GenContext(g)
            # binds like the function it wraps when it is defined in a class body
            return SynthMethod("contextmanager:" + getattr(f, "name", "?"), make)

        def dc_is(o):
            q = o.qn if isinstance(o, ClassRef) else (o._k_cref.qn if isinstance(o, INST) and isinstance(o._k_cref, ClassRef) else None)
            return q is not None and I.dataclass_params(q) is not None

        def dc_need(o):
            if not (isinstance(o, INST) and dc_is(o)):
                I.throw(TypeError, "dataclass instance expected")

        def dc_replace(o, **changes):
            dc_need(o)
            kw = {}
            for name, _d, _f, opts in I.dataclass_fields(o._k_cref):
                if not opts["init"]:
                    if name in changes:
                        I.throw(ValueError, "field %s is declared with init=False, it cannot be specified with replace()" % name)
                    continue
                kw[name] = changes.pop(name) if name in changes else I.getattr(o, name)
            kw.update(changes)
            return I.instantiate(o._k_cref, [], kw)

        def dc_conv(v, asdict):
            if isinstance(v, INST) and dc_is(v):
                vals = [(f[0], dc_conv(I.getattr(v, f[0]), asdict)) for f in I.dataclass_fields(v._k_cref)]
                return dict(vals) if asdict else tuple(x for _n, x in vals)
            if isinstance(v, (list, tuple)) and not isinstance(v, TupleInst):
                return type(v)(dc_conv(x, asdict) for x in v)
            if isinstance(v, dict):
                return {dc_conv(k, asdict): dc_conv(x, asdict) for k, x in v.items()}
            return v

        def dc_astuple(o):
            dc_need(o)
            return dc_conv(o, False)

        def dc_asdict(o):
            dc_need(o)
            return dc_conv(o, True)

        # ---- copy.copy / copy.deepcopy (fifth pass: Message.copy() deep-copies the option set; whether the copy carries
        # state it should not -- e.g. a memoised serialisation -- is decided by evaluating it).  The model follows
        # Lib/copy.py: atomic values are returned as they are (numbers, strings, bytes, None, functions, classes, enum
        # members -- Enum.__deepcopy__ returns self); containers are rebuilt element-wise with a memo (shared references
        # stay shared, cycles terminate); an instance of a repository class is rebuilt through its own __deepcopy__ /
        # __copy__ where it defines one, else without calling __init__ from a copy of its state (instance dictionary and
        # slots; __getstate__ / __setstate__ honoured).  The __reduce__ family, a user-defined __new__, exceptions and
        # bound methods are refused, never guessed.
        _ATOMIC = (type(None), bool, int, float, complex, str, bytes, range, type, type(Ellipsis), type(NotImplemented))

        def _copy_protocol(x, deep):
            """(special method to call or None) for an instance of a repository class; refuses the protocols not modelled"""
            cref = x._k_cref
            for dn in ("__reduce_ex__", "__reduce__", "__getnewargs__", "__getnewargs_ex__"):
                if I.class_lookup(cref, dn)[0] is not None:
                    raise Unsupported("copy of an instance of %s, which defines %s" % (cref.qn, dn))
            if isinstance(x, Obj):
                if I.class_lookup(cref, "__new__")[0] is not None:
                    raise Unsupported("copy of an instance of %s, which defines __new__" % cref.qn)
                if I.kind_of(cref.qn) != "plain":
                    raise Unsupported("copy of an instance of %s (%s class)" % (cref.qn, I.kind_of(cref.qn)))
            return I.find_dunder(x, "__deepcopy__" if deep else "__copy__")

        def _rebuild(x, conv):
            """a new instance of x's class with the state of x passed through conv (identity: shallow, deep copy: deep)"""
            cref = x._k_cref
            gs = I.find_dunder(x, "__getstate__")
            ss_, _q = I.class_lookup(cref, "__setstate__")
            if isinstance(x, Obj):
                y = Obj(cref)
            elif isinstance(x, IntInst):
                y = IntInst(int(x), cref)
            else:
                y = TupleInst([conv(v) for v in tuple(x)], cref)
            state = gs() if gs is not None else None
            if ss_ is not None:
                if gs is None:
                    state = dict(x._k_attrs)
                I.call(ss_, [y, conv(state)], {})
                return y
            if gs is None:
                state = x._k_attrs
            elif isinstance(state, tuple) and len(state) == 2 and all(s is None or isinstance(s, dict) for s in state):
                state = {**(state[0] or {}), **(state[1] or {})}
            if state is None:
                return y
            if not isinstance(state, dict):
                raise Unsupported("copy of an instance of %s: __getstate__ returns a %s without __setstate__" % (cref.qn, type(state).__name__))
            for k, v in conv(dict(state)).items():
                y._k_attrs[k] = v
            return y

        def _deep(x, memo):
            I.tick()
            if isinstance(x, INST):
                cref = x._k_cref
                if isinstance(cref, NTBase):
                    if id(x) in memo:
                        return memo[id(x)]
                    y = TupleInst([_deep(v, memo) for v in tuple(x)], cref)
                elif I.kind_of(cref.qn) == "enum":
                    return x
                else:
                    if id(x) in memo:
                        return memo[id(x)]
                    f = _copy_protocol(x, True)
                    if f is not None:
                        y = f(memo)
                    elif isinstance(x, Obj):
                        y = Obj(cref)
                        memo[id(x)] = y  # registered before the state is copied: cycles through the instance terminate
                        gs = I.find_dunder(x, "__getstate__")
                        if gs is not None or I.class_lookup(cref, "__setstate__")[0] is not None:
                            z = _rebuild(x, lambda v: _deep(v, memo))
                            y._k_attrs.update(z._k_attrs)
                        else:
                            for k, v in list(x._k_attrs.items()):
                                y._k_attrs[k] = _deep(v, memo)
                    else:
                        y = _rebuild(x, lambda v: _deep(v, memo))
                memo[id(x)] = y
                memo.setdefault(id(memo), []).append(x)
                return y
            if isinstance(x, _ATOMIC) or isinstance(x, (FuncVal, ClassRef, NTBase, Builtin, ModuleVal, ExtModule, Property)) or isinstance(x, (types.BuiltinFunctionType, types.FunctionType)):
                return x
            if id(x) in memo:
                return memo[id(x)]
            if type(x) is list:
                y = []
                memo[id(x)] = y
                y.extend(_deep(v, memo) for v in x)
            elif type(x) is dict or type(x) is collections.OrderedDict:
                y = type(x)()
                memo[id(x)] = y
                for k, v in list(x.items()):
                    y[_deep(k, memo)] = _deep(v, memo)
            elif type(x) is collections.defaultdict:
                y = collections.defaultdict(x.default_factory)
                memo[id(x)] = y
                for k, v in list(x.items()):
                    y[_deep(k, memo)] = _deep(v, memo)
            elif type(x) is set:
                y = set()
                memo[id(x)] = y
                y.update(_deep(v, memo) for v in list(x))
            elif type(x) is collections.deque:
                y = collections.deque(maxlen=x.maxlen)
                memo[id(x)] = y
                y.extend(_deep(v, memo) for v in list(x))
            elif type(x) is bytearray:
                y = bytearray(x)
            elif type(x) is tuple or type(x) is frozenset:
                items = [_deep(v, memo) for v in x]
                y = x if all(a is b for a, b in zip(items, x)) else type(x)(items)
            else:
                raise Unsupported("copy.deepcopy of a %s value" % type(x).__name__)
            memo[id(x)] = y
            memo.setdefault(id(memo), []).append(x)  # keeps the original alive, as Lib/copy.py does: ids stay unique
            return y

        def deepcopy(x, memo=None):
            if memo is None:
                memo = {}
            elif not isinstance(memo, dict):
                raise Unsupported("copy.deepcopy with a memo that is not a dict")
            return _deep(x, memo)

        def shallowcopy(x):
            I.tick()
            if isinstance(x, INST):
                cref = x._k_cref
                if isinstance(cref, NTBase) or I.kind_of(cref.qn) == "enum":
                    return x
                f = _copy_protocol(x, False)
                if f is not None:
                    return f()
                return _rebuild(x, lambda v: v)
            if isinstance(x, _ATOMIC) or isinstance(x, (FuncVal, ClassRef, NTBase, Builtin, ModuleVal, ExtModule, Property, tuple, frozenset)) or isinstance(x, (types.BuiltinFunctionType, types.FunctionType)):
                return x
            if type(x) in (list, dict, set, bytearray, collections.OrderedDict, collections.defaultdict, collections.deque):
                return x.copy()
            raise Unsupported("copy.copy of a %s value" % type(x).__name__)

        enum_mod = ExtModule("enum", {
            "auto": Builtin("auto", lambda: _AUTO), "Enum": Poison("enum.Enum used as a value"), "IntEnum": Poison("enum.IntEnum used as a value"),
            "unique": Builtin("unique", identity), "EnumMeta": Poison("EnumMeta"), "EnumType": Poison("EnumType"),
        })
        typing_attrs = collections.defaultdict(lambda: None)
        mods = {
            "struct": ExtModule("struct", {"pack": struct.pack, "unpack": struct.unpack, "unpack_from": struct.unpack_from, "calcsize": struct.calcsize, "error": struct.error,
                                           "Struct": struct.Struct, "pack_into": struct.pack_into, "iter_unpack": struct.iter_unpack}),
            "io": ExtModule("io", {"BytesIO": _io.BytesIO, "StringIO": _io.StringIO}),
            "copy": ExtModule("copy", {"deepcopy": Builtin("deepcopy", deepcopy), "copy": Builtin("copy", shallowcopy)}),
            "types": ExtModule("types", {"MappingProxyType": types.MappingProxyType}),
            "codecs": ExtModule("codecs", {"encode": _codecs.encode, "decode": _codecs.decode, "utf_8_decode": _codecs.utf_8_decode, "utf_8_encode": _codecs.utf_8_encode}),
            "bisect": ExtModule("bisect", {n: getattr(_bisect, n) for n in ("bisect", "bisect_left", "bisect_right", "insort", "insort_left", "insort_right")}),
            "dataclasses": ExtModule("dataclasses", {"dataclass": Poison("dataclasses.dataclass used as a value (only its use as a class decorator is modelled)"), "field": Builtin("field", lambda **k: DCField(**k)),
                                                     "replace": Builtin("replace", dc_replace), "astuple": Builtin("astuple", dc_astuple), "asdict": Builtin("asdict", dc_asdict),
                                                     "is_dataclass": Builtin("is_dataclass", dc_is), "FrozenInstanceError": _dataclasses.FrozenInstanceError, "KW_ONLY": None, "MISSING": _dataclasses.MISSING}),
            "functools": ExtModule("functools", {"partial": functools.partial, "reduce": functools.reduce, "wraps": Builtin("wraps", wraps), "lru_cache": Builtin("lru_cache", lru_cache),
                                                 "cache": Builtin("cache", memoised), "cached_property": Builtin("cached_property", cached_property)}),
            "itertools": ExtModule("itertools", {n: getattr(itertools, n) for n in ("chain", "count", "islice", "repeat", "accumulate", "takewhile", "dropwhile", "zip_longest", "product", "starmap", "groupby", "cycle", "compress", "filterfalse",
                                                                                         "tee", "permutations", "combinations", "combinations_with_replacement", "pairwise", "batched") if hasattr(itertools, n)}),
            "collections": ExtModule("collections", {"namedtuple": Builtin("namedtuple", namedtuple), "OrderedDict": collections.OrderedDict, "defaultdict": collections.defaultdict,
                                                     "deque": collections.deque, "Counter": collections.Counter, "abc": ExtModule("collections.abc", {})}),
            "operator": ExtModule("operator", {"attrgetter": Builtin("attrgetter", attrgetter), "itemgetter": operator.itemgetter, "methodcaller": Builtin("methodcaller", methodcaller), "eq": Builtin("eq", eq),
                                               **{n: getattr(operator, n) for n in ("add", "sub", "mul", "or_", "and_", "xor", "lshift", "rshift", "floordiv", "mod", "neg", "lt", "le", "gt", "ge", "index", "getitem", "concat")}}),
            "warnings": ExtModule("warnings", {"warn": noop, "simplefilter": noop, "filterwarnings": noop}),
            "unicodedata": ExtModule("unicodedata", {n: getattr(unicodedata, n) for n in ("normalize", "category", "name", "lookup", "is_normalized")}),
            "binascii": ExtModule("binascii", {n: getattr(binascii, n) for n in ("hexlify", "unhexlify", "b2a_hex", "a2b_hex", "b2a_base64", "a2b_base64", "crc32", "Error")}),
            "math": ExtModule("math", {**{n: getattr(math, n) for n in ("ceil", "floor", "log2", "log", "sqrt", "gcd", "isnan", "isinf", "isfinite", "trunc")}, "inf": math.inf, "nan": math.nan, "pi": math.pi}),
            "string": ExtModule("string", {n: getattr(_string, n) for n in ("ascii_letters", "ascii_lowercase", "ascii_uppercase", "digits", "hexdigits", "punctuation", "printable", "whitespace")}),
            "enum": enum_mod,
            "abc": ExtModule("abc", {"abstractmethod": Builtin("abstractmethod", identity), "ABC": Poison("abc.ABC used as a value"), "ABCMeta": Poison("abc.ABCMeta used as a value"), "abstractproperty": Builtin("abstractproperty", lambda f: Property(f))}),
            "sys": ExtModule("sys", {"version_info": tuple(sys.version_info[:3]) + ("final", 0), "maxsize": sys.maxsize, "byteorder": sys.byteorder}),
            "html": ExtModule("html", {"escape": _html.escape, "unescape": _html.unescape}),
            "logging": ExtModule("logging", {"getLogger": Builtin("getLogger", getLogger), "DEBUG": 10, "INFO": 20, "WARNING": 30, "ERROR": 40}),
            "typing": ExtModule("typing", {"TYPE_CHECKING": False, "Optional": None, "Any": None, "Union": None, "cast": Builtin("cast", lambda t, v: v),
                                           "NamedTuple": Poison("typing.NamedTuple used as a value (only its use as a base class is modelled)"), "final": Builtin("final", identity),
                                           "overload": Builtin("overload", identity)}),
            "base64": ExtModule("base64", {n: getattr(_base64, n) for n in ("b64encode", "b64decode", "urlsafe_b64encode", "urlsafe_b64decode", "b16encode", "b16decode", "b32encode", "b32decode")}),
            "socket": ExtModule("socket", {n: int(getattr(_socket, n)) for n in dir(_socket) if n.isupper() and isinstance(getattr(_socket, n), int)}),
            "contextlib": ExtModule("contextlib", {"suppress": Builtin("suppress", lambda *t: Suppress(t)), "contextmanager": Builtin("contextmanager", contextmanager),
                                                   "nullcontext": Builtin("nullcontext", lambda v=None: NullContext(v))}),
            "weakref": ExtModule("weakref", {"ref": Builtin("ref", lambda o, cb=None: Builtin("weakref", lambda: o))}),
            "errno": ExtModule("errno", {n: getattr(_errno, n) for n in dir(_errno) if n.isupper() and isinstance(getattr(_errno, n), int)}),
        }
        return mods

    def _builtins(self):
        I = self

        def conv_iter(x):
            if isinstance(x, Obj) or isinstance(x, ClassRef) or (isinstance(x, INST) and I.find_dunder(x, "__iter__") is not None):
                return I.iterate(x)
            if isinstance(x, Poison):
                raise Unsupported(x.why)
            return x

        def iterwrap(fn):
            def w(*a, **k):
                return fn(*[conv_iter(x) for x in a], **k)
            return w

        def _str(*a, **k):
            if not a:
                return ""
            if len(a) == 1 and not k:
                return I.to_str(a[0])
            return str(*a, **k)

        def _repr(v):
            return I.to_repr(v)

        def _bool(v=False):
            return I.truth(v)

        def _len(v):
            if isinstance(v, INST):
                f = I.find_dunder(v, "__len__")
                if f is not None:
                    return f()
                if isinstance(v, Obj):
                    I.throw(TypeError, "object has no len()")
            if isinstance(v, ClassRef) and I.kind_of(v.qn) == "enum":
                return len(I.enum_state(v)["_member_names_"])
            I._host_operands(v)
            return len(v)

        def _int(*a, **k):
            if a and isinstance(a[0], Obj):
                for dn in ("__int__", "__index__"):
                    f = I.find_dunder(a[0], dn)
                    if f is not None:
                        return f()
                I.throw(TypeError, "int() argument must be a string, a bytes-like object or a real number")
            if a:
                I._host_operands(a[0])
            return int(*a, **k)

        def _bytes(*a, **k):
            if a and isinstance(a[0], Obj):
                f = I.find_dunder(a[0], "__bytes__")
                if f is not None:
                    return f()
                return bytes(I.iterate(a[0]))
            if a:
                I._host_operands(a[0])
            return bytes(*a, **k)

        def classinfo_match(v, c):
            if isinstance(c, tuple):
                return any(classinfo_match(v, x) for x in c)
            if isinstance(c, ClassRef):
                return isinstance(v, INST) and isinstance(v._k_cref, ClassRef) and c.qn in I.mro(v._k_cref)
            if isinstance(c, NTBase):
                if not isinstance(v, TupleInst):
                    return False
                return v._k_cref is c or (isinstance(v._k_cref, ClassRef) and I.kind_extra(v._k_cref.qn) is c)
            if isinstance(c, type):
                if isinstance(v, BaseException):
                    return isinstance(v, c)
                if issubclass(c, BaseException):
                    return isinstance(v, Obj) and c.__name__ in I.exc_names(v)
                if isinstance(v, Obj):
                    return c is object
                if isinstance(v, (ClassRef, FuncVal, BoundMethod, ModuleVal, ExtModule, Builtin, Property, NTBase)):
                    return c is object or (c is type and isinstance(v, (ClassRef, NTBase)))
                return isinstance(v, c)
            if isinstance(c, Poison):
                raise Unsupported(c.why)
            raise Unsupported("isinstance against %r" % (c,))

        self._classinfo_match = classinfo_match

        def _isinstance(v, c):
            return classinfo_match(v, c)

        def _issubclass(a, c):
            if isinstance(c, tuple):
                return any(_issubclass(a, x) for x in c)
            if isinstance(a, ClassRef):
                if isinstance(c, ClassRef):
                    return c.qn in I.mro(a)
                if isinstance(c, type):
                    return c is object or c.__name__ in [q.split(".")[-1] for q in I.mro(a)]
            if isinstance(a, type) and isinstance(c, type):
                return issubclass(a, c)
            if isinstance(a, type) and isinstance(c, ClassRef):
                return False
            raise Unsupported("issubclass(%r, %r)" % (a, c))

        def _getattr(o, name, *d):
            try:
                return I.getattr(o, name)
            except Raised as r:
                if d and I.exc_matches(r.exc, AttributeError):
                    return d[0]
                raise

        def _type(*a):
            if len(a) != 1:
                raise Unsupported("three-argument type()")
            v = a[0]
            if isinstance(v, INST):
                return v._k_cref
            if isinstance(v, (ClassRef, NTBase)):
                return type
            if isinstance(v, SAFE_TYPES) or isinstance(v, BaseException):
                return type(v)
            raise Unsupported("type() of a %s value" % type(v).__name__)

        def _iter(v, *s):
            if s:
                def until():
                    while True:
                        I.tick()
                        x = I.call(v, [], {})
                        if I.truth(I.equals(x, s[0])):
                            return
                        yield x
                return until()
            return I.iterate(v)

        def _next(it, *d):
            if isinstance(it, INST):
                f = I.find_dunder(it, "__next__")
                if f is None:
                    I.throw(TypeError, "object is not an iterator")
                try:
                    return f()
                except Raised as r:
                    if d and I.exc_matches(r.exc, StopIteration):
                        return d[0]
                    raise
            if not isinstance(it, _ITER_TYPES):
                I.throw(TypeError, "%s object is not an iterator" % type(it).__name__)
            try:
                return next(it)
            except StopIteration as e:
                if d:
                    return d[0]
                raise Raised(e)

        def _hash(v):
            return hash(v)

        def _callable(v):
            return isinstance(v, (FuncVal, BoundMethod, ClassRef, Builtin, NTBase, functools.partial)) or (isinstance(v, INST) and I.find_dunder(v, "__call__") is not None) or (not isinstance(v, INST) and callable(v))

        def _format(v, spec=""):
            return I.format_value(v, spec)

        def _property(fget=None, fset=None, fdel=None, doc=None):
            return Property(fget, fset, fdel, doc)

        def _vars(o):
            if isinstance(o, INST):
                return o._k_attrs
            raise Unsupported("vars()")

        def _sorted(it, *, key=None, reverse=False):
            items = list(conv_iter(it))
            if key is None and any(isinstance(x, Obj) for x in items):
                key = None
                return sorted(items, key=functools.cmp_to_key(lambda a, b: -1 if I.truth(I.compare(ast.Lt(), a, b)) else (1 if I.truth(I.compare(ast.Lt(), b, a)) else 0)), reverse=reverse)
            return sorted(items, key=key, reverse=reverse)

        b = {
            "len": Builtin("len", _len), "str": str, "repr": Builtin("repr", _repr), "bool": bool, "int": int, "bytes": bytes, "bytearray": bytearray, "float": float,
            "tuple": tuple, "list": list, "dict": dict, "set": set, "frozenset": frozenset, "object": object, "type": type, "complex": complex, "memoryview": memoryview,
            "isinstance": Builtin("isinstance", _isinstance), "issubclass": Builtin("issubclass", _issubclass), "getattr": Builtin("getattr", _getattr),
            "hasattr": Builtin("hasattr", lambda o, n: I.hasattr(o, n)), "setattr": Builtin("setattr", lambda o, n, v: I.setattr(o, n, v)), "delattr": Builtin("delattr", lambda o, n: I.delattr(o, n)),
            "iter": Builtin("iter", _iter), "next": Builtin("next", _next), "hash": Builtin("hash", _hash), "callable": Builtin("callable", _callable), "format": Builtin("format", _format),
            "property": Builtin("property", _property), "staticmethod": Builtin("staticmethod", lambda f: StaticMethod(f)), "classmethod": Builtin("classmethod", lambda f: ClassMethod(f)),
            "print": Builtin("print", lambda *a, **k: None), "vars": Builtin("vars", _vars), "sorted": Builtin("sorted", _sorted),
            "min": Builtin("min", iterwrap(min)), "max": Builtin("max", iterwrap(max)), "sum": Builtin("sum", iterwrap(sum)), "any": Builtin("any", lambda it: any(I.truth(x) for x in conv_iter(it))),
            "all": Builtin("all", lambda it: all(I.truth(x) for x in conv_iter(it))), "enumerate": Builtin("enumerate", iterwrap(enumerate)), "zip": Builtin("zip", iterwrap(zip)),
            "map": Builtin("map", iterwrap(map)), "filter": Builtin("filter", lambda f, it: filter((lambda x: I.truth(x)) if f is None else (lambda x: I.truth(f(x))), conv_iter(it))),
            "reversed": Builtin("reversed", iterwrap(reversed)),
            "abs": abs, "divmod": divmod, "pow": pow, "round": round, "ord": ord, "chr": chr, "hex": hex, "bin": bin, "oct": oct, "range": range, "slice": slice, "id": id, "ascii": ascii,
            "NotImplemented": NotImplemented, "Ellipsis": Ellipsis, "True": True, "False": False, "None": None, "__debug__": True,
        }
        for n, c in HOST_EXC.items():
            b[n] = c
        # constructors of host types applied to interpreted objects
        self._special = {}
        for host, model in ((str, _str), (bool, _bool), (int, _int), (bytes, _bytes), (type, _type), (list, iterwrap(list)), (tuple, iterwrap(tuple)), (set, iterwrap(set)),
                            (frozenset, iterwrap(frozenset)), (dict, iterwrap(dict)), (bytearray, iterwrap(bytearray))):
            self._special[id(host)] = (host, self._prim(model))
        return b

    def _prim(self, fn):
        def w(*a, **k):
            try:
                return fn(*a, **k)
            except Raised:
                raise
            except AnalysisError:
                raise
            except _PRIM_EXC as e:
                raise Raised(e)
        return w

    Interp._ext_modules = _ext_modules
    Interp._builtins = _builtins
    Interp._prim = _prim


_install(Interp)


# ---------------------------------------------------------------------------
# running a scenario


class Outcome:
    """result of one evaluation: .ok with .value, or an interpreted exception with .exc / .names"""

    def __init__(self, interp, value=None, exc=None):
        self.ok = exc is None
        self.value = value
        self.exc = exc
        self.names = interp.exc_names(exc) if exc is not None else []

    def raised(self, qn_or_name):
        return (not self.ok) and qn_or_name in self.names

    def describe(self):
        if self.ok:
            return "returned %r" % (self.value,)
        return "raised %s" % self.names[0]


def run(interp, f, *args, **kwargs):
    try:
        return Outcome(interp, value=interp.call(f, list(args), kwargs))
    except Raised as r:
        return Outcome(interp, exc=r.exc)
    except RecursionError:
        raise Unsupported("host recursion limit reached while evaluating")


def attempt(interp, fn):
    """run a checker-side function that drives the evaluator; an interpreted exception becomes an Outcome"""
    try:
        return Outcome(interp, value=fn())
    except Raised as r:
        return Outcome(interp, exc=r.exc)
    except RecursionError:
        raise Unsupported("host recursion limit reached while evaluating")
