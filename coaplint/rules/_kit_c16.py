"""Helpers private to the C16 rule module (not a rule module itself).

Three decision tools, all working on syntax trees only (nothing of the analysed
repository is imported or executed):

* `Evaluator` -- the checker's own evaluator for *closed* expressions over a
  small pure vocabulary (constants, arithmetic, string formatting, comprehensions
  over finite ranges, a whitelist of pure builtins and str methods).  It is used
  for finite-domain decisions: "what does this per-byte expression produce for
  each of the 256 byte values", "which octet strings satisfy this predicate".
* `Exec` -- a symbolic executor for small, loop-free (or loop-canonicalisable)
  functions.  Locals are substituted by their defining expressions, helper
  functions that are not anchors of the confirmed tree are executed in place
  (whatever their shape: early returns, nested ifs, loops that search or
  accumulate), conditional expressions are hoisted into path conditions.  The
  result is a list of *outcomes*: the ordered conditions, field stores and
  evaluated expressions of one path, and how it ends (return value / raised
  class / fall off the end).  Rules phrase "X is stored exactly when C" over
  these outcomes, so they are indifferent to early returns against nesting,
  hoisted locals, extracted helpers, guard order and De Morgan forms.
  Loop vocabulary (`_for1`): a `for` over a short literal is unrolled; a loop
  that leaves early is a decision on `any(..)`; a loop that extends locals is
  replaced by the closed form of every extended local -- list (append / extend
  / `+=` / `xs = xs + [..]` / `[*xs, ..]`), set (add / update / `|=`), dict
  (`d[k] = v` / update / `|=`), str and int (`+=` / `s = s + ..`) -- with any
  number of parts per iteration and a number that depends on the path through
  the body: `[y for x in it for y in PARTS(x)]` where PARTS is the decision
  tree of the body (one list display per path).  Locals re-bound by the body
  are per-iteration temporaries, or flags (`ok = False` on some iterations ->
  `not any(..)` afterwards).  The body is executed once, on the pre-loop
  state, which is only sound when no iteration reads what another wrote:
  every use of a pre-loop value of a local the loop changes is found (by
  identity; constants are replaced by markers first, so they can neither be
  folded into decisions nor confused with equal literals) and refused, except
  the two reads with a closed form: emptiness of a list every iteration adds
  to (`if parts: parts.append(sep)`) and a first-iteration flag, both
  rewritten to `index > 0` over `enumerate(it)`.  The loop variable is
  alpha-renamed when it would capture a free name of a pending value
  (`free_names` is scope-aware: comprehension / lambda binders are not free).
* `BoolSpace` -- truth-table reasoning over path conditions: atoms are
  normalised (`!=`/`not in`/mirrored operands are the same atom), comparisons of
  one subject against constants are evaluated over a finite universe built from
  the constants involved (so `x in ("", "/")`, `x == "" or x == "/"` and
  `not x or x == "/"` coincide), everything else is an uninterpreted boolean.
"""

import ast
import copy
import functools as _functools
import os
import urllib.parse as _urlparse

from ..rulekit import *
from ..model import AnalysisError
from ..norm import NormError
from .. import norm
from ..inline import baseline
from ..paths import atom_key
from ._c16c17kit import const_in_module, raised_class


# ---------------------------------------------------------------------------
# small AST utilities


def txt(e, limit=160):
    try:
        s = " ".join(ast.unparse(e).split())
    except Exception:
        s = "<%s>" % type(e).__name__
    return s if len(s) <= limit else s[: limit - 3] + "..."


def src_of(n):
    """The node of the analysed tree a (copied) node stems from."""
    return getattr(n, "_src", n)


def mk_not(e):
    if isinstance(e, ast.UnaryOp) and isinstance(e.op, ast.Not):
        return e.operand
    return ast.UnaryOp(op=ast.Not(), operand=e)


def mk_and(parts):
    parts = list(parts)
    if not parts:
        return ast.Constant(value=True)
    return parts[0] if len(parts) == 1 else ast.BoolOp(op=ast.And(), values=parts)


def mk_or(parts):
    parts = list(parts)
    if not parts:
        return ast.Constant(value=False)
    return parts[0] if len(parts) == 1 else ast.BoolOp(op=ast.Or(), values=parts)


def cond_expr(e, pol):
    return e if pol else mk_not(e)


RAISE = "__raise__"
YIELDED = "__yielded__"


def raise_leaf(cls):
    return ast.Call(func=ast.Name(id=RAISE, ctx=ast.Load()), args=[ast.Constant(value=cls)], keywords=[])


def is_raise_leaf(e):
    return isinstance(e, ast.Call) and isinstance(e.func, ast.Name) and e.func.id == RAISE


def free_names(e, _cache={}):
    """Names that occur FREE in expression e: a name bound by a comprehension
    generator or a lambda parameter inside e is not free in e (the iterable of
    the first generator and the defaults of a lambda are evaluated outside the
    binder's scope; later generators see the targets of the earlier ones)."""
    k = id(e)
    hit = _cache.get(k)
    if hit is not None and hit[0] is e:
        return hit[1]
    out = set()

    def walk(n, bound):
        if isinstance(n, ast.Name):
            if n.id not in bound:
                out.add(n.id)
            return
        if isinstance(n, (ast.ListComp, ast.SetComp, ast.GeneratorExp, ast.DictComp)):
            b = bound
            for g in n.generators:
                walk(g.iter, b)
                b = b | set(target_names(g.target))
                for c in g.ifs:
                    walk(c, b)
            if isinstance(n, ast.DictComp):
                walk(n.key, b)
                walk(n.value, b)
            else:
                walk(n.elt, b)
            return
        if isinstance(n, ast.Lambda):
            a = n.args
            for d in list(a.defaults) + [d for d in a.kw_defaults if d is not None]:
                walk(d, bound)
            b = bound | {x.arg for x in a.posonlyargs + a.args + a.kwonlyargs} | ({a.vararg.arg} if a.vararg else set()) | ({a.kwarg.arg} if a.kwarg else set())
            walk(n.body, b)
            return
        for ch in ast.iter_child_nodes(n):
            walk(ch, bound)

    walk(e, frozenset())
    if len(_cache) > 20000:
        _cache.clear()
    _cache[k] = (e, out)
    return out


def target_names(t):
    return [n.id for n in ast.walk(t) if isinstance(n, ast.Name)]


def qual_name(prog, module, e):
    """Qualified dotted name of a Name/Attribute chain or of the callee of a
    call, resolved in the module the expression was written in (copied nodes
    remember it), with import aliases expanded: `urllib.parse.unquote`,
    `aiocoap.util.hostportjoin`, ... or None."""
    if isinstance(e, ast.Call):
        e = e.func
    c = chain(e)
    if not c:
        return None
    root = e
    while isinstance(root, ast.Attribute):
        root = root.value
    m = getattr(root, "_mod", None) or module
    if getattr(root, "_local", False):
        return c
    parts = c.split(".")
    if parts[0] in m.imports:
        q = ".".join([m.imports[parts[0]]] + parts[1:])
        return prog.canonical(q)
    q = prog.resolve_in_module(m, c)
    return q


# ---------------------------------------------------------------------------
# evaluator for closed expressions


class _Other:
    """A value unequal to every constant: the 'anything else' element of a finite universe."""

    def __repr__(self):
        return "<other>"

    def __bool__(self):
        return True

    def __eq__(self, o):
        return o is self

    def __ne__(self, o):
        return o is not self

    def __hash__(self):
        return 7


OTHER = _Other()

_STR_METHODS = {
    "join", "split", "rsplit", "lower", "upper", "startswith", "endswith", "strip", "lstrip", "rstrip", "format", "encode",
    "replace", "count", "zfill", "isdigit", "isdecimal", "isascii", "translate", "partition", "rpartition", "find", "rjust", "ljust", "removeprefix", "removesuffix",
}
_BYTES_METHODS = {"decode", "hex", "startswith", "endswith", "count"}
_SEQ_METHODS = {"index", "count", "copy", "__getitem__", "__contains__"}
_DICT_METHODS = {"get", "items", "keys", "values", "copy", "__getitem__", "__contains__"}
_SET_METHODS = {"issubset", "issuperset", "union", "intersection", "difference", "isdisjoint", "copy", "__contains__"}
_BUILTINS = {
    "chr": chr, "ord": ord, "len": len, "set": set, "frozenset": frozenset, "list": list, "tuple": tuple, "dict": dict, "str": str,
    "int": int, "bool": bool, "min": min, "max": max, "sorted": sorted, "any": any, "all": all, "zip": zip, "enumerate": enumerate,
    "sum": sum, "bytes": bytes, "map": lambda f, *its: [f(*a) for a in zip(*its)], "filter": lambda f, it: [x for x in it if (f(x) if f is not None else x)], "hex": hex, "format": format, "repr": repr, "reversed": reversed, "abs": abs, "divmod": divmod, "bytearray": bytes,
}
_EXTERNALS = {
    "functools.partial": _functools.partial,
    "str.maketrans": str.maketrans,
    "urllib.parse.unquote": _urlparse.unquote,
    "urllib.parse.unquote_plus": _urlparse.unquote_plus,
    "urllib.parse.unquote_to_bytes": _urlparse.unquote_to_bytes,
    "urllib.parse.quote": _urlparse.quote,
    "urllib.parse.quote_plus": _urlparse.quote_plus,
    "str.join": str.join,
}
_BINOPS = {
    ast.Add: lambda a, b: a + b, ast.Sub: lambda a, b: a - b, ast.Mult: lambda a, b: a * b if not (isinstance(a, int) and isinstance(b, int)) or abs(a) < 1 << 64 and abs(b) < 1 << 64 else _bad("operand too large"),
    ast.Pow: lambda a, b: a ** b if isinstance(b, int) and abs(b) < 200 else _bad("exponent too large"),
    ast.LShift: lambda a, b: a << b if b < 200 else _bad("shift too large"), ast.RShift: lambda a, b: a >> b, ast.BitOr: lambda a, b: a | b,
    ast.BitAnd: lambda a, b: a & b, ast.BitXor: lambda a, b: a ^ b, ast.FloorDiv: lambda a, b: a // b, ast.Div: lambda a, b: a / b, ast.Mod: lambda a, b: a % b,
}
_CMPOPS = {
    ast.Eq: lambda a, b: a == b, ast.NotEq: lambda a, b: a != b, ast.Lt: lambda a, b: a < b, ast.LtE: lambda a, b: a <= b, ast.Gt: lambda a, b: a > b,
    ast.GtE: lambda a, b: a >= b, ast.Is: lambda a, b: a is b or (a == b and type(a) is type(b) and isinstance(a, (str, int, bool, type(None)))),
    ast.IsNot: lambda a, b: not (a is b or (a == b and type(a) is type(b) and isinstance(a, (str, int, bool, type(None))))),
    ast.In: lambda a, b: a in b, ast.NotIn: lambda a, b: a not in b,
}


def _bad(msg):
    raise NormError(msg)


def const_def(prog, module, name, _seen=None):
    """(defining module, value expr) of a module-level name like _c16c17kit.const_in_module, which follows
    `from x import name`; in addition a name that reaches the module through `from x import *` of a package module
    (aiocoap/__init__.py re-exports numbers that way; the program model's import table has no entry for star imports:
    engine limitation, worked around here) is followed into x."""
    r = const_in_module(prog, module, name)
    if r is not None:
        return r
    seen = _seen if _seen is not None else set()
    if (module.name, name) in seen:
        return None
    seen.add((module.name, name))
    nxt = []
    if name in module.imports:
        modname, _, nm = prog.canonical(module.imports[name]).rpartition(".")
        if modname in prog.modules:
            nxt.append((prog.modules[modname], nm))
    else:
        is_pkg = (getattr(module, "path", "") or "").endswith("__init__.py")
        for st in module.tree.body:
            if isinstance(st, ast.ImportFrom) and any(a.name == "*" for a in st.names):
                base = module.name.split(".")
                if st.level:
                    base = base[:len(base) - (st.level - (1 if is_pkg else 0))]
                    target = ".".join(base + ([st.module] if st.module else []))
                else:
                    target = st.module or ""
                if target in prog.modules:
                    nxt.append((prog.modules[target], name))
    for m2, nm in nxt:
        r = const_def(prog, m2, nm, seen)
        if r is not None:
            return r
    return None


class EvalRaised(Exception):
    """The evaluated expression itself raises (e.g. int('') -> ValueError)."""

    def __init__(self, exc):
        Exception.__init__(self, repr(exc))
        self.exc = exc


class Evaluator:
    """Evaluate closed expressions.  Names are looked up in `env`, then as
    module-level constants of the package (followed through imports), then in
    the table of tabulated stdlib constants.  Anything outside the vocabulary
    raises NormError; an exception of the evaluated operation itself raises
    EvalRaised."""

    def __init__(self, prog):
        self.prog = prog
        self._const = {}

    def const(self, module, name, depth=0):
        k = (module.name, name)
        if k in self._const:
            v = self._const[k]
            if v is _PENDING:
                raise NormError("cyclic constant %s" % name)
            return v
        r = const_def(self.prog, module, name)
        if r is None:
            raise NormError("not a constant: %s" % name)
        self._const[k] = _PENDING
        try:
            v = self.ev(r[1], r[0], {})
        except BaseException:
            del self._const[k]
            raise
        self._const[k] = v
        return v

    def try_ev(self, e, module, env=None, default=None):
        try:
            return self.ev(e, module, env or {})
        except (NormError, EvalRaised):
            return default

    def ev(self, e, module, env):
        try:
            return self._ev(e, module, env)
        except (NormError, EvalRaised):
            raise
        except RecursionError:
            raise NormError("expression too deep")
        except Exception as ex:  # an exception of the evaluated operation
            raise EvalRaised(ex)

    def _name(self, e, module, env):
        c = chain(e)
        if isinstance(e, ast.Name) and e.id in env:
            return env[e.id]
        if c in norm._CONST_NAMES:
            return norm._CONST_NAMES[c]
        if isinstance(e, ast.Name) and getattr(e, "_local", False):
            raise NormError("unbound local %s" % e.id)
        if isinstance(e, ast.Name) and e.id in _BUILTINS:
            return _BUILTINS[e.id]
        root = e
        while isinstance(root, ast.Attribute):
            root = root.value
        m = getattr(root, "_mod", None) or module
        if isinstance(e, ast.Name):
            if m is None:
                raise NormError("not a constant: %s" % c)
            return self.const(m, e.id)
        # module.CONST through an import alias
        if c and m is not None:
            parts = c.split(".")
            if parts[0] in m.imports:
                q = self.prog.canonical(".".join([m.imports[parts[0]]] + parts[1:]))
                if q in norm._CONST_NAMES:
                    return norm._CONST_NAMES[q]
                modname, _, nm = q.rpartition(".")
                if modname in self.prog.modules:
                    return self.const(self.prog.modules[modname], nm)
        raise NormError("not a constant: %s" % (c or txt(e, 40)))

    def _comp(self, gens, module, env, emit):
        def rec(i, env):
            if i == len(gens):
                emit(env)
                return
            g = gens[i]
            it = self._ev(g.iter, module, env)
            n = 0
            for item in it:
                n += 1
                if n > 70000:
                    raise NormError("iteration too long")
                env2 = dict(env)
                self._bind(g.target, item, env2)
                if all(self._ev(c, module, env2) for c in g.ifs):
                    rec(i + 1, env2)
        rec(0, env)

    def _bind(self, t, v, env):
        if isinstance(t, ast.Name):
            env[t.id] = v
        elif isinstance(t, (ast.Tuple, ast.List)):
            vs = list(v)
            if len(vs) != len(t.elts):
                raise EvalRaised(ValueError("unpack"))
            for a, b in zip(t.elts, vs):
                self._bind(a, b, env)
        else:
            raise NormError("binding target")

    def _ev(self, e, module, env):
        if isinstance(e, ast.Constant):
            return e.value
        if isinstance(e, (ast.Name, ast.Attribute)):
            if isinstance(e, ast.Attribute) and chain(e) is None:
                raise NormError("attribute of a computed value")
            if isinstance(e, ast.Attribute) and not (isinstance(e.value, ast.Name) and e.value.id in env):
                q = qual_name(self.prog, module, e)
                if q in _EXTERNALS:
                    return _EXTERNALS[q]
            if isinstance(e, ast.Attribute) and isinstance(e.value, ast.Name) and e.value.id in env:
                # a pure method of a value, taken as a value (`map(table.__getitem__, data)`)
                recv = env[e.value.id]
                if self._pure_method(recv, e.attr):
                    return getattr(recv, e.attr)
            return self._name(e, module, env)
        if isinstance(e, ast.UnaryOp):
            v = self._ev(e.operand, module, env)
            if isinstance(e.op, ast.Not):
                return not v
            if isinstance(e.op, ast.USub):
                return -v
            if isinstance(e.op, ast.UAdd):
                return +v
            return ~v
        if isinstance(e, ast.BinOp):
            f = _BINOPS.get(type(e.op))
            if f is None:
                raise NormError("operator")
            return f(self._ev(e.left, module, env), self._ev(e.right, module, env))
        if isinstance(e, ast.BoolOp):
            v = None
            for x in e.values:
                v = self._ev(x, module, env)
                if isinstance(e.op, ast.And) and not v:
                    return v
                if isinstance(e.op, ast.Or) and v:
                    return v
            return v
        if isinstance(e, ast.Compare):
            l = self._ev(e.left, module, env)
            for op, r_ in zip(e.ops, e.comparators):
                r = self._ev(r_, module, env)
                if not _CMPOPS[type(op)](l, r):
                    return False
                l = r
            return True
        if isinstance(e, ast.IfExp):
            return self._ev(e.body if self._ev(e.test, module, env) else e.orelse, module, env)
        if isinstance(e, (ast.Tuple, ast.List, ast.Set)):
            out = []
            for x in e.elts:
                if isinstance(x, ast.Starred):
                    out.extend(self._ev(x.value, module, env))
                else:
                    out.append(self._ev(x, module, env))
            return tuple(out) if isinstance(e, ast.Tuple) else (out if isinstance(e, ast.List) else set(out))
        if isinstance(e, ast.Dict):
            d = {}
            for k, v in zip(e.keys, e.values):
                if k is None:
                    d.update(self._ev(v, module, env))
                else:
                    d[self._ev(k, module, env)] = self._ev(v, module, env)
            return d
        if isinstance(e, (ast.ListComp, ast.SetComp, ast.GeneratorExp)):
            out = []
            self._comp(e.generators, module, env, lambda env2: out.append(self._ev(e.elt, module, env2)))
            return set(out) if isinstance(e, ast.SetComp) else out
        if isinstance(e, ast.DictComp):
            d = {}
            self._comp(e.generators, module, env, lambda env2: d.__setitem__(self._ev(e.key, module, env2), self._ev(e.value, module, env2)))
            return d
        if isinstance(e, ast.Subscript):
            v = self._ev(e.value, module, env)
            if isinstance(e.slice, ast.Slice):
                s = e.slice
                lo, hi, st = [None if x is None else self._ev(x, module, env) for x in (s.lower, s.upper, s.step)]
                return v[lo:hi:st]
            return v[self._ev(e.slice, module, env)]
        if isinstance(e, ast.JoinedStr):
            out = []
            for p in e.values:
                if isinstance(p, ast.Constant):
                    out.append(str(p.value))
                else:
                    v = self._ev(p.value, module, env)
                    if p.conversion == 114:
                        v = repr(v)
                    elif p.conversion == 115:
                        v = str(v)
                    elif p.conversion == 97:
                        v = ascii(v)
                    spec = self._ev(p.format_spec, module, env) if p.format_spec is not None else ""
                    out.append(format(v, spec))
            return "".join(out)
        if isinstance(e, ast.Lambda):
            a = e.args
            if a.vararg or a.kwarg or a.kwonlyargs or a.defaults:
                raise NormError("lambda signature")
            names = [x.arg for x in a.posonlyargs + a.args]

            def fn(*vals):
                if len(vals) != len(names):
                    raise EvalRaised(TypeError("arity"))
                env2 = dict(env)
                env2.update(zip(names, vals))
                return self._ev(e.body, module, env2)
            return fn
        if isinstance(e, ast.Call):
            return self._call(e, module, env)
        raise NormError("unsupported %s" % type(e).__name__)

    @staticmethod
    def _pure_method(recv, attr):
        return (isinstance(recv, str) and attr in _STR_METHODS) or (isinstance(recv, bytes) and attr in _BYTES_METHODS) \
            or (isinstance(recv, (list, tuple)) and attr in _SEQ_METHODS) or (isinstance(recv, dict) and attr in _DICT_METHODS) \
            or (isinstance(recv, (set, frozenset)) and attr in _SET_METHODS)

    def _call(self, e, module, env):
        if any(isinstance(a, ast.Starred) for a in e.args) or any(k.arg is None for k in e.keywords):
            raise NormError("star arguments")
        f = e.func
        if isinstance(f, ast.Name) and f.id in env and callable(env[f.id]):
            fn = env[f.id]
        elif isinstance(f, ast.Name) and f.id in _BUILTINS and f.id not in env:
            fn = _BUILTINS[f.id]
            if f.id == "range":
                fn = None
        elif isinstance(f, ast.Name) and f.id == "range":
            fn = None
        else:
            q = qual_name(self.prog, module, f) if chain(f) else None
            if q in _EXTERNALS:
                fn = _EXTERNALS[q]
            elif isinstance(f, ast.Attribute):
                recv = self._ev(f.value, module, env)
                if not self._pure_method(recv, f.attr):
                    raise NormError("method %s of %s" % (f.attr, type(recv).__name__))
                fn = getattr(recv, f.attr)
            elif isinstance(f, ast.Lambda):
                fn = self._ev(f, module, env)
            else:
                raise NormError("call of %s" % txt(f, 40))
        args = [self._ev(a, module, env) for a in e.args]
        kw = {k.arg: self._ev(k.value, module, env) for k in e.keywords}
        if fn is None:  # range
            r = range(*args)
            if len(r) > 70000:
                raise NormError("range too long")
            return r
        v = fn(*args, **kw)
        if isinstance(v, (zip, enumerate, reversed)) or type(v).__name__ in ("dict_items", "dict_keys", "dict_values"):
            v = list(v)
        return v


_PENDING = object()
_BUILTINS["range"] = range


# ---------------------------------------------------------------------------
# symbolic execution


class St:
    """One path in progress: env (local -> closed expression), trace (ordered
    events), end (None while running)."""

    __slots__ = ("env", "trace", "end", "flags")

    def __init__(self, env, trace=None):
        self.env = env
        self.trace = trace if trace is not None else []
        self.end = None
        self.flags = set()

    def fork(self):
        s = St(dict(self.env), list(self.trace))
        s.end = self.end
        s.flags = set(self.flags)
        return s

    # -- queries ---------------------------------------------------------
    def conds(self, upto=None):
        tr = self.trace if upto is None else self.trace[:upto]
        return [(ev[1], ev[2]) for ev in tr if ev[0] == "cond"]

    def stores(self):
        return [(i, ev[1], ev[2], ev[3]) for i, ev in enumerate(self.trace) if ev[0] == "store"]

    def last_store(self, target):
        hit = None
        for i, ev in enumerate(self.trace):
            if ev[0] == "store" and ev[1] == target:
                hit = (i, ev[2], ev[3])
        return hit

    def exprs(self):
        """every expression evaluated on the path (conditions, stored and bound values, expression statements)"""
        return [ev[1] if ev[0] in ("cond", "eval") else ev[2] for ev in self.trace if ev[0] in ("cond", "eval", "store") and (ev[1] if ev[0] != "store" else ev[2]) is not None]

    @property
    def exceptional(self):
        return any(ev[0] == "exc" for ev in self.trace)

    @property
    def normal(self):
        return self.end is None or self.end[0] in ("return", "fall")

    def describe(self):
        return " and ".join(txt(cond_expr(e, p), 70) for e, p in self.conds()) or "<unconditional>"


class Frame:
    def __init__(self, fi, depth, stack, locals_=(), parent=None):
        self.fi = fi
        self.module = fi.module
        self.cls = fi.cls
        self.depth = depth
        self.stack = stack
        self.locals = set(locals_)
        self.handler_cls = list(parent.handler_cls) if parent is not None else []
        self.handler_names = dict(parent.handler_names) if parent is not None else {}


class Closure:
    def __init__(self, fi, env):
        self.fi = fi
        self.env = env


_LOG_ROOTS = ("log", "_alglog", "logger", "logging")


class Exec:
    """Symbolic executor (see module docstring).  `transparent(fi)` decides which
    package functions are executed in place when called; by default every
    function that is not an anchor of the confirmed tree (baseline_functions)."""

    def __init__(self, prog, transparent=None, max_states=4000, max_depth=6):
        self.prog = prog
        self.base = baseline()
        self.transparent = transparent or self._is_helper
        self.max_states = max_states
        self.max_depth = max_depth
        self._uid = 0
        self.inlined = []  # qualified names of helpers executed in place
        self.opaque_calls = []

    # -- which callees are seen through --------------------------------
    def _is_helper(self, fi):
        if fi.qn in self.base or (fi.name.startswith("__") and fi.name.endswith("__")):
            return False
        return True

    def _eligible(self, fi):
        n = fi.node
        if not isinstance(n, ast.FunctionDef):
            return False
        a = n.args
        if a.vararg or a.kwarg:
            return False
        for d in n.decorator_list:
            if chain(d) not in ("staticmethod", "classmethod"):
                return False
        yields = set()
        for x in walk_no_nested(n):
            if isinstance(x, ast.Await):
                return False
            if isinstance(x, (ast.Yield, ast.YieldFrom)):
                yields.add(id(x))
        # a generator is executed as the function returning the list of what it yields (see _run); only plain
        # `yield e` / `yield from it` statements (nothing is sent in, no value of the yield expression is used)
        for x in walk_no_nested(n):
            if isinstance(x, ast.Expr) and id(x.value) in yields:
                yields.discard(id(x.value))
        return not yields

    def _kind(self, fi):
        if fi.cls is None:
            return "function"
        decs = [chain(d) for d in fi.node.decorator_list]
        if "staticmethod" in decs:
            return "static"
        if "classmethod" in decs:
            return "class"
        return "method"

    def resolve_callee(self, call, fr, env):
        """(FuncInfo, receiver expr or None, closure env or None) for a call written in frame fr, or None."""
        f = call.func
        if isinstance(f, ast.Name):
            if getattr(f, "_closure", None) is not None:
                return f._closure.fi, None, f._closure.env
            v = env.get(f.id)
            if isinstance(v, Closure):
                return v.fi, None, v.env
            if f.id in env:
                return None
            q = self.prog.resolve_in_module(getattr(f, "_mod", None) or fr.module, f.id)
            fi = self.prog.funcs.get(q)
            if fi is not None and fi.cls is None and fi.parent is None:
                return fi, None, None
            return None
        if isinstance(f, ast.Attribute):
            recv = f.value
            rt = chain(recv) or txt(recv, 40)
            if rt in ("self", "cls", "type(self)", "self.__class__") and fr.cls is not None and not (isinstance(recv, ast.Name) and isinstance(env.get(recv.id), ast.AST) and chain(env.get(recv.id)) != rt):
                fi = self.prog.lookup_method(fr.cls.qn, f.attr)
                if fi is None:
                    return None
                # dynamically dispatched (overridden below) methods are not seen through
                for sub in self.prog.subclasses(fr.cls.qn):
                    ci = self.prog.classes.get(sub)
                    if ci is not None and sub != fi.cls.qn and f.attr in ci.methods and ci.methods[f.attr] is not fi:
                        return None
                return fi, recv, None
            c = chain(f)
            if c:
                root = f
                while isinstance(root, ast.Attribute):
                    root = root.value
                if isinstance(root, ast.Name) and root.id in env:
                    return None
                q = self.prog.resolve_in_module(getattr(root, "_mod", None) or fr.module, c)
                fi = self.prog.funcs.get(q)
                if fi is not None and fi.parent is None:
                    if fi.cls is None:
                        return fi, None, None
                    if self._kind(fi) in ("static", "class"):
                        return fi, recv, None
        return None

    # -- cloning with substitution ---------------------------------------------
    def _fresh(self, name):
        self._uid += 1
        return "%s_r%d" % (name, self._uid)

    def clone(self, n, env, fr, bound=None, inline=True):
        """Copy of expression n with the locals of env substituted (names bound
        by comprehensions / lambdas inside n are left alone, and renamed when
        they would capture a free name of a substituted value)."""
        return self._clone(n, env, fr, bound or {}, inline)

    def _clone(self, n, env, fr, bound, inline):
        if n is None:
            return None
        if isinstance(n, ast.Name):
            if n.id in bound:
                c = ast.Name(id=bound[n.id], ctx=ast.Load())
                c._src = src_of(n)
                c._local = True
                return c
            if isinstance(n.ctx, ast.Load) and n.id in env:
                v = env[n.id]
                if isinstance(v, Closure):
                    c = ast.Name(id=n.id, ctx=ast.Load())
                    c._src = src_of(n)
                    c._closure = v
                    c._local = True
                    return c
                return v
            c = ast.Name(id=n.id, ctx=ast.Load())
            c._src = src_of(n)
            if hasattr(n, "_mod"):
                c._mod = n._mod
            elif getattr(n, "_local", False) or n.id in fr.locals:
                c._local = True
            else:
                c._mod = fr.module
            if getattr(n, "_local", False):
                c._local = True
            return c
        if isinstance(n, ast.Constant):
            return n
        if isinstance(n, (ast.ListComp, ast.SetComp, ast.GeneratorExp, ast.DictComp)):
            b = dict(bound)
            gens = []
            for g in n.generators:
                it = self._clone(g.iter, env, fr, b, inline)
                for nm in target_names(g.target):
                    new = nm
                    if any(isinstance(v, ast.AST) and nm in free_names(v) for v in env.values()):
                        new = self._fresh(nm)
                    b[nm] = new
                tgt = self._clone_target(g.target, b)
                ifs = [self._clone(c, env, fr, b, inline) for c in g.ifs]
                gens.append(ast.comprehension(target=tgt, iter=it, ifs=ifs, is_async=g.is_async))
            if isinstance(n, ast.DictComp):
                c = ast.DictComp(key=self._clone(n.key, env, fr, b, inline), value=self._clone(n.value, env, fr, b, inline), generators=gens)
            else:
                c = type(n)(elt=self._clone(n.elt, env, fr, b, inline), generators=gens)
            c._src = src_of(n)
            return c
        if isinstance(n, ast.Lambda):
            b = dict(bound)
            a = n.args
            for x in a.posonlyargs + a.args + a.kwonlyargs:
                b[x.arg] = x.arg
            c = ast.Lambda(args=a, body=self._clone(n.body, env, fr, b, inline))
            c._src = src_of(n)
            return c
        if isinstance(n, ast.Call):
            func = self._clone(n.func, env, fr, bound, inline)
            args = [self._clone(a, env, fr, bound, inline) for a in n.args]
            kws = [ast.keyword(arg=k.arg, value=self._clone(k.value, env, fr, bound, inline)) for k in n.keywords]
            c = ast.Call(func=func, args=args, keywords=kws)
            c._src = src_of(n)
            if inline:
                t = self._inline_value(n, c, env, fr)
                if t is not None:
                    return t
            return self._simplify_call(c, fr, inline)
        if isinstance(n, ast.AST):
            kw = {}
            for f, v in ast.iter_fields(n):
                if isinstance(v, list):
                    kw[f] = [self._clone(x, env, fr, bound, inline) if isinstance(x, ast.AST) else x for x in v]
                elif isinstance(v, ast.AST):
                    if isinstance(v, (ast.expr_context, ast.operator, ast.unaryop, ast.boolop, ast.cmpop)):
                        kw[f] = v
                    else:
                        kw[f] = self._clone(v, env, fr, bound, inline)
                else:
                    kw[f] = v
            c = type(n)(**kw)
            c._src = src_of(n)
            return c
        return n

    # -- callables as values: one spelling ------------------------------------------------------------------
    def _simplify_call(self, c, fr, inline=True):
        """(lambda a: E)(x) -> E[a := x];  functools.partial(g, *a, **k)(x) -> g(*a, x, **k);
        map(f, xs) -> (f(v) for v in xs), with f applied the same way; a nested function passed as a
        value is applied by executing it in place."""
        f = c.func
        if isinstance(f, ast.Lambda):
            r = self._beta(f, c)
            if r is not None:
                return r
        if isinstance(f, ast.Name) and f.id == "getattr" and not getattr(f, "_local", False) and len(c.args) == 2 and not c.keywords \
                and isinstance(c.args[1], ast.Constant) and isinstance(c.args[1].value, str) and c.args[1].value.isidentifier():
            a = ast.Attribute(value=c.args[0], attr=c.args[1].value, ctx=ast.Load())
            a._src = src_of(c)
            return a
        if isinstance(f, ast.Call) and f.args and not any(isinstance(x, ast.Starred) for x in f.args) and qual_name(self.prog, fr.module, f) == "functools.partial":
            m = ast.Call(func=f.args[0], args=list(f.args[1:]) + list(c.args), keywords=list(f.keywords) + list(c.keywords))
            m._src = src_of(c)
            return self._simplify_call(m, fr, inline)
        if isinstance(f, ast.Name) and getattr(f, "_closure", None) is not None and inline:
            t = self._inline_value(c, c, {}, fr)
            if t is not None:
                return t
        if isinstance(f, ast.Name) and f.id == "map" and not getattr(f, "_local", False) and len(c.args) == 2 and not c.keywords \
                and not any(isinstance(x, ast.Starred) for x in c.args):
            v = self._fresh("m")
            arg = ast.Name(id=v, ctx=ast.Load())
            arg._local = True
            app = ast.Call(func=c.args[0], args=[arg], keywords=[])
            app._src = src_of(c)
            tgt = ast.Name(id=v, ctx=ast.Store())
            tgt._local = True
            g = ast.GeneratorExp(elt=self._simplify_call(app, fr, inline), generators=[ast.comprehension(target=tgt, iter=c.args[1], ifs=[], is_async=0)])
            g._src = src_of(c)
            return g
        return c

    def _beta(self, lam, call):
        a = lam.args
        if a.vararg or a.kwarg or a.kwonlyargs or a.defaults or call.keywords or any(isinstance(x, ast.Starred) for x in call.args):
            return None
        names = [x.arg for x in a.posonlyargs + a.args]
        if len(names) != len(call.args):
            return None
        mapping = dict(zip(names, call.args))
        # a parameter re-bound inside the body (comprehension / nested lambda): leave the call alone
        for n in ast.walk(lam.body):
            if isinstance(n, ast.Name) and isinstance(n.ctx, ast.Store) and n.id in mapping:
                return None
            if isinstance(n, ast.Lambda) and any(x.arg in mapping for x in n.args.posonlyargs + n.args.args + n.args.kwonlyargs):
                return None
        return substitute(lam.body, mapping)

    def closure_lambda(self, clo, fr=None):
        """A nested function as a lambda expression (its result as a tree of conditional expressions), or None."""
        fi = clo.fi
        a = fi.node.args
        if a.vararg or a.kwarg or a.kwonlyargs or a.defaults or not self._eligible(fi):
            return None
        states = self._run(fi, dict(clo.env), 1, frozenset({fi.qn}))
        items = []
        for s in states:
            if any(ev[0] in ("store", "exc") for ev in s.trace) or s.end is None or s.end[0] not in ("return", "raise", "fall"):
                return None
            leaf = raise_leaf(s.end[1] or "?") if s.end[0] == "raise" else (s.end[1] if s.end[0] == "return" and s.end[1] is not None else ast.Constant(value=None))
            items.append((s.conds(), leaf))
        body = tree_of(items)
        if body is None:
            return None
        return ast.Lambda(args=a, body=body)

    def _clone_target(self, t, b):
        if isinstance(t, ast.Name):
            c = ast.Name(id=b.get(t.id, t.id), ctx=ast.Store())
            c._local = True
            return c
        if isinstance(t, (ast.Tuple, ast.List)):
            return type(t)(elts=[self._clone_target(x, b) for x in t.elts], ctx=ast.Store())
        if isinstance(t, ast.Starred):
            return ast.Starred(value=self._clone_target(t.value, b), ctx=ast.Store())
        raise AnalysisError("comprehension target outside the vocabulary: %s" % txt(t))

    # -- helper calls ---------------------------------------------------------------
    def _callee_states(self, call_orig, call_sub, env, fr):
        """Execute a transparent callee for the (already substituted) call; None when the call stays opaque."""
        r = self.resolve_callee(call_orig, fr, env)
        if r is None:
            return None
        fi, recv, cenv = r
        if cenv is None and not self.transparent(fi):
            return None
        if not self._eligible(fi) or fr.depth >= self.max_depth or fi.qn in fr.stack:
            return None
        binding = self._bind_args(fi, call_sub, recv, fr)
        if binding is None:
            return None
        if cenv:
            for k, v in cenv.items():
                binding.setdefault(k, v)
        states = self._run(fi, binding, fr.depth + 1, fr.stack | {fi.qn})
        if fi.qn not in self.inlined:
            self.inlined.append(fi.qn)
        return fi, states

    def _bind_args(self, fi, call_sub, recv, fr):
        a = fi.node.args
        ps = [x.arg for x in a.posonlyargs + a.args]
        binding = {}
        kind = self._kind(fi)
        if kind in ("method", "class"):
            if not ps:
                return None
            f = call_sub.func
            r = f.value if isinstance(f, ast.Attribute) else None
            if r is None:
                return None
            if kind == "class" and chain(r) == "self":
                r = ast.Call(func=ast.Name(id="type", ctx=ast.Load()), args=[r], keywords=[])
            binding[ps[0]] = r
            ps = ps[1:]
        pos = list(call_sub.args)
        if any(isinstance(x, ast.Starred) for x in pos) or any(k.arg is None for k in call_sub.keywords):
            return None
        if len(pos) > len(ps):
            return None
        for p, v in zip(ps, pos):
            binding[p] = v
        allowed = set(ps) | {k.arg for k in a.kwonlyargs}
        for k in call_sub.keywords:
            if k.arg not in allowed or k.arg in binding:
                return None
            binding[k.arg] = k.value
        # defaults are aligned to the tail of posonly+args (including self, which never has one)
        allpos = [x.arg for x in a.posonlyargs + a.args]
        dfl = dict(zip(allpos[len(allpos) - len(a.defaults):], a.defaults)) if a.defaults else {}
        for k, d in zip(a.kwonlyargs, a.kw_defaults):
            if d is not None:
                dfl[k.arg] = d
        cfr = Frame(fi, fr.depth + 1, fr.stack)
        for p in list(ps) + [k.arg for k in a.kwonlyargs]:
            if p not in binding:
                if p not in dfl:
                    return None
                binding[p] = self._clone(dfl[p], {}, cfr, {}, False)
        return binding

    def _inline_value(self, call_orig, call_sub, env, fr):
        """Expression-level expansion: the callee's result as a tree of conditional expressions."""
        r = self._callee_states(call_orig, call_sub, env, fr)
        if r is None:
            return None
        fi, states = r
        items = []
        for s in states:
            if any(ev[0] in ("store", "exc") for ev in s.trace) or "partial" in s.flags:
                return None
            if s.end is None or s.end[0] == "fall":
                leaf = ast.Constant(value=None)
            elif s.end[0] == "return":
                leaf = s.end[1] if s.end[1] is not None else ast.Constant(value=None)
            elif s.end[0] == "raise":
                leaf = raise_leaf(s.end[1] or "?")
            else:
                return None
            items.append((s.conds(), leaf))
        return tree_of(items)

    # -- running a function ------------------------------------------------------------
    def run(self, fi, binding=None):
        """Outcomes (finished St objects) of fi.  Parameters stay symbolic (their
        own names) unless bound."""
        return self._run(fi, dict(binding or {}), 0, frozenset({fi.qn}))

    def _run(self, fi, binding, depth, stack):
        fr = Frame(fi, depth, stack, self._locals_of(fi))
        env = dict(binding)
        st = St(env)
        body = fi.node.body
        generator = any(isinstance(x, (ast.Yield, ast.YieldFrom)) for x in walk_no_nested(fi.node))
        if generator:
            # A generator function stands for the sequence it yields: `yield e` appends to a hidden list that is the
            # result.  (Consumers here -- list(), join, comprehensions, for -- drain it completely; laziness only moves
            # the point at which an exception of the body surfaces, not whether and which.)
            env[YIELDED] = ast.List(elts=[], ctx=ast.Load())
        outs = self._block(body, [st], fr)
        for s in outs:
            if s.end is None:
                s.end = ("fall", None, fi.node)
            if generator and s.end[0] in ("fall", "return") and s.end[1] is None:
                s.end = ("return", s.env[YIELDED], s.end[2])
        return outs

    def _locals_of(self, fi):
        n = fi.node
        a = n.args
        out = {x.arg for x in a.posonlyargs + a.args + a.kwonlyargs}
        for x in walk_no_nested(n):
            if isinstance(x, ast.Name) and isinstance(x.ctx, (ast.Store, ast.Del)):
                out.add(x.id)
            elif isinstance(x, ast.ExceptHandler) and x.name:
                out.add(x.name)
            elif isinstance(x, (ast.FunctionDef, ast.AsyncFunctionDef, ast.ClassDef)) and x is not n:
                out.add(x.name)
        p = fi.parent
        while p is not None:  # names of enclosing functions are not module globals either
            out |= {x.arg for x in p.node.args.posonlyargs + p.node.args.args + p.node.args.kwonlyargs}
            for x in walk_no_nested(p.node):
                if isinstance(x, ast.Name) and isinstance(x.ctx, ast.Store):
                    out.add(x.id)
            p = p.parent
        return out

    def _block(self, stmts, states, fr):
        for st_ in stmts:
            nxt = []
            for s in states:
                if s.end is not None:
                    nxt.append(s)
                else:
                    nxt.extend(self._stmt(st_, s, fr))
            states = nxt
            if len(states) > self.max_states:
                raise AnalysisError("symbolic execution of %s: more than %d paths" % (fr.fi.short, self.max_states))
        return states

    # -- events ---------------------------------------------------------------------------------
    def _add_cond(self, s, e, pol, node):
        """Append a path condition; returns False when it contradicts the path."""
        if isinstance(e, ast.UnaryOp) and isinstance(e.op, ast.Not):
            return self._add_cond(s, e.operand, not pol, node)
        if isinstance(e, ast.Constant):
            return bool(e.value) == pol
        d = dump(e)
        for ev in s.trace:
            if ev[0] == "cond" and ev[4] == d:
                return ev[2] == pol
        s.trace.append(("cond", e, pol, node, d))
        return True

    def _values(self, expr, s, fr, node):
        """Substitute, expand helpers, hoist conditional expressions: [(state, value)]."""
        v = self.clone(expr, s.env, fr)
        out = []
        for conds, val in hoist(v):
            s2 = s.fork()
            ok = True
            for ce, pol in conds:
                if not self._add_cond(s2, ce, pol, node):
                    ok = False
                    break
            if ok:
                out.append((s2, val))
        return out

    def _end_if_raise(self, s, val, node):
        if is_raise_leaf(val):
            s.end = ("raise", val.args[0].value, node)
            return True
        return False

    # -- statements -----------------------------------------------------------------------------
    def _stmt(self, n, s, fr):
        if isinstance(n, ast.Expr):
            if isinstance(n.value, ast.Constant):
                return [s]
            v = n.value
            if isinstance(v, ast.Await):
                raise AnalysisError("await in %s" % fr.fi.short)
            if isinstance(v, (ast.Yield, ast.YieldFrom)):
                if not isinstance(s.env.get(YIELDED), ast.List):
                    raise AnalysisError("yield outside a generator executed in place in %s" % fr.fi.short)
                out = []
                for s2, val in self._values(v.value if v.value is not None else ast.Constant(value=None), s, fr, n):
                    if not self._end_if_raise(s2, val, n):
                        s2.trace.append(("eval", val, None, n))
                        new = val if isinstance(v, ast.Yield) else ast.Starred(value=val, ctx=ast.Load())
                        s2.env[YIELDED] = ast.List(elts=list(s2.env[YIELDED].elts) + [new], ctx=ast.Load())
                    out.append(s2)
                return out
            if isinstance(v, ast.Call):
                if is_log_call(v) or (chain(v.func) or "").split(".")[0] in ("warn", "warnings"):
                    return [s]
                m = self._mutation(v, s, fr)
                if m is not None:
                    return m
                self._local_mutation(v, s, fr, n)
                r = self._stmt_call(v, s, fr, n)
                if r is not None:
                    return [x for x, _ in r]
            out = []
            for s2, val in self._values(v, s, fr, n):
                if not self._end_if_raise(s2, val, n):
                    s2.trace.append(("eval", val, None, n))
                out.append(s2)
            return out
        if isinstance(n, (ast.Assign, ast.AnnAssign)):
            if isinstance(n, ast.AnnAssign) and n.value is None:
                return [s]
            targets = n.targets if isinstance(n, ast.Assign) else [n.target]
            pairs = None
            if isinstance(n.value, ast.Call):
                pairs = self._stmt_call(n.value, s, fr, n)
            if pairs is None:
                pairs = self._values(n.value, s, fr, n)
            out = []
            for s2, val in pairs:
                if s2.end is not None:
                    out.append(s2)
                    continue
                if self._end_if_raise(s2, val, n):
                    out.append(s2)
                    continue
                val = flatten_display(val)
                s2.trace.append(("eval", val, None, n))
                for t in targets:
                    self._assign(t, val, s2, fr, n)
                out.append(s2)
            return out
        if isinstance(n, ast.AugAssign):
            out = []
            for s2, val in self._values(n.value, s, fr, n):
                if self._end_if_raise(s2, val, n):
                    out.append(s2)
                    continue
                t = n.target
                if isinstance(t, ast.Name):
                    old = s2.env.get(t.id)
                    if isinstance(old, Closure):
                        raise AnalysisError("augmented assignment to a function name")
                    if old is None:
                        old = ast.Name(id=t.id, ctx=ast.Load())
                        old._local = True
                    if isinstance(n.op, ast.Add) and isinstance(old, ast.List):
                        s2.env[t.id] = flatten_display(ast.List(elts=list(old.elts) + [ast.Starred(value=val, ctx=ast.Load())], ctx=ast.Load()))
                    elif isinstance(n.op, ast.BitOr) and isinstance(old, ast.Set):
                        s2.env[t.id] = ast.Set(elts=list(old.elts) + [ast.Starred(value=val, ctx=ast.Load())])
                    elif isinstance(n.op, ast.BitOr) and isinstance(old, ast.Dict):
                        s2.env[t.id] = ast.Dict(keys=list(old.keys) + [None], values=list(old.values) + [val])
                    else:
                        s2.env[t.id] = ast.BinOp(left=old, op=n.op, right=val)
                else:
                    tgt = self.clone(t, s2.env, fr, inline=False)
                    s2.trace.append(("store", chain(tgt) or txt(tgt), ast.BinOp(left=tgt, op=n.op, right=val), n, "aug"))
                out.append(s2)
            return out
        if isinstance(n, ast.Return):
            if n.value is None:
                s.end = ("return", None, n)
                return [s]
            pairs = None
            if isinstance(n.value, ast.Call):
                pairs = self._stmt_call(n.value, s, fr, n)
            if pairs is None:
                pairs = self._values(n.value, s, fr, n)
            out = []
            for s2, val in pairs:
                if s2.end is None and not self._end_if_raise(s2, val, n):
                    s2.end = ("return", val, n)
                out.append(s2)
            return out
        if isinstance(n, ast.Raise):
            if n.exc is None:
                cls = fr.handler_cls[-1] if fr.handler_cls else None
            elif isinstance(n.exc, ast.Name) and n.exc.id in fr.handler_names:
                cls = fr.handler_names[n.exc.id]
            else:
                cls = raised_class(self.prog, fr.fi, n)
            s.end = ("raise", cls, n)
            return [s]
        if isinstance(n, ast.If):
            return self._if(n, s, fr)
        if isinstance(n, ast.Try):
            return self._try(n, s, fr)
        if isinstance(n, ast.For):
            return self._for(n, s, fr)
        if isinstance(n, ast.With):
            cur = [s]
            for it in n.items:
                nxt = []
                for s1 in cur:
                    for s2, val in self._values(it.context_expr, s1, fr, n):
                        if self._end_if_raise(s2, val, n):
                            nxt.append(s2)
                            continue
                        s2.trace.append(("eval", val, None, n))
                        if it.optional_vars is not None:
                            self._assign(it.optional_vars, ast.Call(func=ast.Attribute(value=val, attr="__enter__", ctx=ast.Load()), args=[], keywords=[]), s2, fr, n)
                        nxt.append(s2)
                cur = nxt
            return self._block(n.body, cur, fr)
        if isinstance(n, (ast.Pass, ast.Assert, ast.Import, ast.ImportFrom, ast.Global, ast.Nonlocal)):
            return [s]
        if isinstance(n, ast.FunctionDef):
            sub = [f for f in self.prog.funcs.values() if f.node is n]
            if not sub:
                raise AnalysisError("nested function %s is not in the program model" % n.name)
            s.env[n.name] = Closure(sub[0], dict(s.env))
            return [s]
        if isinstance(n, ast.Delete):
            for t in n.targets:
                if isinstance(t, ast.Name):
                    s.env.pop(t.id, None)
                    continue
                root = t
                while isinstance(root, (ast.Subscript, ast.Attribute)):
                    root = root.value
                if isinstance(t, ast.Subscript) and isinstance(t.value, ast.Name) and t.value.id in fr.locals and t.value.id not in ("self", "cls"):
                    # del xs[0] is xs = xs[1:]; other deletions from a local container make it unknown
                    if not (isinstance(t.slice, ast.Constant) and t.slice.value == 0 and isinstance(s.env.get(t.value.id), (ast.Call, ast.Subscript, ast.List, ast.ListComp))
                            and self._drop_first(t.value.id, s)):
                        self._forget(t.value.id, s, n)
                    continue
                tgt = self.clone(t, s.env, fr, inline=False)
                s.trace.append(("store", chain(tgt) or txt(tgt), None, n, "del"))
                if isinstance(t, ast.Subscript) and isinstance(root, ast.Name) and root.id in fr.locals and root.id not in ("self", "cls"):
                    self._forget(root.id, s, n)
            return [s]
        if isinstance(n, ast.Break):
            s.end = ("break", None, n)
            return [s]
        if isinstance(n, ast.Continue):
            s.end = ("continue", None, n)
            return [s]
        raise AnalysisError("statement outside the vocabulary of the symbolic executor in %s: %s" % (fr.fi.short, type(n).__name__))

    def _assign(self, t, val, s, fr, node):
        if isinstance(t, ast.Name):
            if isinstance(val, ast.Call) and isinstance(val.func, ast.Name) and val.func.id in ("list", "set", "dict") and not val.args and not val.keywords \
                    and not getattr(val.func, "_local", False):
                val = {"list": ast.List(elts=[], ctx=ast.Load()), "set": ast.Set(elts=[]), "dict": ast.Dict(keys=[], values=[])}[val.func.id]
            s.env[t.id] = flatten_display(val)
            return
        if isinstance(t, ast.Subscript) and isinstance(t.value, ast.Name) and isinstance(s.env.get(t.value.id), ast.Dict) and t.value.id in fr.locals and not isinstance(t.slice, ast.Slice):
            # d[k] = v on a local dict under construction: {**d, k: v} (a later key overrides an earlier one in a display, too)
            old = s.env[t.value.id]
            key = self.clone(t.slice, s.env, fr)
            s.env[t.value.id] = ast.Dict(keys=list(old.keys) + [key], values=list(old.values) + [val])
            return
        if isinstance(t, (ast.Tuple, ast.List)):
            stars = [i for i, x in enumerate(t.elts) if isinstance(x, ast.Starred)]
            if len(stars) == 1:
                # a, *rest, z = v:  a = v[0], rest = list(v[1:-1]), z = v[-1]  (v is evaluated once: it is a closed
                # expression here; the length requirement of the unpacking is the business of the escape analysis)
                k, after = stars[0], len(t.elts) - stars[0] - 1
                if isinstance(val, (ast.Tuple, ast.List)) and not any(isinstance(x, ast.Starred) for x in val.elts) and len(val.elts) >= len(t.elts) - 1:
                    parts = list(val.elts[:k]) + [ast.List(elts=list(val.elts[k:len(val.elts) - after]), ctx=ast.Load())] + list(val.elts[len(val.elts) - after:])
                else:
                    parts = [ast.Subscript(value=val, slice=ast.Constant(value=i), ctx=ast.Load()) for i in range(k)]
                    sl = ast.Slice(lower=ast.Constant(value=k) if k else None, upper=ast.Constant(value=-after) if after else None, step=None)
                    parts.append(ast.Call(func=ast.Name(id="list", ctx=ast.Load()), args=[ast.Subscript(value=val, slice=sl, ctx=ast.Load())], keywords=[]))
                    parts += [ast.Subscript(value=val, slice=ast.Constant(value=i - after), ctx=ast.Load()) for i in range(after)]
                for x, v in zip(t.elts, parts):
                    self._assign(x.value if isinstance(x, ast.Starred) else x, v, s, fr, node)
                return
            if stars:
                for x in t.elts:
                    for nm in target_names(x):
                        s.env.pop(nm, None)
                        s.env[nm] = _opaque(nm, node)
                return
            if isinstance(val, (ast.Tuple, ast.List)) and len(val.elts) == len(t.elts) and not any(isinstance(x, ast.Starred) for x in val.elts):
                for x, v in zip(t.elts, val.elts):
                    self._assign(x, v, s, fr, node)
            else:
                for i, x in enumerate(t.elts):
                    self._assign(x, ast.Subscript(value=val, slice=ast.Constant(value=i), ctx=ast.Load()), s, fr, node)
            return
        tgt = self.clone(t, s.env, fr, inline=False)
        kind = "setitem" if isinstance(t, ast.Subscript) else "assign"
        s.trace.append(("store", chain(tgt) or txt(tgt), val, node, kind))
        if isinstance(t, ast.Subscript) and isinstance(t.value, ast.Name) and t.value.id in fr.locals and t.value.id not in ("self", "cls"):
            self._forget(t.value.id, s, node)  # an element of a local container was replaced

    _MUTATORS = {"pop", "append", "extend", "remove", "add", "update", "setdefault", "insert", "clear", "popitem", "discard", "popleft", "appendleft", "sort", "reverse",
                 "extendleft", "rotate", "difference_update", "intersection_update", "symmetric_difference_update"}

    def _forget(self, name, s, node):
        """The object bound to a local was changed in place in a way the executor does not model: later reads see an unknown value."""
        self._uid += 1
        o = _opaque("%s@%d" % (name, self._uid), node)
        s.env[name] = o

    def _drop_first(self, name, s, last=False):
        old = s.env.get(name)
        if old is None or isinstance(old, Closure):
            return False
        sl = ast.Slice(lower=None, upper=ast.Constant(value=-1), step=None) if last else ast.Slice(lower=ast.Constant(value=1), upper=None, step=None)
        s.env[name] = ast.Subscript(value=old, slice=sl, ctx=ast.Load())
        return True

    def _local_mutation(self, call, s, fr, node):
        """A mutating method call on a local: `xs.pop(0)` as a statement is xs = xs[1:]; anything else makes the local unknown."""
        f = call.func
        if not (isinstance(f, ast.Attribute) and isinstance(f.value, ast.Name) and f.attr in self._MUTATORS):
            return
        name = f.value.id
        if name in ("self", "cls") or name not in fr.locals:
            return
        if f.attr == "pop" and isinstance(node, ast.Expr) and not call.keywords and isinstance(s.env.get(name), (ast.Call, ast.Subscript, ast.List, ast.ListComp)):
            # popping from a list built by a call / slice / display: xs.pop(0) is xs = xs[1:], xs.pop() / xs.pop(-1) is xs = xs[:-1]
            k = call.args[0].value if len(call.args) == 1 and isinstance(call.args[0], ast.Constant) else (-1 if not call.args else None)
            if isinstance(call.args[0] if call.args else None, ast.UnaryOp) and isinstance(call.args[0].op, ast.USub) and isinstance(call.args[0].operand, ast.Constant) and call.args[0].operand.value == 1:
                k = -1
            if k in (0, -1) and self._drop_first(name, s, last=(k == -1)):
                return
        self._forget(name, s, node)

    def _mutation(self, call, s, fr):
        """A growing method call on a local collection under construction becomes a new value of the local:
        list.append / extend, set.add / update, dict.update (one positional argument)."""
        f = call.func
        if not (isinstance(f, ast.Attribute) and isinstance(f.value, ast.Name) and len(call.args) == 1 and not call.keywords):
            return None
        old = s.env.get(f.value.id)
        if isinstance(old, ast.Call) and isinstance(old.func, ast.Name) and old.func.id in ("list", "set", "dict") and not old.args and not old.keywords:
            old = {"list": ast.List(elts=[], ctx=ast.Load()), "set": ast.Set(elts=[]), "dict": ast.Dict(keys=[], values=[])}[old.func.id]
        ok = (isinstance(old, ast.List) and f.attr in ("append", "extend")) or (isinstance(old, ast.Set) and f.attr in ("add", "update")) or (isinstance(old, ast.Dict) and f.attr == "update")
        if not ok:
            return None
        out = []
        for s2, val in self._values(call.args[0], s, fr, call):
            if self._end_if_raise(s2, val, call):
                out.append(s2)
                continue
            s2.trace.append(("eval", val, None, call))
            if isinstance(old, ast.Dict):
                # d.update(m) accepts a mapping or an iterable of pairs: {**d, **dict(m)}
                m = val if isinstance(val, (ast.Dict, ast.DictComp)) else ast.Call(func=ast.Name(id="dict", ctx=ast.Load()), args=[val], keywords=[])
                s2.env[f.value.id] = ast.Dict(keys=list(old.keys) + [None], values=list(old.values) + [m])
            else:
                one = f.attr in ("append", "add")
                if not one and isinstance(val, (ast.List, ast.Tuple)) and not any(isinstance(x, ast.Starred) for x in val.elts):
                    new = list(val.elts)  # extend with a display: its elements, one by one
                else:
                    new = [val if one else ast.Starred(value=val, ctx=ast.Load())]
                s2.env[f.value.id] = ast.List(elts=list(old.elts) + new, ctx=ast.Load()) if isinstance(old, ast.List) else ast.Set(elts=list(old.elts) + new)
            out.append(s2)
        return out

    def _stmt_call(self, call, s, fr, node):
        """Statement-level expansion of a transparent callee: the caller's path
        forks per callee outcome and takes over its events.  -> [(state, value)] or None."""
        r0 = self.resolve_callee(call, fr, s.env)
        if r0 is None:
            return None
        sub = self.clone(call, s.env, fr, inline=False)
        # arguments may themselves contain helper calls / conditional expressions
        sub.args = [self.clone(a, s.env, fr) for a in call.args]
        sub.keywords = [ast.keyword(arg=k.arg, value=self.clone(k.value, s.env, fr)) for k in call.keywords]
        r = self._callee_states(call, sub, s.env, fr)
        if r is None:
            return None
        fi, states = r
        out = []
        for cs in states:
            s2 = s.fork()
            ok = True
            for ev in cs.trace:
                if ev[0] == "cond":
                    if not self._add_cond(s2, ev[1], ev[2], ev[3]):
                        ok = False
                        break
                else:
                    s2.trace.append(ev)
            if not ok:
                continue
            s2.flags |= cs.flags
            if cs.end is None or cs.end[0] == "fall":
                val = ast.Constant(value=None)
            elif cs.end[0] == "return":
                val = cs.end[1] if cs.end[1] is not None else ast.Constant(value=None)
            elif cs.end[0] == "raise":
                s2.end = cs.end
                val = None
            else:
                raise AnalysisError("break/continue leaves helper %s" % fi.short)
            out.append((s2, val))
        return out

    def _if(self, n, s, fr):
        test = n.test
        neg = False
        while isinstance(test, ast.UnaryOp) and isinstance(test.op, ast.Not):
            test = test.operand
            neg = not neg
        pairs = None
        if isinstance(test, ast.Call):
            pairs = self._stmt_call(test, s, fr, n)
        if pairs is None:
            pairs = self._values(test, s, fr, n)
        out = []
        for s2, val in pairs:
            if s2.end is not None or self._end_if_raise(s2, val, n):
                out.append(s2)
                continue
            for pol in (True, False):
                s3 = s2.fork()
                if not self._add_cond(s3, val, pol != neg, n):
                    continue
                out.extend(self._block(n.body if pol else n.orelse, [s3], fr))
        return out

    def _try(self, n, s, fr):
        start = s.fork()
        body = self._block(n.body, [s], fr)
        out = []
        handler_classes = []
        for h in n.handlers:
            if h.type is None:
                handler_classes.append(["BaseException"])
            else:
                ts = h.type.elts if isinstance(h.type, ast.Tuple) else [h.type]
                handler_classes.append([self.prog.resolve_in_module(fr.module, chain(t) or "?") for t in ts])
        routed = {}  # handler index -> [states that raise into it explicitly]
        kept = []
        for b in body:
            if b.end is not None and b.end[0] == "raise":
                cls = b.end[1]
                if cls is None:
                    raise AnalysisError("raise of an unresolved class inside a try with handlers in %s" % fr.fi.short)
                tgt = None
                for hi, hcs in enumerate(handler_classes):
                    if any(hc == "BaseException" or self.prog.is_subclass(cls, hc) for hc in hcs):
                        tgt = hi
                        break
                if tgt is not None:
                    routed.setdefault(tgt, []).append(b)
                    continue
            kept.append(b)
        body = kept
        written = set()
        for st_ in n.body:
            for x in ast.walk(st_):
                if isinstance(x, ast.Name) and isinstance(x.ctx, ast.Store):
                    written.add(x.id)
        body_stores = any(ev[0] == "store" for b in body for ev in b.trace[len(start.trace):])
        for h, hcs in zip(n.handlers, handler_classes):
            hs = start.fork()
            for w in written:
                hs.env[w] = _opaque(w, n)
            hs.trace.append(("exc", tuple(hcs), None, n))
            if h.name:
                hs.env[h.name] = _opaque(h.name, h)
            hfr = Frame(fr.fi, fr.depth, fr.stack, fr.locals, fr)
            hfr.handler_cls.append(hcs[0] if len(hcs) == 1 else None)
            if h.name:
                hfr.handler_names[h.name] = hcs[0] if len(hcs) == 1 else None
            for r in self._block(h.body, [hs], hfr):
                if r.end is None or r.end[0] != "raise":
                    r.flags.add("partial")  # the try body was left at an unknown point
                    if body_stores:
                        r.flags.add("partial-stores")
                out.append(r)
            for b in routed.get(n.handlers.index(h), []):
                # an explicit raise of the body: the state at the raise is known exactly
                cls = b.end[1]
                b.end = None
                b.trace.append(("exc", tuple(hcs), None, n))
                if h.name:
                    b.env[h.name] = _opaque(h.name, h)
                xfr = Frame(fr.fi, fr.depth, fr.stack, fr.locals, fr)
                xfr.handler_cls.append(cls)
                if h.name:
                    xfr.handler_names[h.name] = cls
                out.extend(self._block(h.body, [b], xfr))
        cont = []
        for b in body:
            if b.end is None:
                cont.extend(self._block(n.orelse, [b], fr) if n.orelse else [b])
            else:
                cont.append(b)
        out = cont + out
        if n.finalbody:
            res = []
            for r in out:
                end = r.end
                r.end = None
                for f in self._block(n.finalbody, [r], fr):
                    if f.end is None:
                        f.end = end
                    res.append(f)
            out = res
        return out

    def _for(self, n, s, fr):
        """Canonicalise the two loop idioms that have an expression form:
        search (`for x in it: if c: return v` / `...: flag = k; break`) becomes
        a decision on `any(c for x in it)`, accumulation (`acc.append(e)` on
        every / some iterations) becomes a comprehension."""
        its = self._values(n.iter, s, fr, n)
        out = []
        for s1, it in its:
            if self._end_if_raise(s1, it, n):
                out.append(s1)
                continue
            out.extend(self._for1(n, s1, it, fr))
        return out

    def _unrolled(self, n, s, elts, fr):
        """for over a literal tuple / list: execute the body once per element."""
        running, done = [s], []
        for e in elts:
            nxt = []
            for st in running:
                self._assign(n.target, e, st, fr, n)
                for o in self._block(n.body, [st], fr):
                    if o.end is not None and o.end[0] == "continue":
                        o.end = None
                    if o.end is not None and o.end[0] == "break":
                        o.end = None
                        o.flags.add("broke")
                        done.append(o)
                    elif o.end is not None:
                        done.append(o)
                    else:
                        nxt.append(o)
            running = nxt
            if len(running) + len(done) > self.max_states:
                raise AnalysisError("symbolic execution of %s: more than %d paths" % (fr.fi.short, self.max_states))
        out = []
        for o in running:
            out.extend(self._block(n.orelse, [o], fr) if n.orelse else [o])
        for o in done:
            o.flags.discard("broke")
            out.append(o)
        return out

    def _for1(self, n, s, it, fr):
        tnames = target_names(n.target)
        if not isinstance(n.target, (ast.Name, ast.Tuple)) or not tnames:
            raise AnalysisError("loop target outside the vocabulary in %s" % fr.fi.short)
        if isinstance(it, (ast.Tuple, ast.List)) and len(it.elts) <= 12 and not any(isinstance(x, ast.Starred) for x in it.elts):
            return self._unrolled(n, s, it.elts, fr)
        body0 = s.fork()
        body0.trace = []
        # what the path did BEFORE the loop (an exception handler that completed normally: flag "partial") is not an
        # effect of the loop body: the body is judged on the events and flags it adds itself.  (The state `s`, from
        # which every continuation after the loop is forked, keeps its own flags.)
        body0.flags = set()
        # Scoping: the loop becomes a comprehension that BINDS the loop variable.  A pending value in which the same
        # name occurs free (a parameter or an unknown local of that name -- names bound by a comprehension or lambda
        # inside the value are not free) would be captured by that binder: the loop variable is alpha-renamed then.
        rename = {}
        for nm in tnames:
            body0.env.pop(nm, None)
            if any(isinstance(v, ast.AST) and nm in free_names(v) for v in s.env.values()):
                rename[nm] = self._fresh(nm)
                v = ast.Name(id=rename[nm], ctx=ast.Load())
                v._local = True
                body0.env[nm] = v
        bnames = [rename.get(nm, nm) for nm in tnames]
        # A constant bound before the loop to a local the body assigns (`query = ""`, `n = 0`, `first = True`) is the
        # value of the FIRST iteration only.  The body is executed once, on the pre-loop values; a constant would be
        # folded into the decisions (`if query:` -> never) and could not be told from an equal literal afterwards, so
        # the body sees a marker instead: extensions are recognised relative to it, any other use is a read of the
        # running value (refused below).
        base = dict(s.env)
        assigned = {x.id for st_ in n.body for x in walk_no_nested(st_) if isinstance(x, ast.Name) and isinstance(x.ctx, (ast.Store, ast.Del))}
        for k in sorted(assigned):
            if isinstance(s.env.get(k), ast.Constant) and k not in tnames:
                m = ast.Name(id=self._fresh("running_" + k), ctx=ast.Load())
                m._local = True
                base[k] = body0.env[k] = m
        lfr = Frame(fr.fi, fr.depth, fr.stack, fr.locals, fr)
        outs = self._block(n.body, [body0], lfr)
        tgt = self._clone_target(n.target, rename)

        def depends(e):
            return isinstance(e, ast.AST) and bool(set(bnames) & free_names(e))

        def gen(elt, ifs=()):
            return ast.GeneratorExp(elt=elt, generators=[ast.comprehension(target=tgt, iter=it, ifs=list(ifs), is_async=0)])

        if any(ev[0] in ("store", "exc") for o in outs for ev in o.trace) or any("partial" in o.flags for o in outs):
            raise AnalysisError("loop with field stores or exception handlers in %s: outside the vocabulary of the symbolic executor" % fr.fi.short)
        exits = [o for o in outs if o.end is not None and o.end[0] in ("return", "break", "raise")]
        stay = [o for o in outs if o.end is None or o.end[0] == "continue"]
        # names first bound inside the body are temporaries of one iteration
        temps = {k for o in outs for k in o.env if k not in s.env and k not in tnames}
        changed = lambda o: {k for k in s.env if k not in tnames and o.env.get(k) is not base.get(k)}
        # what the iterations that stay in the loop do to the locals that existed before it: per local either
        # an accumulation (kind, [(conds, parts added on that path)]) or a per-iteration temporary
        idx = self._emptiness_reads(s, base, stay, outs, exits, changed)
        if idx is not None:
            # the body asks whether an earlier iteration already added something: iterate over (index, element)
            itgt = ast.Name(id=idx, ctx=ast.Store())
            itgt._local = True
            tgt = ast.Tuple(elts=[itgt, tgt], ctx=ast.Store())
            it = ast.Call(func=ast.Name(id="enumerate", ctx=ast.Load()), args=[it], keywords=[])
        accs, rebound = self._classify_loop_effects(s, base, stay, outs, changed, fr)
        after = {k: _opaque(k, n) for k in list(temps) + list(rebound) + [nm for nm in tnames]}
        for k in sorted(rebound):
            # a local the iterations re-bind (never read: checked above).  One loop-independent value on some paths is
            # a flag: after the loop it holds that value iff some iteration took such a path.  A value bound afresh by
            # every iteration is a temporary (unknown afterwards).  Anything else has no closed form: refused when the
            # local is used outside the loop at all, unknown otherwise.
            hits = [(o, o.env.get(k)) for o in stay if o.env.get(k) is not base.get(k)]
            if hits and not exits and all(isinstance(v, ast.AST) and not depends(v) and dump(v) == dump(hits[0][1]) for _, v in hits):
                took = ast.Call(func=ast.Name(id="any", ctx=ast.Load()), args=[gen(mk_or(mk_and(cond_expr(e, p) for e, p in o.conds()) for o, _ in hits))], keywords=[])
                took._loop = n
                new_, old_ = hits[0][1], s.env[k]
                if isinstance(new_, ast.Constant) and isinstance(old_, ast.Constant) and isinstance(new_.value, bool) and isinstance(old_.value, bool):
                    # a boolean flag is the quantified condition itself (any() is a bool)
                    after[k] = new_ if new_.value == old_.value else (took if new_.value else mk_not(took))
                else:
                    after[k] = ast.IfExp(test=took, body=new_, orelse=old_)
            elif len(hits) != len(stay) or exits:
                inside = {id(x) for x in ast.walk(n)}
                if any(isinstance(x, ast.Name) and x.id == k and isinstance(x.ctx, ast.Load) and id(x) not in inside for x in ast.walk(fr.fi.node)):
                    raise AnalysisError("loop that re-binds local %s on some iterations in %s: outside the vocabulary" % (k, fr.fi.short))
        if exits:
            # search loop: no state is carried from one iteration to the next
            if accs:
                raise AnalysisError("loop that both accumulates and exits early in %s: outside the vocabulary" % fr.fi.short)
            sig = None
            for o in exits:
                val = o.end[1]
                delta = {k: o.env.get(k) for k in changed(o)}
                if depends(val) or any(depends(v) for v in delta.values()):
                    raise AnalysisError("loop exit value depends on the loop variable in %s: outside the vocabulary" % fr.fi.short)
                k = (o.end[0], dump(val) if isinstance(val, ast.AST) else val, tuple(sorted((a, dump(b) if isinstance(b, ast.AST) else repr(b)) for a, b in delta.items())))
                if sig is None:
                    sig = (k, o, delta)
                elif sig[0] != k:
                    raise AnalysisError("search loop with different exit effects in %s: outside the vocabulary" % fr.fi.short)
            found = mk_or(mk_and(cond_expr(e, p) for e, p in o.conds()) for o in exits)
            anyc = ast.Call(func=ast.Name(id="any", ctx=ast.Load()), args=[gen(found)], keywords=[])
            anyc._loop = n
            res = []
            hit = s.fork()
            if self._add_cond(hit, anyc, True, n):
                _, o, delta = sig
                hit.env.update(after)
                hit.env.update(delta)
                if o.end[0] != "break":
                    hit.end = o.end
                res.append(hit)
            miss = s.fork()
            if self._add_cond(miss, anyc, False, n):
                miss.env.update(after)
                res.extend(self._block(n.orelse, [miss], fr) if n.orelse else [miss])
            return res
        if not accs:
            # a loop without effect on the state (only evaluations)
            ev_exprs = [ev[1] for o in stay for ev in o.trace if ev[0] == "eval"]
            if ev_exprs:
                s.trace.append(("eval", ast.ListComp(elt=ast.Tuple(elts=ev_exprs, ctx=ast.Load()), generators=[ast.comprehension(target=tgt, iter=it, ifs=[], is_async=0)]), None, n))
            s.env.update(after)
            return self._block(n.orelse, [s], fr) if n.orelse else [s]
        # accumulation: every accumulated local gets its closed form
        for acc in sorted(accs):
            kind, items = accs[acc]
            new, comp = self._accumulated(kind, s.env[acc], items, tgt, it, fr)
            comp._loop = n
            s.env[acc] = new
            s.trace.append(("eval", comp, None, n))
        s.env.update(after)
        return self._block(n.orelse, [s], fr) if n.orelse else [s]

    # -- accumulation: the vocabulary of loop effects --------------------------------------------------------------
    @staticmethod
    def _acc_kind(old):
        """What kind of value under construction a local holds before a loop (None: not one the executor can extend)."""
        if isinstance(old, ast.List):
            return "list"
        if isinstance(old, ast.Set):
            return "set"
        if isinstance(old, ast.Dict):
            return "dict"
        if _is_str_expr(old):
            return "str"
        if isinstance(old, ast.Constant) and isinstance(old.value, int) and not isinstance(old.value, bool):
            return "num"
        return None

    @staticmethod
    def _contribution(kind, old, new):
        """The parts one iteration adds to the value `old` to get `new` (in order), or None when `new` is not an
        extension of `old`.  list / set: the added elements (possibly starred: extend / update); dict: (key, value)
        pairs (key None: a merged mapping); str / num: the operands added on the right."""
        if new is old:
            return []
        if kind in ("list", "set"):
            if type(new) is type(old) and len(new.elts) >= len(old.elts) and all(a is b for a, b in zip(new.elts, old.elts)):
                return list(new.elts[len(old.elts):])
            return None
        if kind == "dict":
            if isinstance(new, ast.Dict) and len(new.keys) >= len(old.keys) and all(a is b for a, b in zip(new.keys, old.keys)) and all(a is b for a, b in zip(new.values, old.values)):
                return list(zip(new.keys[len(old.keys):], new.values[len(old.values):]))
            return None
        parts, cur = [], new
        while cur is not old:
            if not (isinstance(cur, ast.BinOp) and isinstance(cur.op, ast.Add)):
                return None
            parts.append(cur.right)
            cur = cur.left
        return parts[::-1]

    def _emptiness_reads(self, s, base, stay, outs, exits, changed):
        """The two reads of a running value that have a closed form, both asking "is this the first iteration?":
        `if parts:` / `len(parts) > 0` on a list every iteration of which adds at least one element (the
        `if parts: parts.append(sep)` join idiom: before iteration i the list is non-empty iff it was before the loop or
        i > 0), and the truth of a flag that every iteration sets to the same constant (`first = True ... first = False`).
        The conditions are rewritten in place (to a constant, or to `index > 0` over a fresh index variable, whose name
        is returned); outcomes that become infeasible are dropped.  Not applied to loops that can leave early."""
        if exits:
            return None
        names = set()
        for o in stay:
            names |= changed(o)
        idx = None

        def index_positive():
            nonlocal idx
            if idx is None:
                idx = self._fresh("index")
            nm = ast.Name(id=idx, ctx=ast.Load())
            nm._local = True
            return ast.Compare(left=nm, ops=[ast.Gt()], comparators=[ast.Constant(value=0)])

        def rewrite(test, known):
            """test(cond expr) -> polarity it asserts or None; known: constant truth or the expression `index > 0`"""
            for o in list(outs):
                trace, feasible = [], True
                for ev in o.trace:
                    pol = test(ev[1]) if ev[0] == "cond" else None
                    if pol is None:
                        trace.append(ev)
                    elif isinstance(known, bool):
                        feasible = feasible and ((ev[2] == pol) == known)
                    else:
                        trace.append(("cond", known, ev[2] == pol, ev[3], dump(known)))
                if not feasible:
                    outs.remove(o)
                    if o in stay:
                        stay.remove(o)
                else:
                    o.trace = trace

        # the first-iteration flag: a constant before the loop, the same other constant assigned by every iteration that
        # stays; tested (`if first:` / `if not first:`) before it is assigned.  Its truth before iteration i is that of
        # the old constant for i == 0 and of the new one for i > 0.
        for k in sorted(names):
            marker, old = base.get(k), s.env.get(k)
            if marker is old or not isinstance(old, ast.Constant):
                continue
            news = [o.env.get(k) for o in stay]
            if not all(isinstance(v, ast.Constant) and type(v.value) is type(news[0].value) and v.value == news[0].value for v in news):
                continue
            if not any(ev[0] == "cond" and ev[1] is marker for o in outs for ev in o.trace):
                continue
            t_old, t_new = bool(old.value), bool(news[0].value)
            if t_old == t_new:
                rewrite(lambda e: True if e is marker else None, t_old)
            else:
                # truthy  <=>  (index > 0) == t_new
                pos = index_positive()
                rewrite(lambda e: t_new if e is marker else None, pos)
        for k in sorted(names):
            old = s.env.get(k)
            if not isinstance(old, ast.List):
                continue
            parts = [self._contribution("list", old, o.env.get(k)) for o in stay]
            if not all(p is not None and any(not isinstance(x, ast.Starred) for x in p) for p in parts):
                continue

            def emptiness(e):
                """(True: e says `old` is non-empty / False: empty) or None"""
                if e is old:
                    return True
                if isinstance(e, ast.Compare) and len(e.ops) == 1 and isinstance(e.left, ast.Call) and isinstance(e.left.func, ast.Name) and e.left.func.id == "len" \
                        and len(e.left.args) == 1 and e.left.args[0] is old and not e.left.keywords and isinstance(e.comparators[0], ast.Constant):
                    return {(ast.Gt, 0): True, (ast.NotEq, 0): True, (ast.GtE, 1): True, (ast.Eq, 0): False, (ast.Lt, 1): False, (ast.LtE, 0): False}.get((type(e.ops[0]), e.comparators[0].value))
                return None

            if not any(ev[0] == "cond" and emptiness(ev[1]) is not None for o in outs for ev in o.trace):
                continue
            if any(not isinstance(x, ast.Starred) for x in old.elts):
                rewrite(emptiness, True)
            elif not old.elts:
                rewrite(emptiness, index_positive())
            # (a starred prefix: emptiness before the loop unknown -> the read check below refuses)
        return idx

    def _classify_loop_effects(self, s, base, stay, outs, changed, fr):
        """-> ({local: (kind, [(conds, parts)])} for the locals every iteration extends, {locals re-bound per iteration}).
        Sound only when no iteration reads what an earlier one wrote: the body was executed on the values the locals
        had BEFORE the loop, so any expression of the body that contains such a value (found by identity: substitution
        never copies a value) other than as the prefix being extended is a read of the running value -> refused."""
        names = set()
        for o in stay:
            names |= changed(o)
        accs, rebound = {}, set()
        spine = set()  # ids of the nodes `old + a + b` of str / num accumulations (they are the extension itself, not a read)
        for k in sorted(names):
            old = base.get(k)  # what the body saw: the value before the loop, or its marker
            kind = self._acc_kind(s.env.get(k))
            items = []
            if kind is not None:
                for o in stay:
                    parts = self._contribution(kind, old, o.env.get(k))
                    if parts is None:
                        items = None
                        break
                    items.append((o.conds(), parts))
                    cur = o.env.get(k)
                    while kind in ("str", "num") and cur is not old:
                        spine.add(id(cur))
                        cur = cur.left
            if kind is None or items is None:
                if kind is not None and any(self._contribution(kind, old, o.env.get(k)) for o in stay):
                    raise AnalysisError("loop that both extends and re-binds local %s in %s: outside the vocabulary" % (k, fr.fi.short))
                rebound.add(k)
            else:
                accs[k] = (kind, items)
        watched = set(names) | {k for k in base if base[k] is not s.env.get(k)}
        if watched:
            produced = []
            for o in outs:  # the iterations that leave the loop read the running values too
                produced.extend(ev[1] for ev in o.trace if ev[0] in ("cond", "eval") and id(ev[1]) not in spine)
                if o.end is not None and isinstance(o.end[1], ast.AST):
                    produced.append(o.end[1])
                for k in (rebound if o in stay else changed(o)):
                    v = o.env.get(k)
                    if isinstance(v, ast.AST) and v is not base.get(k):
                        produced.append(v)
            for k, (kind, items) in accs.items():
                for _, parts in items:
                    for p in parts:
                        produced.extend([x for x in p if x is not None] if isinstance(p, tuple) else [p])
            for k in sorted(watched):
                old = base.get(k)
                if isinstance(old, ast.AST) and any(x is old for e in produced for x in ast.walk(e)):
                    raise AnalysisError("loop body reads local %s, which the loop itself changes, in %s: outside the vocabulary" % (k, fr.fi.short))
        return accs, rebound

    def _accumulated(self, kind, old, items, tgt, it, fr):
        """Closed form of an accumulation.  items: [(conds of the path through the body, parts added on it)].
        One plain element on every path (or none on some) keeps the comprehension form `[E for x in it if C]`;
        anything else (several parts per iteration, a number of parts that depends on the path, extend / update,
        str / set / dict accumulators) is the flattening `[y for x in it for y in PARTS(x)]`, where PARTS(x) is the
        decision tree of the body with one list display per path.  -> (new value of the local, the comprehension)."""
        def comp_of(ifs=(), more=()):
            return [ast.comprehension(target=tgt, iter=it, ifs=list(ifs), is_async=0)] + list(more)

        if kind == "list" and all(len(p) <= 1 and not isinstance(p[0] if p else None, ast.Starred) for _, p in items):
            skip = ast.Name(id="__skip__", ctx=ast.Load())
            leaves = [(c, p[0] if p else skip) for c, p in items]
            elt = tree_of(leaves)
            if elt is None:
                raise AnalysisError("loop body of %s has no decision-tree form" % fr.fi.short)
            ifs = []
            if any(leaf is skip for _, leaf in leaves):
                ifs = [mk_or(mk_and(cond_expr(e, p) for e, p in c) for c, leaf in leaves if leaf is not skip)]
            comp = ast.ListComp(elt=elt, generators=comp_of(ifs))
            return ast.List(elts=list(old.elts) + [ast.Starred(value=comp, ctx=ast.Load())], ctx=ast.Load()), comp

        def display(parts):
            if kind != "dict":
                return ast.List(elts=list(parts), ctx=ast.Load())
            elts = []
            for k, v in parts:
                if k is None:  # a merged mapping contributes its items
                    elts.append(ast.Starred(value=ast.Call(func=ast.Attribute(value=v, attr="items", ctx=ast.Load()), args=[], keywords=[]), ctx=ast.Load()))
                else:
                    elts.append(ast.Tuple(elts=[k, v], ctx=ast.Load()))
            return ast.List(elts=elts, ctx=ast.Load())

        tree = tree_of([(c, display(p)) for c, p in items])
        if tree is None:
            raise AnalysisError("loop body of %s has no decision-tree form" % fr.fi.short)

        def var(ctx):
            v = ast.Name(id=y, ctx=ctx)
            v._local = True
            return v
        y = self._fresh("part")
        if kind == "dict":
            y2 = self._fresh("part")
            kv = [ast.Name(id=y, ctx=ast.Store()), ast.Name(id=y2, ctx=ast.Store())]
            for v in kv:
                v._local = True
            inner = ast.comprehension(target=ast.Tuple(elts=kv, ctx=ast.Store()), iter=tree, ifs=[], is_async=0)
            val = ast.Name(id=y2, ctx=ast.Load())
            val._local = True
            comp = ast.DictComp(key=var(ast.Load()), value=val, generators=comp_of((), [inner]))
            return ast.Dict(keys=list(old.keys) + [None], values=list(old.values) + [comp]), comp
        inner = ast.comprehension(target=var(ast.Store()), iter=tree, ifs=[], is_async=0)
        comp = ast.ListComp(elt=var(ast.Load()), generators=comp_of((), [inner]))
        if kind == "list":
            return ast.List(elts=list(old.elts) + [ast.Starred(value=comp, ctx=ast.Load())], ctx=ast.Load()), comp
        if kind == "set":
            return ast.Set(elts=list(old.elts) + [ast.Starred(value=comp, ctx=ast.Load())]), comp
        if kind == "str":
            total = ast.Call(func=ast.Attribute(value=ast.Constant(value=""), attr="join", ctx=ast.Load()), args=[comp], keywords=[])
        else:
            total = ast.Call(func=ast.Name(id="sum", ctx=ast.Load()), args=[comp], keywords=[])
        return ast.BinOp(left=old, op=ast.Add(), right=total), comp


def _is_str_expr(e):
    """Is the value certainly a str?  (a str constant, an f-string, `sep.join(..)`, `'..' % x`, a str + anything that adds to it)"""
    if isinstance(e, ast.Constant):
        return isinstance(e.value, str)
    if isinstance(e, ast.JoinedStr):
        return True
    if isinstance(e, ast.BinOp) and isinstance(e.op, ast.Add):
        return _is_str_expr(e.left) or _is_str_expr(e.right)
    if isinstance(e, ast.BinOp) and isinstance(e.op, ast.Mod):
        return _is_str_expr(e.left)
    if isinstance(e, ast.Call) and isinstance(e.func, ast.Attribute) and e.func.attr == "join" and _is_str_expr(e.func.value):
        return True
    return False


def flatten_display(val):
    """One spelling for a list built from another: `a + [x]`, `[*a, x]` with a list display a -> `[a0, .., x]`
    (the elements keep their identity, so an extension of a list under construction is recognised as one)."""
    if isinstance(val, ast.BinOp) and isinstance(val.op, ast.Add):
        l, r = flatten_display(val.left), flatten_display(val.right)
        if isinstance(l, ast.List) and isinstance(r, ast.List):
            return ast.List(elts=list(l.elts) + list(r.elts), ctx=ast.Load())
        return val
    if isinstance(val, ast.List) and any(isinstance(x, ast.Starred) and isinstance(x.value, (ast.List, ast.Tuple)) for x in val.elts):
        elts = []
        for x in val.elts:
            if isinstance(x, ast.Starred) and isinstance(x.value, (ast.List, ast.Tuple)):
                elts.extend(flatten_display(x.value).elts if isinstance(x.value, ast.List) else x.value.elts)
            else:
                elts.append(x)
        return flatten_display(ast.List(elts=elts, ctx=ast.Load()))
    return val


def substitute(e, mapping):
    """copy of expression e with loads of the given names replaced (no binder of e may re-bind them)"""
    if isinstance(e, ast.Name):
        if e.id in mapping and isinstance(e.ctx, ast.Load):
            return mapping[e.id]
        return e
    if isinstance(e, list):
        return [substitute(x, mapping) for x in e]
    if not isinstance(e, ast.AST) or isinstance(e, (ast.expr_context, ast.operator, ast.unaryop, ast.boolop, ast.cmpop, ast.Constant)):
        return e
    kw = {}
    changed = False
    for f, v in ast.iter_fields(e):
        nv = substitute(v, mapping) if isinstance(v, (ast.AST, list)) else v
        if nv is not v:
            changed = changed or not (isinstance(v, list) and len(v) == len(nv) and all(a is b for a, b in zip(v, nv)))
        kw[f] = nv
    if not changed:
        return e
    c = type(e)(**kw)
    for a in ("_src", "_mod", "_local", "_loop", "_closure", "_opaque"):
        if hasattr(e, a):
            setattr(c, a, getattr(e, a))
    return c


def _opaque(name, node):
    c = ast.Name(id=name, ctx=ast.Load())
    c._local = True
    c._opaque = True
    c._src = node
    return c


def tree_of(items):
    """items: [(conds [(expr, pol)], leaf expr)] of a deterministic execution ->
    nested conditional expression, or None when the condition sequences do not
    form a decision tree."""
    def build(items, i):
        if len(items) == 1 and len(items[0][0]) <= i:
            return items[0][1]
        if any(len(c) <= i for c, _ in items):
            return None
        d0 = dump(items[0][0][i][0])
        if any(dump(c[i][0]) != d0 for c, _ in items):
            return None
        t = [x for x in items if x[0][i][1]]
        f = [x for x in items if not x[0][i][1]]
        test = items[0][0][i][0]
        if not t or not f:
            # one outcome was pruned as infeasible: the test is decided on this path
            return build(t or f, i + 1)
        a, b = build(t, i + 1), build(f, i + 1)
        if a is None or b is None:
            return None
        if isinstance(a, ast.AST) and isinstance(b, ast.AST) and dump(a) == dump(b):
            return a
        return ast.IfExp(test=test, body=a, orelse=b)
    if not items:
        return None
    return build(items, 0)


# ---------------------------------------------------------------------------
# hoisting of conditional expressions


def _strict_fields(n):
    """(field, index or None, child) for the sub-expressions that are evaluated whenever n is."""
    if isinstance(n, ast.BoolOp):
        return [("values", 0, n.values[0])]
    if isinstance(n, ast.IfExp):
        return [("test", None, n.test)]
    if isinstance(n, (ast.ListComp, ast.SetComp, ast.GeneratorExp, ast.DictComp)):
        return []  # generators[0].iter is strict, but rebuilding comprehensions is not worth it: handled by callers
    if isinstance(n, ast.Lambda):
        return []
    out = []
    for f, v in ast.iter_fields(n):
        if isinstance(v, ast.expr):
            out.append((f, None, v))
        elif isinstance(v, list):
            for i, x in enumerate(v):
                if isinstance(x, ast.expr):
                    out.append((f, i, x))
                elif isinstance(x, ast.keyword):
                    out.append((f, i, x))
        elif isinstance(v, ast.keyword):
            out.append((f, None, v))
    return out


def _with_field(n, f, i, new):
    kw = {k: v for k, v in ast.iter_fields(n)}
    if i is None:
        kw[f] = new
    else:
        lst = list(kw[f])
        lst[i] = new
        kw[f] = lst
    c = type(n)(**kw)
    for a in ("_src", "_mod", "_local", "_loop"):
        if hasattr(n, a):
            setattr(c, a, getattr(n, a))
    return c


def _first_ifexp(n):
    """path [(node, field, index, how)] from n down to the first strictly evaluated IfExp, or None"""
    if isinstance(n, ast.IfExp):
        return []
    if isinstance(n, (ast.ListComp, ast.SetComp, ast.GeneratorExp, ast.DictComp)):
        sub = _first_ifexp(n.generators[0].iter)
        return None if sub is None else [(n, "generators", 0, "gen")] + sub
    for f, i, ch in _strict_fields(n):
        if isinstance(ch, ast.keyword):
            sub = _first_ifexp(ch.value)
            if sub is not None:
                return [(n, f, i, "kw")] + sub
            continue
        sub = _first_ifexp(ch)
        if sub is not None:
            return [(n, f, i, None)] + sub
    return None


def _child(n_, f, i, how):
    ch = getattr(n_, f)
    ch = ch[i] if i is not None else ch
    if how == "kw":
        return ch.value
    if how == "gen":
        return ch.iter
    return ch


def hoist(e, limit=64):
    """[(conds, expr)]: case split on the conditional expressions in strictly
    evaluated positions of e (tests in evaluation order)."""
    out = []
    todo = [([], e)]
    while todo:
        conds, x = todo.pop(0)
        p = _first_ifexp(x)
        if p is None:
            out.append((conds, x))
            continue
        if len(out) + len(todo) > limit:
            raise AnalysisError("too many cases of conditional expressions in `%s`" % txt(e, 80))
        node = x
        for n_, f, i, how in p:
            node = _child(n_, f, i, how)
        ife = node

        def rebuild(k, repl):
            if k == len(p):
                return repl
            n_, f, i, how = p[k]
            ch = getattr(n_, f)
            ch = ch[i] if i is not None else ch
            sub = rebuild(k + 1, repl)
            if how == "kw":
                new = ast.keyword(arg=ch.arg, value=sub)
            elif how == "gen":
                new = ast.comprehension(target=ch.target, iter=sub, ifs=ch.ifs, is_async=ch.is_async)
            else:
                new = sub
            return _with_field(n_, f, i, new)
        # the test itself may contain conditional expressions
        for tconds, t in hoist(ife.test, limit):
            todo.append((conds + tconds + [(t, True)], rebuild(0, ife.body)))
            todo.append((conds + tconds + [(t, False)], rebuild(0, ife.orelse)))
    return out


# ---------------------------------------------------------------------------
# truth-table reasoning


class BoolSpace:
    """Boolean reasoning over condition expressions.

    `ev(expr)` evaluates a closed expression (raises NormError otherwise);
    `domain(subject expr)` may return extra universe elements for a subject
    (e.g. [None] for an optional string); `special(expr)` may map an
    expression to a formula (('atom', key) / any formula tuple) before the
    generic classification."""

    def __init__(self, ev, domain=None, special=None, limit=1 << 17):
        self.ev = ev
        self.domain = domain or (lambda e: None)
        self.special = special or (lambda e: None)
        self.limit = limit
        self.subjects = {}  # key -> {"expr":, "consts": set(values), "truth": bool, "ordered": bool}
        self._cache = {}

    # -- compilation ---------------------------------------------------------
    def formula(self, e):
        if isinstance(e, tuple):
            return e
        k = id(e)
        hit = self._cache.get(k)
        if hit is not None and hit[0] is e:
            return hit[1]
        f = self._formula(e)
        self._cache[k] = (e, f)
        return f

    def _const(self, e):
        try:
            return True, self.ev(e)
        except (NormError, EvalRaised):
            return False, None

    def _subject(self, e, const=None, truth=False, ordered=False):
        key = dump(e)
        s = self.subjects.get(key)
        if s is None:
            s = self.subjects[key] = {"expr": e, "consts": [], "truth": False, "ordered": False}
        if truth:
            s["truth"] = True
        if ordered:
            s["ordered"] = True
        for c in (const or ()):
            if not any(c is x or (type(c) is type(x) and c == x) for x in s["consts"]):
                s["consts"].append(c)
        return key

    def _formula(self, e):
        sp = self.special(e)
        if sp is not None:
            return sp
        if isinstance(e, ast.Constant):
            return ("const", bool(e.value))
        if isinstance(e, ast.UnaryOp) and isinstance(e.op, ast.Not):
            return ("not", self.formula(e.operand))
        if isinstance(e, ast.BoolOp):
            return ("and" if isinstance(e.op, ast.And) else "or", tuple(self.formula(v) for v in e.values))
        if isinstance(e, ast.IfExp):
            return ("ite", self.formula(e.test), self.formula(e.body), self.formula(e.orelse))
        if isinstance(e, ast.Compare):
            if len(e.ops) > 1:
                parts, left = [], e.left
                for op, right in zip(e.ops, e.comparators):
                    parts.append(self.formula(ast.Compare(left=left, ops=[op], comparators=[right])))
                    left = right
                return ("and", tuple(parts))
            op, l, r = e.ops[0], e.left, e.comparators[0]
            lc, lv = self._const(l)
            rc, rv = self._const(r)
            # len(x) compared with 0 / 1 is the truth value of x
            for a, b, bv, mirrored in ((l, rc, rv, False), (r, lc, lv, True)):
                if b and isinstance(a, ast.Call) and isinstance(a.func, ast.Name) and a.func.id == "len" and len(a.args) == 1 and not a.keywords and isinstance(bv, int) and not isinstance(bv, bool):
                    o = type(op)
                    if mirrored:
                        o = {ast.Lt: ast.Gt, ast.Gt: ast.Lt, ast.LtE: ast.GtE, ast.GtE: ast.LtE}.get(o, o)
                    truth = {(ast.Eq, 0): False, (ast.NotEq, 0): True, (ast.Gt, 0): True, (ast.GtE, 1): True, (ast.Lt, 1): False, (ast.LtE, 0): False}.get((o, bv))
                    if truth is not None:
                        f = self.formula(a.args[0])
                        return f if truth else ("not", f)
            if lc and rc:
                try:
                    return ("const", bool(_CMPOPS[type(op)](lv, rv)))
                except Exception:
                    pass
            if isinstance(op, (ast.Eq, ast.NotEq, ast.Is, ast.IsNot)) and (lc or rc) and not (lc and rc):
                subj, c = (r, lv) if lc else (l, rv)
                if _hashable(c):
                    key = self._subject(subj, [c])
                    f = ("subj", key, ("eq", c))
                    return f if isinstance(op, (ast.Eq, ast.Is)) else ("not", f)
            if isinstance(op, (ast.In, ast.NotIn)) and rc and not lc and isinstance(rv, (tuple, list, set, frozenset, dict)):
                vals = list(rv)
                if all(_hashable(c) for c in vals):
                    key = self._subject(l, vals)
                    f = ("subj", key, ("in", tuple(vals)))
                    return f if isinstance(op, ast.In) else ("not", f)
            if isinstance(op, (ast.Lt, ast.LtE, ast.Gt, ast.GtE)) and (lc or rc) and not (lc and rc):
                subj, c = (r, lv) if lc else (l, rv)
                if isinstance(c, int) and not isinstance(c, bool):
                    o = type(op)
                    if lc:  # c op subj  ->  subj op' c
                        o = {ast.Lt: ast.Gt, ast.Gt: ast.Lt, ast.LtE: ast.GtE, ast.GtE: ast.LtE}[o]
                    key = self._subject(subj, [c - 1, c, c + 1], ordered=True)
                    return ("subj", key, ({ast.Lt: "lt", ast.LtE: "le", ast.Gt: "gt", ast.GtE: "ge"}[o], c))
            k, pol = atom_key(e)
            f = ("atom", k)
            return f if pol else ("not", f)
        if isinstance(e, ast.Call) and isinstance(e.func, ast.Name) and e.func.id in ("any", "all") and len(e.args) == 1 and not e.keywords \
                and isinstance(e.args[0], (ast.GeneratorExp, ast.ListComp)) and len(e.args[0].generators) == 1 and not e.args[0].generators[0].ifs \
                and isinstance(e.args[0].generators[0].target, ast.Name):
            # any(c for x in it) == not all(not c for x in it): one canonical key
            g = e.args[0].generators[0]
            elt = e.args[0].elt
            if e.func.id == "any":
                elt = mk_not(elt)
            k = "all[%s in %s] %s" % (g.target.id, txt(g.iter, 200), self._quant_key(elt, g.target.id))
            f = ("atom", k)
            return f if e.func.id == "all" else ("not", f)
        if isinstance(e, ast.Call) and isinstance(e.func, ast.Name) and e.func.id == "bool" and len(e.args) == 1 and not e.keywords:
            return self.formula(e.args[0])
        if isinstance(e, ast.Call) and isinstance(e.func, ast.Name) and e.func.id in ("any", "all") and len(e.args) == 1 and not e.keywords \
                and isinstance(e.args[0], (ast.Tuple, ast.List)) and not any(isinstance(x, ast.Starred) for x in e.args[0].elts):
            return ("or" if e.func.id == "any" else "and", tuple(self.formula(x) for x in e.args[0].elts))
        c, v = self._const(e)
        if c:
            return ("const", bool(v))
        # truthiness of a value
        key = self._subject(e, truth=True)
        return ("subj", key, ("truth",))

    def _quant_key(self, elt, var):
        try:
            d = norm.Normalizer().dnf(elt)
            return " | ".join(sorted(" & ".join(sorted(repr(c) for c in conj)) for conj in d))
        except Exception:
            return txt(elt, 300)

    # -- evaluation --------------------------------------------------------------------------
    def _keys(self, f, subj, atoms):
        k = f[0]
        if k == "subj":
            subj.add(f[1])
        elif k == "atom":
            atoms.add(f[1])
        elif k == "not":
            self._keys(f[1], subj, atoms)
        elif k in ("and", "or"):
            for x in f[1]:
                self._keys(x, subj, atoms)
        elif k == "ite":
            for x in f[1:]:
                self._keys(x, subj, atoms)

    def universe(self, key):
        s = self.subjects[key]
        vals = list(s["consts"])
        extra = self.domain(s["expr"])
        typed = extra is not None
        for c in (extra or ()):
            if not any(c is x or (type(c) is type(x) and c == x) for x in vals):
                vals.append(c)
        if s["ordered"] and all(isinstance(v, int) and not isinstance(v, bool) for v in vals):
            if s["truth"] and 0 not in vals:
                vals.append(0)
            return vals
        if s["ordered"]:
            raise AnalysisError("subject %s is compared both by order and against non-integers" % txt(s["expr"], 60))
        if s["truth"] and not typed and not any(not v for v in vals):
            vals.append("")  # some falsy value
        vals.append(OTHER)
        return vals

    @staticmethod
    def _test(v, t):
        k = t[0]
        if k == "eq":
            return v is not OTHER and type(v) is type(t[1]) and v == t[1]
        if k == "in":
            return v is not OTHER and any(type(v) is type(c) and v == c for c in t[1])
        if k == "truth":
            return bool(v)
        if v is OTHER:
            raise AnalysisError("ordered comparison of an unconstrained value")
        return {"lt": v < t[1], "le": v <= t[1], "gt": v > t[1], "ge": v >= t[1]}[k]

    def _eval(self, f, sv, av):
        """three-valued: True / False / None (depends on a subject or atom that has no value yet)"""
        k = f[0]
        if k == "const":
            return f[1]
        if k == "subj":
            if f[1] not in sv:
                return None
            return self._test(sv[f[1]], f[2])
        if k == "atom":
            return av.get(f[1])
        if k == "not":
            v = self._eval(f[1], sv, av)
            return None if v is None else not v
        if k == "and":
            res = True
            for x in f[1]:
                v = self._eval(x, sv, av)
                if v is False:
                    return False
                if v is None:
                    res = None
            return res
        if k == "or":
            res = False
            for x in f[1]:
                v = self._eval(x, sv, av)
                if v is True:
                    return True
                if v is None:
                    res = None
            return res
        if k == "ite":
            t = self._eval(f[1], sv, av)
            if t is None:
                a, b = self._eval(f[2], sv, av), self._eval(f[3], sv, av)
                return a if a is b and a is not None else None
            return self._eval(f[2] if t else f[3], sv, av)
        raise AnalysisError("formula %r" % (f,))

    def _order(self, f, out):
        """subjects / atoms in order of first appearance"""
        k = f[0]
        if k == "subj":
            if ("s", f[1]) not in out:
                out.append(("s", f[1]))
        elif k == "atom":
            if ("a", f[1]) not in out:
                out.append(("a", f[1]))
        elif k == "not":
            self._order(f[1], out)
        elif k in ("and", "or"):
            for x in f[1]:
                self._order(x, out)
        elif k == "ite":
            for x in f[1:]:
                self._order(x, out)

    def model(self, goal):
        """An assignment (subject values, atom values) making `goal` true, or None: backtracking search with
        three-valued evaluation (a conjunction of path conditions prunes after each variable)."""
        goal = self.formula(goal)
        order = []
        self._order(goal, order)
        unis = {k: self.universe(k) for kind, k in order if kind == "s"}
        steps = [0]

        def rec(i, sv, av):
            v = self._eval(goal, sv, av)
            if v is False:
                return None
            if v is True:
                return dict(sv), dict(av)
            steps[0] += 1
            if steps[0] > self.limit:
                raise AnalysisError("condition space too large")
            while i < len(order):
                kind, k = order[i]
                i += 1
                d = sv if kind == "s" else av
                if k in d:
                    continue
                for val in (unis[k] if kind == "s" else (True, False)):
                    d[k] = val
                    r = rec(i, sv, av)
                    if r is not None:
                        return r
                del d[k]
                return None
            return None
        return rec(0, {}, {})

    def conj(self, conds):
        return ("and", tuple(self.formula(e) if pol else ("not", self.formula(e)) for e, pol in conds))

    def counterexample(self, premise, conclusion, assuming=None):
        """An assignment with premise (and assuming) true and conclusion false, or None."""
        parts = [self.formula(premise), ("not", self.formula(conclusion))]
        if assuming is not None:
            parts.insert(0, self.formula(assuming))
        return self.model(("and", tuple(parts)))

    def implies(self, premise, conclusion, assuming=None):
        return self.counterexample(premise, conclusion, assuming) is None

    def equiv(self, a, b, assuming=None):
        return self.implies(a, b, assuming) and self.implies(b, a, assuming)

    def sat(self, f, assuming=None):
        return not self.implies(f, ("const", False), assuming)

    def show(self, cex):
        if cex is None:
            return ""
        sv, av = cex
        parts = ["%s=%r" % (txt(self.subjects[k]["expr"], 40), v) for k, v in sorted(sv.items(), key=lambda kv: kv[0])]
        parts += ["%s%s" % ("" if v else "not ", k[:60]) for k, v in sorted(av.items())]
        return ", ".join(parts)


def _hashable(c):
    try:
        hash(c)
        return True
    except TypeError:
        return False


# ---------------------------------------------------------------------------
# evaluation context of a sub-expression


def contexts(root, pred):
    """For every node x below root with pred(x): (x, facts, binders) where facts
    are the [(expr, polarity)] known when x is evaluated -- earlier operands of
    enclosing `and` (true) / `or` (false), the test of an enclosing conditional
    expression, the `if` clauses of enclosing comprehensions -- and binders the
    comprehension generators [(target, iter)] whose variables are in scope."""
    out = []

    def walk(n, facts, binders):
        if pred(n):
            out.append((n, list(facts), list(binders)))
        if isinstance(n, ast.BoolOp):
            fs = list(facts)
            for v in n.values:
                walk(v, fs, binders)
                fs = fs + [(v, isinstance(n.op, ast.And))]
            return
        if isinstance(n, ast.IfExp):
            walk(n.test, facts, binders)
            walk(n.body, facts + [(n.test, True)], binders)
            walk(n.orelse, facts + [(n.test, False)], binders)
            return
        if isinstance(n, (ast.ListComp, ast.SetComp, ast.GeneratorExp, ast.DictComp)):
            fs, bs = list(facts), list(binders)
            for g in n.generators:
                walk(g.iter, fs, bs)
                bs = bs + [(g.target, g.iter)]
                for c in g.ifs:
                    walk(c, fs, bs)
                    fs = fs + [(c, True)]
            if isinstance(n, ast.DictComp):
                walk(n.key, fs, bs)
                walk(n.value, fs, bs)
            else:
                walk(n.elt, fs, bs)
            return
        if isinstance(n, ast.Lambda):
            walk(n.body, [], binders + [(None, None)])
            return
        for ch in ast.iter_child_nodes(n):
            if isinstance(ch, (ast.expr, ast.keyword, ast.comprehension)):
                walk(ch, facts, binders)
            elif isinstance(ch, ast.FormattedValue):
                walk(ch, facts, binders)
    walk(root, [], [])
    return out


def flat_facts(facts):
    """Split conjunctions known true / disjunctions known false into their operands."""
    out = []
    todo = list(facts)
    while todo:
        e, pol = todo.pop(0)
        if isinstance(e, ast.UnaryOp) and isinstance(e.op, ast.Not):
            todo.insert(0, (e.operand, not pol))
        elif isinstance(e, ast.BoolOp) and ((isinstance(e.op, ast.And) and pol) or (isinstance(e.op, ast.Or) and not pol)):
            todo = [(v, pol) for v in e.values] + todo
        elif isinstance(e, ast.Compare) and len(e.ops) > 1 and pol:
            left, parts = e.left, []
            for op, right in zip(e.ops, e.comparators):
                parts.append((ast.Compare(left=left, ops=[op], comparators=[right]), True))
                left = right
            todo = parts + todo
        else:
            out.append((e, pol))
    return out


# ---------------------------------------------------------------------------
# source-level normal form for callables used as values (for analyses that only follow direct calls)


class _NameSubst(ast.NodeTransformer):
    def __init__(self, mapping):
        self.mapping = mapping

    def visit_Name(self, n):
        if isinstance(n.ctx, ast.Load) and n.id in self.mapping:
            return copy.deepcopy(self.mapping[n.id])
        return n


def _stmt_lists(n):
    for f in ("body", "orelse", "finalbody"):
        v = getattr(n, f, None)
        if isinstance(v, list) and v and isinstance(v[0], ast.stmt):
            yield n, f, v
    for h in getattr(n, "handlers", []) or []:
        yield h, "body", h.body


def _own_statements(fn):
    """statements of fn at any block depth, not entering nested functions / classes"""
    todo = [fn]
    while todo:
        n = todo.pop()
        for owner, f, lst in _stmt_lists(n):
            for st in lst:
                yield st
                if not isinstance(st, (ast.FunctionDef, ast.AsyncFunctionDef, ast.ClassDef)):
                    todo.append(st)


def _drop_statements(fn, ids):
    todo = [fn]
    while todo:
        n = todo.pop()
        for owner, f, lst in _stmt_lists(n):
            new = [st for st in lst if id(st) not in ids] or [ast.Pass()]
            setattr(owner, f, new)
            for st in new:
                if not isinstance(st, (ast.FunctionDef, ast.AsyncFunctionDef, ast.ClassDef)):
                    todo.append(st)


class _CallableNorm(ast.NodeTransformer):
    """Within each function: a local bound once to a lambda / functools.partial(..) / a nested single-return def,
    and used only as a callee or as the function argument of map(), is applied at its uses:
    `f(x)` -> body[x], `map(f, xs)` -> `(body[v] for v in xs)`; `functools.partial(g, a)(x)` -> `g(a, x)`.
    The defining statement is dropped.  Behaviour is unchanged (the bodies are evaluated at the same
    points, with the same arguments)."""

    def __init__(self, imports):
        self.imports = imports
        self.defs = [{}]
        self.changed = False
        self._n = 0

    def _is_partial(self, e):
        if not (isinstance(e, ast.Call) and e.args and not any(isinstance(a, ast.Starred) for a in e.args) and not any(k.arg is None for k in e.keywords)):
            return False
        c = chain(e.func) or ""
        parts = c.split(".")
        if parts[0] in self.imports:
            c = ".".join([self.imports[parts[0]]] + parts[1:])
        return c == "functools.partial"

    def _callable_value(self, v):
        if isinstance(v, ast.Lambda):
            a = v.args
            if a.vararg or a.kwarg or a.kwonlyargs or a.defaults:
                return None
            return ("lambda", [x.arg for x in a.posonlyargs + a.args], v.body)
        if self._is_partial(v):
            return ("partial", v)
        return None

    def _collect(self, fn):
        cands, stores = {}, {}
        for n in ast.walk(fn):
            if n is fn:
                continue
            if isinstance(n, ast.Name) and isinstance(n.ctx, (ast.Store, ast.Del)):
                stores[n.id] = stores.get(n.id, 0) + 1
            elif isinstance(n, (ast.FunctionDef, ast.AsyncFunctionDef, ast.ClassDef)):
                stores[n.name] = stores.get(n.name, 0) + 1
            elif isinstance(n, ast.arg):
                stores[n.arg] = stores.get(n.arg, 0) + 1
        for st in _own_statements(fn):
            if isinstance(st, ast.Assign) and len(st.targets) == 1 and isinstance(st.targets[0], ast.Name):
                cv = self._callable_value(st.value)
                if cv is not None:
                    cands[st.targets[0].id] = (cv, st)
            elif isinstance(st, ast.FunctionDef) and not st.decorator_list:
                a = st.args
                body = [x for x in st.body if not (isinstance(x, ast.Expr) and isinstance(x.value, ast.Constant))]
                if len(body) == 1 and isinstance(body[0], ast.Return) and body[0].value is not None and not (a.vararg or a.kwarg or a.kwonlyargs or a.defaults) \
                        and not any(isinstance(x, (ast.Yield, ast.YieldFrom, ast.Await)) for x in ast.walk(st)):
                    cands[st.name] = (("lambda", [x.arg for x in a.posonlyargs + a.args], body[0].value), st)
        out = {}
        for name, (cv, st) in cands.items():
            if stores.get(name, 0) != 1:
                continue
            # every load is a callee or the function argument of map()
            ok_ids = set()
            for n in ast.walk(fn):
                if isinstance(n, ast.Call):
                    if isinstance(n.func, ast.Name) and n.func.id == name:
                        ok_ids.add(id(n.func))
                    if isinstance(n.func, ast.Name) and n.func.id == "map" and len(n.args) == 2 and isinstance(n.args[0], ast.Name) and n.args[0].id == name:
                        ok_ids.add(id(n.args[0]))
            loads = [n for n in ast.walk(fn) if isinstance(n, ast.Name) and n.id == name and isinstance(n.ctx, ast.Load)]
            if loads and all(id(n) in ok_ids for n in loads):
                out[name] = (cv, st)
        return out

    def _function(self, node):
        defs = self._collect(node)
        self.defs.append(defs)
        self.generic_visit(node)
        self.defs.pop()
        if defs:
            drop = {id(st) for _, st in defs.values()}
            _drop_statements(node, drop)
            self.changed = True
        return node

    visit_FunctionDef = _function
    visit_AsyncFunctionDef = _function

    def _lookup(self, name):
        for d in reversed(self.defs):
            if name in d:
                return d[name][0]
        return None

    def _apply(self, f, args, keywords):
        cv = None
        if isinstance(f, ast.Name):
            cv = self._lookup(f.id)
        if cv is None:
            cv = self._callable_value(f)
        if cv is not None and cv[0] == "lambda" and not keywords and len(args) == len(cv[1]) and not any(isinstance(a, ast.Starred) for a in args):
            rebound = any(isinstance(n, ast.Name) and isinstance(n.ctx, ast.Store) and n.id in cv[1] for n in ast.walk(cv[2]))
            if not rebound:
                self.changed = True
                return self.visit(_NameSubst(dict(zip(cv[1], args))).visit(copy.deepcopy(cv[2])))
        if cv is not None and cv[0] == "partial":
            p = cv[1]
            self.changed = True
            return self._apply(copy.deepcopy(p.args[0]), [copy.deepcopy(a) for a in p.args[1:]] + list(args), [copy.deepcopy(k) for k in p.keywords] + list(keywords))
        return ast.Call(func=f, args=list(args), keywords=list(keywords))

    def visit_Call(self, node):
        self.generic_visit(node)
        f = node.func
        if isinstance(f, ast.Name) and f.id == "map" and len(node.args) == 2 and not node.keywords and not any(isinstance(a, ast.Starred) for a in node.args):
            fn = node.args[0]
            if (isinstance(fn, ast.Name) and self._lookup(fn.id) is not None) or self._callable_value(fn) is not None:
                self._n += 1
                v = "_m%d" % self._n
                self.changed = True
                elt = self._apply(fn, [ast.Name(id=v, ctx=ast.Load())], [])
                return ast.GeneratorExp(elt=elt, generators=[ast.comprehension(target=ast.Name(id=v, ctx=ast.Store()), iter=node.args[1], ifs=[], is_async=0)])
            return node
        if (isinstance(f, ast.Name) and self._lookup(f.id) is not None) or isinstance(f, ast.Lambda) or self._is_partial(f):
            r = self._apply(f, node.args, node.keywords)
            return r
        return node


def callable_normal_form(prog, module_names):
    """{path relative to the repository root: source} for the modules whose functions use local callables as
    values; the sources are behaviour-preserving rewrites with those callables applied at their uses."""
    out = {}
    for name in module_names:
        m = prog.modules.get(name)
        if m is None:
            continue
        if not any(tok in m.src for tok in ("lambda", "partial", "map(")):
            continue
        tree = ast.parse(m.src, filename=m.path)
        t = _CallableNorm(m.imports)
        tree = t.visit(tree)
        if t.changed:
            ast.fix_missing_locations(tree)
            out[os.path.relpath(m.path, prog.root)] = ast.unparse(tree)
    return out


# ---------------------------------------------------------------------------
# concrete interpreter for small functions with state
#
# The Evaluator decides closed *expressions*.  Some facts are about *histories*: "what does the second call return
# after the first one stored something" (a memo inside a quote function, a table filled lazily).  `Interp` runs the
# statements of small package functions on the checker's own values: expressions go through a `StatefulEvaluator`
# (the Evaluator plus in-place methods of the dict / list / set values it created itself, assignment expressions and
# package functions as values), statements are interpreted here.  Nothing of the analysed repository is executed:
# every value is built by the checker from syntax, every operation is one of the whitelisted pure builtins / methods.
# Object identity is what Python's would be: a module-level constant is evaluated once per interpreter (the
# Evaluator's constant cache), a default argument once per function object, a display every time it is evaluated.

import builtins as _builtins

_EXC_BUILTINS = {k: v for k, v in vars(_builtins).items() if isinstance(v, type) and issubclass(v, BaseException)}
_CONTAINER_MUTATORS = {
    dict: {"setdefault", "update", "pop", "popitem", "clear", "__setitem__", "__delitem__"},
    list: {"append", "extend", "insert", "pop", "remove", "clear", "sort", "reverse", "__setitem__", "__delitem__"},
    set: {"add", "update", "discard", "remove", "pop", "clear", "difference_update", "intersection_update", "symmetric_difference_update"},
}


class PkgException(Exception):
    """Stands for an instance of an exception class defined in the analysed package."""

    def __init__(self, qn, args=()):
        Exception.__init__(self, qn)
        self.qn = qn
        self.pargs = tuple(args)


class _Return(Exception):
    def __init__(self, value):
        self.value = value


class _Break(Exception):
    pass


class _Continue(Exception):
    pass


class StatefulEvaluator(Evaluator):
    def __init__(self, prog, interp=None):
        Evaluator.__init__(self, prog)
        self.interp = interp

    def _pure_method(self, recv, attr):
        return Evaluator._pure_method(recv, attr) or attr in _CONTAINER_MUTATORS.get(type(recv), ())

    def _name(self, e, module, env):
        try:
            return Evaluator._name(self, e, module, env)
        except NormError:
            # a module-level function of the package, used as a value or called
            if self.interp is not None and chain(e) and not (isinstance(e, ast.Name) and getattr(e, "_local", False)):
                root = e
                while isinstance(root, ast.Attribute):
                    root = root.value
                q = qual_name(self.prog, getattr(root, "_mod", None) or module, e)
                fi = self.prog.funcs.get(q) if q else None
                if fi is not None and fi.parent is None and fi.cls is None:
                    return self.interp.function(fi)
            raise

    def _ev(self, e, module, env):
        if isinstance(e, ast.NamedExpr) and isinstance(e.target, ast.Name):
            v = self._ev(e.value, module, env)
            env[e.target.id] = v
            return v
        return Evaluator._ev(self, e, module, env)

    def _call(self, e, module, env):
        f = e.func
        # a package function called by its (possibly imported / dotted) name
        if self.interp is not None and chain(f) and not (isinstance(f, ast.Name) and (f.id in env or f.id in _BUILTINS)) \
                and not (isinstance(f, ast.Attribute) and isinstance(f.value, ast.Name) and f.value.id in env):
            q = qual_name(self.prog, module, f)
            fi = self.prog.funcs.get(q) if q and q not in _EXTERNALS else None
            if fi is not None and fi.parent is None and fi.cls is None:
                if any(isinstance(a, ast.Starred) for a in e.args) or any(k.arg is None for k in e.keywords):
                    raise NormError("star arguments")
                fn = self.interp.function(fi)
                return fn(*[self._ev(a, module, env) for a in e.args], **{k.arg: self._ev(k.value, module, env) for k in e.keywords})
        return Evaluator._call(self, e, module, env)


class InterpFunction:
    """A function value of the interpreted program (callable from the Evaluator)."""

    def __init__(self, interp, node, module, scopes, defaults, kwdefaults, name):
        self.interp, self.node, self.module, self.scopes = interp, node, module, scopes
        self.defaults, self.kwdefaults, self.name = defaults, kwdefaults, name
        self.memo = None  # functools.cache / lru_cache: results keyed by the arguments

    def __call__(self, *args, **kwargs):
        if self.memo is not None:
            try:
                k = (args, tuple(sorted(kwargs.items())))
                hash(k)
            except TypeError as ex:
                raise EvalRaised(ex)
            if k not in self.memo:
                self.memo[k] = self.interp.invoke(self, args, kwargs)
            return self.memo[k]
        return self.interp.invoke(self, args, kwargs)


class Interp:
    def __init__(self, prog, max_steps=400000, max_depth=40):
        self.prog = prog
        self.ev = StatefulEvaluator(prog, self)
        self.steps = 0
        self.max_steps = max_steps
        self.depth = 0
        self.max_depth = max_depth
        self._module_functions = {}
        self._handling = []

    # -- function values -----------------------------------------------------------------------
    def function(self, fi):
        """The function object of a module-level package function (one per interpreter, like the module's own)."""
        if fi.qn not in self._module_functions:
            self._module_functions[fi.qn] = self._define(fi.node, fi.module, [])
        return self._module_functions[fi.qn]

    def _define(self, node, module, scopes):
        if not isinstance(node, ast.FunctionDef):
            raise NormError("%s is not a plain function" % getattr(node, "name", "?"))
        a = node.args
        if a.vararg or a.kwarg:
            raise NormError("function %s takes star arguments" % node.name)
        for x in walk_no_nested(node):
            if isinstance(x, (ast.Yield, ast.YieldFrom, ast.Await)):
                raise NormError("function %s is a generator / coroutine" % node.name)
        env = self._flat(scopes)
        defaults = [self.ev.ev(d, module, env) for d in a.defaults]
        kwdefaults = {x.arg: self.ev.ev(d, module, env) for x, d in zip(a.kwonlyargs, a.kw_defaults) if d is not None}
        fn = InterpFunction(self, node, module, list(scopes), defaults, kwdefaults, node.name)
        for d in node.decorator_list:
            dn = qual_name(self.prog, module, d.func if isinstance(d, ast.Call) else d)
            if dn in ("functools.lru_cache", "functools.cache"):
                fn.memo = {}
            else:
                raise NormError("decorator %s" % txt(d, 40))
        return fn

    @staticmethod
    def _flat(scopes):
        env = {}
        for s in scopes:
            env.update(s)
        return env

    def invoke(self, fn, args, kwargs):
        a = fn.node.args
        pos = [x.arg for x in a.posonlyargs + a.args]
        kwonly = [x.arg for x in a.kwonlyargs]
        if len(args) > len(pos):
            raise EvalRaised(TypeError("%s() takes %d positional arguments" % (fn.name, len(pos))))
        loc = dict(zip(pos, args))
        for k, v in kwargs.items():
            if k in loc or k not in pos + kwonly or k in [x.arg for x in a.posonlyargs]:
                raise EvalRaised(TypeError("%s() got an unexpected keyword argument %r" % (fn.name, k)))
            loc[k] = v
        first_default = len(pos) - len(fn.defaults)
        for i, n in enumerate(pos):
            if n not in loc:
                if i < first_default:
                    raise EvalRaised(TypeError("%s() missing argument %r" % (fn.name, n)))
                loc[n] = fn.defaults[i - first_default]
        for n in kwonly:
            if n not in loc:
                if n not in fn.kwdefaults:
                    raise EvalRaised(TypeError("%s() missing keyword argument %r" % (fn.name, n)))
                loc[n] = fn.kwdefaults[n]
        self.depth += 1
        if self.depth > self.max_depth:
            self.depth -= 1
            raise NormError("call depth")
        fr = {"scopes": fn.scopes + [loc], "loc": loc, "module": fn.module, "nonlocal": set(), "global": set()}
        try:
            self._block(fn.node.body, fr)
        except _Return as r:
            return r.value
        finally:
            self.depth -= 1
        return None

    # -- expressions --------------------------------------------------------------------------------
    def _e(self, expr, fr):
        env = self._flat(fr["scopes"])
        walrus = [n.target.id for n in ast.walk(expr) if isinstance(n, ast.NamedExpr) and isinstance(n.target, ast.Name)]
        try:
            return self.ev.ev(expr, fr["module"], env)
        finally:
            for n in walrus:
                if n in env:
                    self._bind_name(n, env[n], fr)

    def _bind_name(self, name, v, fr):
        if name in fr["global"]:
            raise NormError("assignment to the module global %s" % name)
        if name in fr["nonlocal"]:
            for s in reversed(fr["scopes"][:-1]):
                if name in s:
                    s[name] = v
                    return
            raise NormError("nonlocal %s not found" % name)
        fr["loc"][name] = v

    def _assign(self, t, v, fr):
        if isinstance(t, ast.Name):
            self._bind_name(t.id, v, fr)
        elif isinstance(t, (ast.Tuple, ast.List)):
            if any(isinstance(x, ast.Starred) for x in t.elts):
                raise NormError("starred assignment target")
            try:
                vs = list(v)
            except TypeError as ex:
                raise EvalRaised(ex)
            if len(vs) != len(t.elts):
                raise EvalRaised(ValueError("unpack"))
            for x, y in zip(t.elts, vs):
                self._assign(x, y, fr)
        elif isinstance(t, ast.Subscript):
            obj = self._e(t.value, fr)
            if type(obj) not in (dict, list):
                raise NormError("item assignment on %s" % type(obj).__name__)
            if isinstance(t.slice, ast.Slice):
                raise NormError("slice assignment")
            k = self._e(t.slice, fr)
            try:
                obj[k] = v
            except Exception as ex:
                raise EvalRaised(ex)
        else:
            raise NormError("assignment target %s" % type(t).__name__)

    # -- exceptions ------------------------------------------------------------------------------------
    def _exc_class(self, e, fr):
        """('builtin', class) / ('pkg', qualified name) for an expression naming an exception class"""
        c = chain(e)
        if c in _EXC_BUILTINS and not (isinstance(e, ast.Name) and e.id in self._flat(fr["scopes"])):
            return ("builtin", _EXC_BUILTINS[c])
        q = qual_name(self.prog, fr["module"], e) if c else None
        if q and q in self.prog.classes:
            return ("pkg", q)
        raise NormError("exception class %s" % txt(e, 40))

    def _matches(self, t, exc, fr):
        if t is None:
            return True
        if isinstance(t, ast.Tuple):
            return any(self._matches(x, exc, fr) for x in t.elts)
        kind, cls = self._exc_class(t, fr)
        if isinstance(exc, PkgException):
            return self.prog.is_subclass(exc.qn, cls if kind == "pkg" else cls.__name__)
        return kind == "builtin" and isinstance(exc, cls)

    # -- statements ---------------------------------------------------------------------------------------
    def _block(self, stmts, fr):
        for st in stmts:
            self._stmt(st, fr)

    def _stmt(self, n, fr):
        self.steps += 1
        if self.steps > self.max_steps:
            raise NormError("interpretation too long")
        if isinstance(n, ast.Expr):
            if not isinstance(n.value, ast.Constant):
                self._e(n.value, fr)
        elif isinstance(n, ast.Assign):
            v = self._e(n.value, fr)
            for t in n.targets:
                self._assign(t, v, fr)
        elif isinstance(n, ast.AnnAssign):
            if n.value is not None:
                self._assign(n.target, self._e(n.value, fr), fr)
        elif isinstance(n, ast.AugAssign):
            load = copy.copy(n.target)
            load.ctx = ast.Load()
            v = self._e(ast.BinOp(left=load, op=n.op, right=n.value), fr)
            self._assign(n.target, v, fr)
        elif isinstance(n, ast.Return):
            raise _Return(self._e(n.value, fr) if n.value is not None else None)
        elif isinstance(n, ast.If):
            self._block(n.body if self._e(n.test, fr) else n.orelse, fr)
        elif isinstance(n, (ast.Pass, ast.Assert)):
            pass
        elif isinstance(n, ast.Nonlocal):
            fr["nonlocal"] |= set(n.names)
        elif isinstance(n, ast.Global):
            fr["global"] |= set(n.names)
        elif isinstance(n, ast.FunctionDef):
            self._bind_name(n.name, self._define(n, fr["module"], fr["scopes"]), fr)
        elif isinstance(n, ast.Raise):
            if n.exc is None:
                if not self._handling:
                    raise EvalRaised(RuntimeError("No active exception to reraise"))
                raise EvalRaised(self._handling[-1])
            env = self._flat(fr["scopes"])
            if isinstance(n.exc, ast.Name) and n.exc.id in env and isinstance(env[n.exc.id], BaseException):
                raise EvalRaised(env[n.exc.id])
            target = n.exc.func if isinstance(n.exc, ast.Call) else n.exc
            kind, cls = self._exc_class(target, fr)
            args = []
            if isinstance(n.exc, ast.Call):
                try:
                    args = [self._e(a, fr) for a in n.exc.args]
                except NormError:
                    args = []
            raise EvalRaised(PkgException(cls, args) if kind == "pkg" else cls(*args))
        elif isinstance(n, ast.Try):
            try:
                try:
                    self._block(n.body, fr)
                except EvalRaised as er:
                    for h in n.handlers:
                        if self._matches(h.type, er.exc, fr):
                            if h.name:
                                self._bind_name(h.name, er.exc, fr)
                            self._handling.append(er.exc)
                            try:
                                self._block(h.body, fr)
                            finally:
                                self._handling.pop()
                            break
                    else:
                        raise
                else:
                    self._block(n.orelse, fr)
            finally:
                self._block(n.finalbody, fr)
        elif isinstance(n, ast.For):
            it = self._e(n.iter, fr)
            try:
                items = list(it)
            except TypeError as ex:
                raise EvalRaised(ex)
            broke = False
            for x in items:
                self._assign(n.target, x, fr)
                try:
                    self._block(n.body, fr)
                except _Break:
                    broke = True
                    break
                except _Continue:
                    continue
            if not broke:
                self._block(n.orelse, fr)
        elif isinstance(n, ast.While):
            broke = False
            while self._e(n.test, fr):
                self.steps += 1
                if self.steps > self.max_steps:
                    raise NormError("interpretation too long")
                try:
                    self._block(n.body, fr)
                except _Break:
                    broke = True
                    break
                except _Continue:
                    continue
            if not broke:
                self._block(n.orelse, fr)
        elif isinstance(n, ast.Break):
            raise _Break()
        elif isinstance(n, ast.Continue):
            raise _Continue()
        elif isinstance(n, ast.Delete):
            for t in n.targets:
                if isinstance(t, ast.Subscript) and not isinstance(t.slice, ast.Slice):
                    obj = self._e(t.value, fr)
                    if type(obj) not in (dict, list):
                        raise NormError("item deletion on %s" % type(obj).__name__)
                    k = self._e(t.slice, fr)
                    try:
                        del obj[k]
                    except Exception as ex:
                        raise EvalRaised(ex)
                elif isinstance(t, ast.Name) and t.id in fr["loc"]:
                    del fr["loc"][t.id]
                else:
                    raise NormError("deletion target")
        else:
            raise NormError("statement %s" % type(n).__name__)
