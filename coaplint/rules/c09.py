"""C09 Every request gets exactly one final response reflecting the handler outcome."""

import ast

from ..rulekit import *
from ..cfg import CFG
from ..norm import Normalizer, Poly
from ..exc import EscapeAnalysis

R = Rules(
    "C09",
    explanation=(
        "Structural clauses of the server-side response path decided on the syntax trees of pipe.py, "
        "protocol.py, resource.py, interfaces.py, error.py, numbers/codes.py and tokenmanager.py: in "
        "error_to_message every path taken for an exception event adds exactly one final response and "
        "deregisters, the renderable arm is wrapped in a handler for Exception whose path sends a bare "
        "5.00, a None rendering falls back as well, and every Message built there is Message(code=5.00) "
        "with no other argument; run_driving_pipe turns every Exception of the render coroutine into a "
        "terminal event; a context without site answers 4.04 once; Resource.render maps non-request codes "
        "and missing handlers to 4.05 classes, fills the default code table {GET, FETCH: 2.05, DELETE: 2.02, "
        "else 2.04} exactly when the handler left the code unset and copies no_response when unset; every "
        "call of Site._find_child_and_pathstripped_message handles KeyError by 4.04 or the documented "
        "fallback and the escape sets of that function and of _expand_upa are {KeyError} and {BadOption}; "
        "interfaces.Resource._render_to_pipe adds one final response per normal path; the token manager's "
        "event handler stamps token and response address before sending and stays registered exactly "
        "while events are not final; Pipe discards events after its end; ConstructionRenderableError "
        "renders (self.code, self.message) and every subclass binds the code its name denotes in the RFC "
        "registries embedded here.  Paper step: with these premises each request's pipe sees exactly one "
        "event with is_last=True on every outcome of the handler.  Run-time isolation between tasks and "
        "the No-Response / multicast suppression (C10) are not decided."
    ),
    rule_text="must-pass / dominance rules on per-function CFGs, reaching definitions, handler breadth via the class hierarchy, escape sets, finite-domain evaluation of the method dispatch, constant evaluation of code tables against RFC 7252/7959/8132/8516/8768",
)

# ---------------------------------------------------------------------------
# reference data (transcribed from the RFCs, not from aiocoap)

METHODS = {"GET": 1, "POST": 2, "PUT": 3, "DELETE": 4, "FETCH": 5, "PATCH": 6, "iPATCH": 7}
# RFC 7252 12.1.2, RFC 7959 (2.31, 4.08), RFC 8132 (4.09, 4.22), RFC 8516 (4.29), RFC 8768 (5.08)
RESPONSE_CODES = {
    "CREATED": (2, 1), "DELETED": (2, 2), "VALID": (2, 3), "CHANGED": (2, 4), "CONTENT": (2, 5), "CONTINUE": (2, 31),
    "BAD_REQUEST": (4, 0), "UNAUTHORIZED": (4, 1), "BAD_OPTION": (4, 2), "FORBIDDEN": (4, 3), "NOT_FOUND": (4, 4),
    "METHOD_NOT_ALLOWED": (4, 5), "NOT_ACCEPTABLE": (4, 6), "REQUEST_ENTITY_INCOMPLETE": (4, 8), "CONFLICT": (4, 9),
    "PRECONDITION_FAILED": (4, 12), "REQUEST_ENTITY_TOO_LARGE": (4, 13), "UNSUPPORTED_CONTENT_FORMAT": (4, 15),
    "UNPROCESSABLE_ENTITY": (4, 22), "TOO_MANY_REQUESTS": (4, 29),
    "INTERNAL_SERVER_ERROR": (5, 0), "NOT_IMPLEMENTED": (5, 1), "BAD_GATEWAY": (5, 2), "SERVICE_UNAVAILABLE": (5, 3),
    "GATEWAY_TIMEOUT": (5, 4), "PROXYING_NOT_SUPPORTED": (5, 5), "HOP_LIMIT_REACHED": (5, 8),
}
# A.10 default success codes per method
DEFAULT_CODE = {"GET": (2, 5), "FETCH": (2, 5), "DELETE": (2, 2), "POST": (2, 4), "PUT": (2, 4), "PATCH": (2, 4), "iPATCH": (2, 4)}
# classes of error.py whose name is not a registry name: the code they must inherit / bind
DERIVED_ERRORS = {"NoResource": (4, 4), "UnallowedMethod": (4, 5), "UnsupportedMethod": (4, 5), "NoRequestInterface": (5, 5)}


def _num(cd):
    return cd[0] * 32 + cd[1]


def _camel(name):
    return "".join(w.title() for w in name.split("_"))


# ---------------------------------------------------------------------------
# local helpers (kept in this module on purpose: rule modules are independent)


def _rn(cfg, astnode):
    return [i for i in cfg.locate(astnode) if cfg.is_reachable(i)]


def _n1(ctx, cfg, astnode, what):
    ids = _rn(cfg, astnode)
    ctx.need(bool(ids), "%s is not reachable in the CFG" % what)
    return ids[0]


def _kw(call, name, pos=None):
    for k in call.keywords:
        if k.arg == name:
            return k.value
    if pos is not None and len(call.args) > pos and not any(isinstance(a, ast.Starred) for a in call.args):
        return call.args[pos]
    return None


def _path_in_target(t, name):
    if isinstance(t, ast.Name):
        return () if t.id == name else None
    if isinstance(t, (ast.Tuple, ast.List)):
        for i, e in enumerate(t.elts):
            if isinstance(e, ast.Starred):
                continue
            p = _path_in_target(e, name)
            if p is not None:
                return (i,) + p
    return None


def _bound(w, name):
    if isinstance(w, ast.Assign):
        for t in w.targets:
            p = _path_in_target(t, name)
            if p is not None:
                return w.value, p
    if isinstance(w, ast.AnnAssign) and isinstance(w.target, ast.Name) and w.target.id == name:
        return w.value, ()
    return None, None


def _write_nodes(cfg, fnode, name):
    out = []
    for w in writes_to_name(fnode, name):
        for nid in cfg.locate(w):
            if cfg.is_reachable(nid):
                out.append((nid, w))
    return out


def _reaching(cfg, fnode, name, at):
    ws = _write_nodes(cfg, fnode, name)
    ids = {nid for nid, _ in ws}
    out = []
    for nid, w in ws:
        if at in cfg.reach({nid}, avoid=ids - {nid, at}):
            out.append((nid, w))
    entry_live = at in cfg.reach({cfg.entry}, avoid=ids - {at}, include_src=True)
    return out, entry_live


def _value_at(cfg, fnode, e, at, depth=4):
    """Follow a local name to (value expression, index path) of its unique
    reaching binding: the name denotes value[path...]; literal tuples on the
    right-hand side of a parallel assignment are indexed away."""
    while depth and isinstance(e, ast.Name):
        ws, entry_live = _reaching(cfg, fnode, e.id, at)
        if len(ws) != 1 or entry_live:
            break
        v, p = _bound(ws[0][1], e.id)
        if v is None:
            break
        while p and isinstance(v, (ast.Tuple, ast.List)) and len(v.elts) > p[0] and not any(isinstance(x, ast.Starred) for x in v.elts):
            v, p = v.elts[p[0]], p[1:]
        at = ws[0][0]
        depth -= 1
        if p:
            v2, p2 = _value_at(cfg, fnode, v, at, depth)
            return v2, p2 + p
        e = v
    return e, ()

def _assigned_to(n, pred):
    """values a statement assigns to the targets satisfying pred (parallel
    assignment aware); None for a value the rule cannot pair up"""
    out = []
    if isinstance(n, ast.Assign):
        for t in n.targets:
            if pred(t):
                out.append(n.value)
            elif isinstance(t, (ast.Tuple, ast.List)):
                for i, el in enumerate(t.elts):
                    if pred(el):
                        if isinstance(n.value, (ast.Tuple, ast.List)) and len(n.value.elts) == len(t.elts):
                            out.append(n.value.elts[i])
                        else:
                            out.append(None)
    elif isinstance(n, ast.AnnAssign) and pred(n.target):
        out.append(n.value)
    elif isinstance(n, ast.AugAssign) and pred(n.target):
        out.append(None)
    return out


def _sources(cfg, fnode, e, at):
    """value expressions (followed through single-binding locals) that `e` can denote at node `at`;
    None stands for a binding the rule cannot see (parameter, unbound)"""
    if not isinstance(e, ast.Name):
        return [e]
    ws, live = _reaching(cfg, fnode, e.id, at)
    out = [None] if live else []
    for nid, w in ws:
        v, p = _bound(w, e.id)
        if v is None or p:
            out.append(None)
        else:
            out.append(_value_at(cfg, fnode, v, nid)[0])
    return out


def _closure_ref(fnode, used, outer):
    a = fnode.args
    allargs = a.posonlyargs + a.args
    defaults = [None] * (len(allargs) - len(a.defaults)) + list(a.defaults)
    for arg, d in list(zip(allargs, defaults)) + list(zip(a.kwonlyargs, a.kw_defaults)):
        if arg.arg == used:
            return isinstance(d, ast.Name) and d.id == outer
    if isinstance(fnode, ast.Lambda):
        return used == outer
    return used == outer and not writes_to_name(fnode, used)


def _cls_of(ctx, fi, e):
    c = chain(e)
    return ctx.prog.resolve_in_module(fi.module, c) if c else None


def _witness(cfg, starts, through, to, skip=()):
    r = cfg.reach(set(starts), avoid=set(through), skip_labels=skip, include_src=True)
    for n in sorted(r):
        if any(d == to and lab not in skip for d, lab in cfg.succ[n]) and cfg.nodes[n].ast is not None:
            return cfg.nodes[n].ast
    return None


def _none_nodes(cfg, subject_ok, isnone):
    """pseudo-nodes on which `<subject> is None` has truth value `isnone`"""
    out = set()
    for n in cfg.nodes:
        e = n.ast
        if n.kind in ("T", "F") and cfg.is_reachable(n.id) and isinstance(e, ast.Compare) and len(e.ops) == 1 and isinstance(e.ops[0], (ast.Is, ast.IsNot, ast.Eq, ast.NotEq)) \
                and isinstance(e.comparators[0], ast.Constant) and e.comparators[0].value is None and subject_ok(e.left, n.id):
            val = (n.kind == "T") == isinstance(e.ops[0], (ast.Is, ast.Eq))
            if val == isnone:
                out.add(n.id)
    return out


def _code_value(prog, module, e):
    """(member name, int) of an expression denoting a member of numbers.codes.Code"""
    c = chain(e)
    if c is None:
        return None
    q = prog.resolve_in_module(module, c)
    pre = "aiocoap.numbers.codes."
    if not q.startswith(pre):
        return None
    rest = q[len(pre):]
    if rest.startswith("Code."):
        member = rest[5:]
    else:
        try:
            v = prog.module_const("numbers.codes", rest)
        except AnchorError:
            return None
        cc = chain(v) or ""
        if not cc.startswith("Code."):
            return None
        member = cc[5:]
    ci = prog.cls("numbers.codes.Code")
    if member not in ci.attrs:
        return None
    try:
        val = norm.consteval(ci.attrs[member])
    except norm.NormError:
        return None
    return (member, val) if isinstance(val, int) else None


def _class_code(prog, clsqn):
    """int value of the `code` class attribute a class sees through its MRO"""
    expr, owner = prog.class_attr(clsqn, "code")
    if expr is None:
        return None
    cv = _code_value(prog, owner.module, expr)
    return cv[1] if cv else None


class _Add:
    def __init__(self, call, nid):
        self.call = call
        self.nid = nid
        self.resp = _kw(call, "response", 0)
        self.last = _kw(call, "is_last", 1)
        if self.last is None:
            self.kind = "nonfinal"
        elif isinstance(self.last, ast.Constant):
            self.kind = "final" if self.last.value else "nonfinal"
        else:
            self.kind = "var"


def _adds(cfg, root, recv):
    out = []
    for c, _ in find("%s.add_response($*a, $**k)" % recv, root):
        for nid in _rn(cfg, c):
            out.append(_Add(c, nid))
    return out


def _is_bare_500(prog, fi, e):
    if not (isinstance(e, ast.Call) and _cls_of_mod(prog, fi.module, e.func) == "aiocoap.message.Message"):
        return False
    if e.args or len(e.keywords) != 1 or e.keywords[0].arg != "code":
        return False
    cv = _code_value(prog, fi.module, e.keywords[0].value)
    return cv is not None and cv[1] == _num(RESPONSE_CODES["INTERNAL_SERVER_ERROR"])


def _cls_of_mod(prog, module, e):
    c = chain(e)
    return prog.resolve_in_module(module, c) if c else None


def _handler_catches(prog, fi, h, clsname):
    """does except-handler h catch builtin/packaged class `clsname`?"""
    if h.type is None:
        return True
    types = h.type.elts if isinstance(h.type, ast.Tuple) else [h.type]
    for t in types:
        q = _cls_of_mod(prog, fi.module, t)
        if q is not None and (q == clsname or prog.is_subclass(clsname, q)):
            return True
    return False


def _enclosing_try(cfg, node, fnode):
    """innermost Try whose *body* contains node"""
    child = node
    p = cfg.parent.get(id(node))
    while p is not None and p is not fnode:
        if isinstance(p, ast.Try) and any(child is s for s in p.body):
            return p
        child = p
        p = cfg.parent.get(id(p))
    return None


# ---------------------------------------------------------------------------
# C09.a / C09.b  error_to_message.on_event


class _E2M:
    pass


def _e2m(ctx):
    prog = ctx.prog
    Q = _E2M()
    outer = Q.outer = prog.func("pipe.error_to_message")
    fi = Q.fi = prog.func("pipe.error_to_message.<locals>.on_event")
    op = params(outer)
    ep = params(fi, skip_self=False)
    ctx.need(len(op) == 2 and len(ep) == 1, "error_to_message / on_event signature changed")
    Q.old, Q.ev = op[0], ep[0]
    ctx.need(not writes_to_name(outer.node, Q.old) and _closure_ref(fi.node, Q.old, Q.old) and not writes_to_name(fi.node, Q.ev), "old pipe or event rebound")
    cfg = Q.cfg = cfg_of(fi)
    subj = lambda e, at: chain(e) == Q.ev + ".message"
    Q.exc_arm = _none_nodes(cfg, subj, True)
    Q.msg_arm = _none_nodes(cfg, subj, False)
    ctx.need(Q.exc_arm and Q.msg_arm, "on_event does not branch on `event.message is None`")
    Q.adds = _adds(cfg, fi.node, Q.old)
    ctx.floor("add_response sites in on_event", len(Q.adds), 1)
    Q.exc_reach = cfg.reach(Q.exc_arm, avoid=Q.msg_arm, skip_labels=(), include_src=True)
    Q.msg_reach = cfg.reach(Q.msg_arm, avoid=Q.exc_arm, skip_labels=(), include_src=True)
    Q.adds_exc = [A for A in Q.adds if A.nid in Q.exc_reach]
    Q.adds_msg = [A for A in Q.adds if A.nid in Q.msg_reach and A.nid not in Q.exc_reach]
    # the exception object
    Q.is_exc = lambda e, at: chain(_value_at(cfg, fi.node, e, at)[0]) == Q.ev + ".exception"
    # registration of the handler on the inner pipe
    return Q


@R.clause("C09.a", "error_to_message.on_event: responses are forwarded with their is_last; every path taken for an exception adds exactly one final response and deregisters; to_message() is wrapped by a handler for Exception (and a None check) that leads to the bare 5.00")
def a(ctx):
    prog = ctx.prog
    Q = _e2m(ctx)
    fi, cfg = Q.fi, Q.cfg
    addn = {A.nid for A in Q.adds}
    # message arm
    ctx.floor("forwarding sites on the message arm", len(Q.adds_msg), 1)
    for A in Q.adds_msg:
        ctx.ob("a response event is forwarded unchanged", chain(A.resp) == Q.ev + ".message", fi, A.call)
        ctx.ob("a response event keeps its is_last flag", chain(A.last) == Q.ev + ".is_last", fi, A.call)
    ctx.ob("every response event is forwarded exactly once", all(cfg.must_pass(m, {A.nid for A in Q.adds_msg}) for m in Q.msg_arm)
           and not any(cfg.reach({A.nid}, skip_labels=("exc",)) & addn for A in Q.adds_msg), fi, Q.adds_msg[0].call)
    want = Normalizer().dnf(ast.parse("not %s.is_last" % Q.ev, mode="eval").body)
    for n in cfg.nodes:
        if n.kind == "return" and n.id in Q.msg_reach and n.id not in Q.exc_reach:
            try:
                got = Normalizer(env=norm.local_env(fi.node)).dnf(n.ast.value) if n.ast.value is not None else None
            except norm.NormError:
                got = None
            ctx.ob("the handler stays registered exactly while responses are not final", got == want, fi, n.ast)
    # exception arm
    ctx.floor("add_response sites on the exception arm", len(Q.adds_exc), 1)
    for x in Q.exc_arm:
        w = _witness(cfg, {x}, {A.nid for A in Q.adds_exc}, cfg.exit, skip=("exc",))
        ctx.ob("every path taken for an exception event adds a response", w is None, fi, w if w is not None else Q.adds_exc[0].call)
    for A in Q.adds_exc:
        ctx.ob("the response to an exception event is final", A.kind == "final", fi, A.call)
        ctx.ob("at most one response is added for an exception event", not (cfg.reach({A.nid}, skip_labels=("exc",)) & addn), fi, A.call)
    rets = [n for n in cfg.nodes if n.kind == "return" and n.id in Q.exc_reach]
    for n in rets:
        v = n.ast.value
        ctx.ob("after an exception event the handler deregisters (returns a false value)", v is None or (isinstance(v, ast.Constant) and not v.value), fi, n.ast)
    # renderable arm
    tms = [c for c, b in find("$x.to_message()", fi.node) if _rn(cfg, c) and Q.is_exc(b["x"], _rn(cfg, c)[0])]
    ctx.floor("to_message() calls on the event's exception", len(tms), 1)
    bare_writes = {}
    for n in walk_no_nested(fi.node):
        if isinstance(n, ast.Assign) and len(n.targets) == 1 and isinstance(n.targets[0], ast.Name) and _is_bare_500(prog, fi, n.value):
            for i in _rn(cfg, n):
                bare_writes.setdefault(n.targets[0].id, set()).add(i)
    for c in tms:
        cn = _n1(ctx, cfg, c, "to_message call")
        inst = False
        for e_, pol, g in cfg.guards(cn):
            m = match("isinstance($o, $c)", e_)
            if m is not None and pol and Q.is_exc(m["o"], g) and _cls_of(ctx, fi, m["c"]) == "aiocoap.error.RenderableError":
                inst = True
        ctx.ob("to_message() is called exactly for RenderableError instances", inst, fi, c)
        tr = _enclosing_try(cfg, c, fi.node)
        if not ctx.ob("the error renderer runs inside a try statement", tr is not None, fi, c):
            continue
        hs = [h for h in tr.handlers if _handler_catches(prog, fi, h, "Exception")]
        if not ctx.ob("a failing error renderer is caught by a handler for Exception", bool(hs), fi, tr.handlers[0] if tr.handlers else c,
                      construct="except %s" % (stmt_text(tr.handlers[0].type) if tr.handlers and tr.handlers[0].type is not None else "")):
            continue
        hn = {i for h in hs for i in _rn(cfg, h)}
        after = [A for A in Q.adds_exc if A.nid in cfg.reach(hn)]
        okf = bool(after)
        for A in after:
            if isinstance(A.resp, ast.Name):
                okf = okf and A.nid not in cfg.reach(hn, avoid=bare_writes.get(A.resp.id, set()))
            else:
                okf = okf and _is_bare_500(prog, fi, A.resp)
        ctx.ob("the handler's path sends the bare 5.00 and nothing else", okf and all(cfg.must_pass(h, {A.nid for A in after}) for h in hn), fi, hs[0], construct="except %s" % (stmt_text(hs[0].type) if hs[0].type is not None else ""))
        # a rendering that is None
        w = cfg.parent.get(id(c))
        if isinstance(w, ast.Assign) and len(w.targets) == 1 and isinstance(w.targets[0], ast.Name):
            wn = _n1(ctx, cfg, w, "rendering")
            same_var = lambda e, at: isinstance(e, ast.Name) and _value_at(cfg, fi.node, e, at)[0] is c
            isnone = _none_nodes(cfg, same_var, True)
            notnone = _none_nodes(cfg, same_var, False)
            users = [A for A in Q.adds_exc if isinstance(A.resp, ast.Name) and any(v_ is c for v_ in _sources(cfg, fi.node, A.resp, A.nid))]
            tested = bool(isnone) and all(A.nid not in cfg.reach({wn}, avoid=isnone | notnone, skip_labels=("exc",)) for A in users)
            fb = bool(isnone) and all(A.nid not in cfg.reach(isnone, avoid=bare_writes.get(A.resp.id, set())) for A in users) and cfg.exit not in cfg.reach(isnone, avoid={A.nid for A in Q.adds_exc})
            ctx.ob("a renderer that produces no message falls back to the bare 5.00 as well", bool(users) and tested and fb, fi, w)
        else:
            ctx.need(False, "to_message() result is not bound to a local")
    # the handler is what listens on the inner pipe, and the inner pipe is returned
    ocfg = cfg_of(Q.outer)
    regs = [(c, b) for c, b in find("$p.on_event($h)", Q.outer.node) if isinstance(b["h"], ast.Name) and b["h"].id == fi.name]
    rets = [n for n in walk_no_nested(Q.outer.node) if isinstance(n, ast.Return)]
    ok = len(rets) == 1 and isinstance(rets[0].value, ast.Name) and any(isinstance(b["p"], ast.Name) and b["p"].id == rets[0].value.id and ocfg.must_pass(ocfg.entry, set(_rn(ocfg, c))) for c, b in regs)
    ctx.ob("the pipe handed to the responder is the one this handler listens on", ok, Q.outer, regs[0][0] if regs else Q.outer.node, construct=None if regs else "error_to_message")


@R.clause("C09.b", "nothing derived from the exception reaches the 5.00: every Message built in on_event is Message(code=INTERNAL_SERVER_ERROR) and is not modified; the non-renderable arm sends only that")
def b(ctx):
    prog = ctx.prog
    Q = _e2m(ctx)
    fi, cfg = Q.fi, Q.cfg
    msgs = [c for c in calls_in(fi.node) if _cls_of(ctx, fi, c.func) == "aiocoap.message.Message"]
    ctx.floor("Message(...) constructions in on_event", len(msgs), 1)
    holders = set()
    for c in msgs:
        ctx.ob("a message built for a failed request is exactly Message(code=5.00): no payload, no option, nothing taken from the exception", _is_bare_500(prog, fi, c), fi, c)
        p = cfg.parent.get(id(c))
        if isinstance(p, ast.Assign):
            for t in p.targets:
                if isinstance(t, ast.Name):
                    holders.add(t.id)
    for n in walk_no_nested(fi.node):
        tg = []
        if isinstance(n, ast.Assign):
            tg = n.targets
        elif isinstance(n, (ast.AugAssign, ast.AnnAssign)):
            tg = [n.target]
        for t in tg:
            base = t
            while isinstance(base, (ast.Attribute, ast.Subscript)):
                base = base.value
            if t is not base and isinstance(base, ast.Name) and base.id in holders:
                ctx.ob("the fallback message is not modified after construction", False, fi, n)
        if isinstance(n, ast.Call) and isinstance(n.func, ast.Attribute) and isinstance(n.func.value, ast.Name) and n.func.value.id in holders and n.func.attr not in ("to_message",):
            ctx.ob("the fallback message is not modified after construction", False, fi, n)
    # what each add_response on the exception arm can carry
    for A in Q.adds_exc:
        srcs = _sources(cfg, fi.node, A.resp, A.nid)
        ok = bool(srcs)
        rendered = False
        for v in srcs:
            m = match("$x.to_message()", v) if v is not None else None
            if m is not None and Q.is_exc(m["x"], _rn(cfg, v)[0]):
                rendered = True
            elif not _is_bare_500(prog, fi, v):
                ok = False
        if rendered:
            inst = any(match("isinstance($o, $c)", e_) is not None and pol for e_, pol, g in cfg.guards(A.nid))
            ok = ok and inst
        ctx.ob("an exception event is answered by the error's own rendering (renderable arm only) or by the bare 5.00", ok, fi, A.call,
               detail="carries: %s" % [stmt_text(v, 60) if v is not None else "<unbound>" for v in srcs])
    # log calls may mention the exception; they are not part of the response
    ctx.note("log.* calls on the exception arm take the exception as argument; they do not flow into add_response arguments (checked through reaching definitions)")


# ---------------------------------------------------------------------------
# C09.c


@R.clause("C09.c", "run_driving_pipe.wrapped awaits the render coroutine inside a handler for Exception that reports it through pipe.add_exception; Context.render_to_pipe runs _render_to_pipe(pipe) this way; add_exception events are terminal")
def c(ctx):
    prog = ctx.prog
    outer = prog.func("pipe.run_driving_pipe")
    fi = prog.func("pipe.run_driving_pipe.<locals>.wrapped")
    op = params(outer)
    ctx.need(len(op) >= 2 and not writes_to_name(outer.node, op[0]) and not writes_to_name(outer.node, op[1]), "run_driving_pipe signature changed")
    pipe, coro = op[0], op[1]
    cfg = cfg_of(fi)
    aws = [n for n in walk_no_nested(fi.node) if isinstance(n, ast.Await) and isinstance(n.value, ast.Name) and n.value.id == coro and _closure_ref(fi.node, coro, coro)]
    ctx.floor("awaits of the render coroutine", len(aws), 1)
    for aw in aws:
        tr = _enclosing_try(cfg, aw, fi.node)
        if not ctx.ob("the render coroutine is awaited inside a try statement", tr is not None, fi, aw):
            continue
        hs = [h for h in tr.handlers if _handler_catches(prog, fi, h, "Exception")]
        if not ctx.ob("every Exception raised by the render coroutine is caught", bool(hs), fi, tr.handlers[0] if tr.handlers else aw,
                      construct="except %s" % (stmt_text(tr.handlers[0].type) if tr.handlers and tr.handlers[0].type is not None else "")):
            continue
        for h in hs:
            reps = set()
            for c_, b_ in find("%s.add_exception($e)" % pipe, h):
                if isinstance(b_["e"], ast.Name) and b_["e"].id == h.name:
                    reps |= set(_rn(cfg, c_))
            hn = _rn(cfg, h)
            ctx.ob("the caught exception is reported as the pipe's terminal event on every path of the handler", bool(reps) and _closure_ref(fi.node, pipe, pipe) and all(cfg.must_pass(i, reps) for i in hn), fi, h,
                   construct="except %s" % (stmt_text(h.type) if h.type is not None else ""))
    # the task runs wrapped()
    tasks = [c_ for c_ in calls_in(outer.node) if isinstance(c_.func, ast.Attribute) and c_.func.attr in ("create_task", "ensure_future") and c_.args
             and isinstance(c_.args[0], ast.Call) and isinstance(c_.args[0].func, ast.Name) and c_.args[0].func.id == fi.name]
    ocfg = cfg_of(outer)
    ctx.ob("run_driving_pipe always starts a task running the wrapper", bool(tasks) and ocfg.must_pass(ocfg.entry, {i for t in tasks for i in _rn(ocfg, t)}), outer, tasks[0] if tasks else outer.node, construct=None if tasks else "run_driving_pipe")
    # Context.render_to_pipe
    cf = prog.func("protocol.Context.render_to_pipe")
    cp = params(cf)
    ctx.need(len(cp) == 1 and not writes_to_name(cf.node, cp[0]), "Context.render_to_pipe signature changed")
    ccfg = cfg_of(cf)
    runs = [c_ for c_, _ in find("run_driving_pipe($*a, $**k)", cf.node) if _cls_of(ctx, cf, c_.func) == "aiocoap.pipe.run_driving_pipe"]
    ctx.floor("run_driving_pipe calls in Context.render_to_pipe", len(runs), 1)
    for c_ in runs:
        cn = _n1(ctx, ccfg, c_, "run_driving_pipe call")
        a0, a1 = _kw(c_, "pipe", 0), _kw(c_, "coroutine", 1)
        v0, p0 = _value_at(ccfg, cf.node, a0, cn) if a0 is not None else (None, ())
        m0 = match("error_to_message($p, $*r)", v0) if v0 is not None and not p0 else None
        ctx.ob("exceptions of the render task are routed into error_to_message around the request's pipe", m0 is not None and chain(m0["p"]) == cp[0] and _cls_of(ctx, cf, v0.func) == "aiocoap.pipe.error_to_message", cf, c_)
        v1, p1 = _value_at(ccfg, cf.node, a1, cn) if a1 is not None else (None, ())
        m1 = match("self._render_to_pipe($p)", v1) if v1 is not None and not p1 else None
        ctx.ob("the render task renders into the request's pipe", m1 is not None and chain(m1["p"]) == cp[0], cf, c_)
    ctx.ob("every request handed to the context is rendered", ccfg.must_pass(ccfg.entry, {i for c_ in runs for i in _rn(ccfg, c_)}), cf, runs[0])
    # add_exception produces a terminal event
    af = prog.func("pipe.Pipe.add_exception")
    ap = params(af)
    evs = [c_ for c_, _ in find("self._add_event($e)", af.node)]
    ok = False
    for c_ in evs:
        ev = c_.args[0]
        if isinstance(ev, ast.Call) and chain(ev.func) in ("self.Event", "Pipe.Event"):
            ex, last = _kw(ev, "exception", 1), _kw(ev, "is_last", 2)
            ok = isinstance(ex, ast.Name) and ex.id == ap[0] and isinstance(last, ast.Constant) and last.value is True
    ctx.ob("add_exception emits an event that carries the exception and is final", ok, af, evs[0] if evs else af.node, construct=None if evs else "Pipe.add_exception")
    rf = prog.func("pipe.Pipe.add_response")
    rp = params(rf)
    evs = [c_ for c_, _ in find("self._add_event($e)", rf.node)]
    ok = False
    for c_ in evs:
        ev = c_.args[0]
        if isinstance(ev, ast.Call) and chain(ev.func) in ("self.Event", "Pipe.Event"):
            ms, last = _kw(ev, "message", 0), _kw(ev, "is_last", 2)
            ok = isinstance(ms, ast.Name) and ms.id == rp[0] and isinstance(last, ast.Name) and last.id == rp[1] and not writes_to_name(rf.node, rp[1])
    ctx.ob("add_response emits an event that carries the response and the caller's is_last", ok, rf, evs[0] if evs else rf.node, construct=None if evs else "Pipe.add_response")


# ---------------------------------------------------------------------------
# C09.d


@R.clause("C09.d", "Context._render_to_pipe without a site: one final 4.04, then return; with a site: delegation to its render_to_pipe")
def d(ctx):
    prog = ctx.prog
    fi = prog.func("protocol.Context._render_to_pipe")
    p = params(fi)
    ctx.need(len(p) == 1 and not writes_to_name(fi.node, p[0]), "Context._render_to_pipe signature changed")
    cfg = cfg_of(fi)
    subj = lambda e, at: chain(e) == "self.serversite"
    nosite = _none_nodes(cfg, subj, True)
    site = _none_nodes(cfg, subj, False)
    ctx.need(nosite and site, "_render_to_pipe does not branch on `self.serversite is None`")
    adds = [A for A in _adds(cfg, fi.node, p[0])]
    arm = cfg.reach(nosite, avoid=site, include_src=True)
    mine = [A for A in adds if A.nid in arm]
    if not ctx.ob("a context without a site answers the request", bool(mine) and all(cfg.must_pass(x, {A.nid for A in mine}) for x in nosite), fi, mine[0].call if mine else fi.node, construct=None if mine else "Context._render_to_pipe"):
        return
    for A in mine:
        ctx.ob("the no-site response is final", A.kind == "final", fi, A.call)
        v, vp = _value_at(cfg, fi.node, A.resp, A.nid)
        code = _kw(v, "code") if isinstance(v, ast.Call) and _cls_of(ctx, fi, v.func) == "aiocoap.message.Message" else None
        cv = _code_value(prog, fi.module, code) if code is not None else None
        ctx.ob("the no-site response is 4.04 Not Found", cv is not None and cv[1] == _num(RESPONSE_CODES["NOT_FOUND"]), fi, A.call, detail="code %s" % (cv,))
        ctx.ob("exactly one response is added without a site", not (cfg.reach({A.nid}, skip_labels=("exc",)) & {B.nid for B in adds}), fi, A.call)
    dels = [c for c, b in find("self.serversite.render_to_pipe($x)", fi.node)]
    ctx.floor("delegations to the site", len(dels), 1)
    for c in dels:
        cn = _n1(ctx, cfg, c, "site delegation")
        ctx.ob("the site is only consulted when there is one", any(cn in cfg.reach({s}, include_src=True) for s in site) and cn not in arm, fi, c)
        ctx.ob("the site renders into the request's pipe", isinstance(c.args[0], ast.Name) and c.args[0].id == p[0], fi, c)
        par = cfg.parent.get(id(c))
        ctx.ob("the site's rendering is awaited inside the render task", isinstance(par, ast.Await), fi, c)
    ctx.ob("with a site every normal path delegates to it", all(cfg.must_pass(s, {i for c in dels for i in _rn(cfg, c)}) for s in site), fi, dels[0])


# ---------------------------------------------------------------------------
# C09.e


def _raise_class(ctx, fi, r):
    e = r.exc
    if isinstance(e, ast.Call):
        e = e.func
    return _cls_of(ctx, fi, e) if e is not None else None


@R.clause("C09.e", "Resource.render: non-request code -> UnsupportedMethod, missing render_<method> -> UnallowedMethod (both 4.05); default code table applied iff response.code is None; no_response copied iff unset")
def e(ctx):
    prog = ctx.prog
    fi = prog.func("resource.Resource.render")
    p = params(fi)
    ctx.need(len(p) == 1 and not writes_to_name(fi.node, p[0]), "Resource.render signature changed")
    req = p[0]
    cfg = cfg_of(fi)
    c405 = _num(RESPONSE_CODES["METHOD_NOT_ALLOWED"])
    raises = [n for n in walk_no_nested(fi.node) if isinstance(n, ast.Raise)]
    isreq = "%s.code.is_request()" % req
    # (1) not a request code
    r1 = [r for r in raises if _rn(cfg, r) and guarded_by(cfg, _rn(cfg, r)[0], isreq, False)]
    if ctx.ob("a message whose code is not a request code is rejected", bool(r1), fi, r1[0] if r1 else fi.node, construct=None if r1 else "Resource.render"):
        for r in r1:
            q = _raise_class(ctx, fi, r)
            ctx.ob("the rejection of a non-request code is error.UnsupportedMethod", q == "aiocoap.error.UnsupportedMethod", fi, r, detail="raises %s" % q)
            ctx.ob("the rejection of a non-request code renders as 4.05", q is not None and q in prog.classes and _class_code(prog, q) == c405 and prog.is_subclass(q, "aiocoap.error.RenderableError"), fi, r)
    # (2) handler lookup
    hcalls = []
    for aw in walk_no_nested(fi.node):
        if isinstance(aw, ast.Await) and isinstance(aw.value, ast.Call) and isinstance(aw.value.func, ast.Name) and len(aw.value.args) == 1 and isinstance(aw.value.args[0], ast.Name) and aw.value.args[0].id == req:
            cn = _rn(cfg, aw)
            if cn:
                v, vp = _value_at(cfg, fi.node, aw.value.func, cn[0])
                if match("getattr(self, $n, $d)", v) is not None:
                    hcalls.append((aw, cn[0], aw.value.func.id, v))
    ctx.floor("handler invocations in Resource.render", len(hcalls), 1)
    for aw, cn, hname, g in hcalls:
        m = match("getattr(self, $n, $d)", g)
        nm = m["n"]
        ok_name = False
        mm = match('"render_%s" % $x', nm)
        if mm is not None:
            ok_name = match("str(%s.code).lower()" % req, mm["x"]) is not None
        elif isinstance(nm, ast.JoinedStr):
            parts = nm.values
            ok_name = len(parts) == 2 and isinstance(parts[0], ast.Constant) and parts[0].value == "render_" and isinstance(parts[1], ast.FormattedValue) and match("str(%s.code).lower()" % req, parts[1].value) is not None
        else:
            mm = match('"render_" + $x', nm)
            ok_name = mm is not None and match("str(%s.code).lower()" % req, mm["x"]) is not None
        ctx.ob("the handler is looked up as render_<lower-case method name> of the request", ok_name and isinstance(m["d"], ast.Constant) and m["d"].value is None, fi, g)
        ctx.ob("the handler runs only for request codes", guarded_by(cfg, cn, isreq, True), fi, aw)
        truthy = [(e_, pol) for e_, pol, g_ in cfg.guards(cn) if isinstance(e_, ast.Name) and e_.id == hname and pol] + \
                 [1 for e_, pol, g_ in cfg.guards(cn) if isinstance(e_, ast.Compare) and isinstance(e_.left, ast.Name) and e_.left.id == hname and isinstance(e_.comparators[0], ast.Constant)
                  and e_.comparators[0].value is None and ((isinstance(e_.ops[0], ast.IsNot) and pol) or (isinstance(e_.ops[0], ast.Is) and not pol))]
        ctx.ob("the handler is only invoked when the resource has one", bool(truthy), fi, aw)
        r2 = []
        for r in raises:
            for i in _rn(cfg, r):
                for e_, pol, g_ in cfg.guards(i):
                    if (isinstance(e_, ast.Name) and e_.id == hname and not pol) or (isinstance(e_, ast.Compare) and isinstance(e_.left, ast.Name) and e_.left.id == hname and isinstance(e_.comparators[0], ast.Constant)
                                                                                     and e_.comparators[0].value is None and ((isinstance(e_.ops[0], ast.Is) and pol) or (isinstance(e_.ops[0], ast.IsNot) and not pol))):
                        r2.append(r)
        if ctx.ob("a method the resource does not implement is rejected", bool(r2), fi, r2[0] if r2 else g):
            for r in r2:
                q = _raise_class(ctx, fi, r)
                ctx.ob("the rejection of an unimplemented method is error.UnallowedMethod", q == "aiocoap.error.UnallowedMethod", fi, r, detail="raises %s" % q)
                ctx.ob("the rejection of an unimplemented method renders as 4.05", q is not None and q in prog.classes and _class_code(prog, q) == c405 and prog.is_subclass(q, "aiocoap.error.RenderableError"), fi, r)
    # (3) the returned response and its default code
    rets = [n for n in walk_no_nested(fi.node) if isinstance(n, ast.Return) and n.value is not None]
    ctx.need(len(rets) == 1 and isinstance(rets[0].value, ast.Name), "Resource.render does not return a single local")
    resp = rets[0].value.id
    rn_ = _n1(ctx, cfg, rets[0], "return")
    srcs = [_bound(w, resp)[0] for _, w in _reaching(cfg, fi.node, resp, rn_)[0]]
    ctx.ob("the value returned is what the handler returned (or the deprecated NoResponse stand-in)", any(isinstance(v, ast.Await) and any(v is h[0] for h in hcalls) for v in srcs)
           and all((isinstance(v, ast.Await) and any(v is h[0] for h in hcalls)) or (isinstance(v, ast.Call) and _cls_of(ctx, fi, v.func) == "aiocoap.message.Message") for v in srcs), fi, rets[0])
    code_none_t = _none_nodes(cfg, lambda e_, at: chain(e_) == resp + ".code", True)
    code_stores = [n for n in walk_no_nested(fi.node) if isinstance(n, ast.Assign) and any(chain(t) == resp + ".code" for t in n.targets)]
    ctx.floor("stores to response.code", len(code_stores), 1)
    leaves = []  # (write stmt, node id, value expr)
    for st in code_stores:
        sid = _n1(ctx, cfg, st, "code store")
        ctx.ob("a code chosen by the handler is never overwritten (default applied only if response.code is None)", any(t in cfg.dominators(sid) for t in code_none_t), fi, st)
        if isinstance(st.value, ast.Name) and writes_to_name(fi.node, st.value.id):
            ws, live = _reaching(cfg, fi.node, st.value.id, sid)
            ctx.ob("the default code is bound on every path to its use", not live, fi, st)
            for x, w in ws:
                leaves.append((w, x, _bound(w, st.value.id)[0]))
        else:
            leaves.append((st, sid, st.value))
    stn = {i for st in code_stores for i in _rn(cfg, st)}
    ctx.ob("a response without a code always gets a default code", bool(code_none_t) and all(cfg.must_pass(t, stn, to=rn_) for t in code_none_t), fi, code_stores[0])
    table = {}
    for w, x, v in leaves:
        cv = _code_value(prog, fi.module, v) if v is not None else None
        ctx.need(cv is not None, "default code %s is not a Code constant" % (stmt_text(v) if v is not None else "?"))
        alive, others = mtype_values([(e_, pol) for e_, pol, g_ in cfg.guards(x)], "%s.code" % req, tuple(METHODS))
        for mth in alive:
            table.setdefault(mth, []).append((cv, w))
    for mth, want in DEFAULT_CODE.items():
        got = table.get(mth, [])
        vals = sorted({cv[1] for cv, w in got})
        ctx.ob("default response code for %s is %d.%02d" % (mth, want[0], want[1]), vals == [_num(want)], fi, got[0][1] if got else code_stores[0], detail="assigned: %s" % [cv[0] for cv, w in got],
               construct="default code for %s" % mth)
    # method constants used in the guards must denote the RFC 7252 / 8132 numbers
    ci = prog.cls("numbers.codes.Code")
    for mth, num in METHODS.items():
        try:
            val = norm.consteval(ci.attrs[mth]) if mth in ci.attrs else None
        except norm.NormError:
            val = None
        ctx.ob("Code.%s == %d" % (mth, num), val == num, None, None, construct="Code.%s" % mth, detail="value %r" % val)
    # (4) no_response
    nr = [n for n in walk_no_nested(fi.node) if isinstance(n, ast.Assign) and any(chain(t) == resp + ".opt.no_response" for t in n.targets)]
    if ctx.ob("the request's No-Response option is copied to the response", bool(nr), fi, nr[0] if nr else rets[0]):
        unset = _none_nodes(cfg, lambda e_, at: chain(e_) == resp + ".opt.no_response", True)
        for n in nr:
            nid = _n1(ctx, cfg, n, "no_response store")
            ctx.ob("the copied value is the request's no_response option", chain(n.value) == req + ".opt.no_response", fi, n)
            ctx.ob("a no_response value set by the handler is kept (copy only if unset)", any(t in cfg.dominators(nid) for t in unset), fi, n)
        ctx.ob("an unset no_response is always filled from the request", bool(unset) and all(cfg.must_pass(t, {i for n in nr for i in _rn(cfg, n)}, to=rn_) for t in unset), fi, nr[0])


# ---------------------------------------------------------------------------
# C09.f


FALLBACKS = {"needs_blockwise_assembly": "returns True (assemble, so that the later render answers 4.04 on the complete request)",
             "add_observation": "returns without accepting the observation"}


@R.clause("C09.f", "every call of Site._find_child_and_pathstripped_message handles KeyError by raising a 4.04 error (render paths) or by the documented fallback; the function raises nothing but KeyError; _expand_upa raises nothing but BadOption (4.02)")
def f(ctx):
    prog = ctx.prog
    target = prog.func("resource.Site._find_child_and_pathstripped_message")
    sites = []
    for fi in prog.funcs.values():
        for c in calls_in(fi.node):
            if isinstance(c.func, ast.Attribute) and c.func.attr == target.name:
                sites.append((fi, c))
    ctx.floor("call sites of _find_child_and_pathstripped_message", len(sites), 4)
    c404 = _num(RESPONSE_CODES["NOT_FOUND"])
    for fi, c in sites:
        cfg = cfg_of(fi)
        tr = _enclosing_try(cfg, c, fi.node)
        hs = [h for h in tr.handlers if _handler_catches(prog, fi, h, "KeyError")] if tr is not None else []
        if not ctx.ob("an unknown path (KeyError) is handled at the call site", bool(hs), fi, c):
            continue
        h = hs[0]  # the first matching handler takes the exception
        hn = _rn(cfg, h)
        inside = cfg.reach(set(hn), skip_labels=("exc",), include_src=True)
        rs = [n for n in cfg.nodes if n.kind == "raise" and n.id in inside and any(n.ast is x for x in ast.walk(h))]
        falls = cfg.exit in inside
        if fi.name in FALLBACKS and not rs:
            if fi.name == "needs_blockwise_assembly":
                rets = [n for n in cfg.nodes if n.kind == "return" and n.id in inside]
                ok = bool(rets) and all(isinstance(n.ast.value, ast.Constant) and n.ast.value.value is True for n in rets) and all(cfg.must_pass(i, {n.id for n in rets}) for i in hn)
            else:
                calls = [x for x in ast.walk(h) if isinstance(x, ast.Call) and not is_log_call(x)]
                rets = [n for n in cfg.nodes if n.kind == "return" and n.id in inside and n.ast.value is not None and not (isinstance(n.ast.value, ast.Constant) and n.ast.value.value is None)]
                ok = not calls and not rets and falls
            ctx.ob("documented fallback for an unknown path in %s: %s" % (fi.name, FALLBACKS[fi.name]), ok, fi, h, construct="except KeyError in %s" % fi.name)
            continue
        okc = bool(rs) and not falls
        for n in rs:
            q = _raise_class(ctx, fi, n.ast)
            okc = okc and q is not None and q in prog.classes and prog.is_subclass(q, "aiocoap.error.RenderableError") and _class_code(prog, q) == c404
        ctx.ob("an unknown path is answered with a 4.04 error on every path of the handler", okc, fi, rs[0].ast if rs else h, construct=None if rs else "except KeyError in %s" % fi.name)
        # the child is only used when the lookup succeeded
    EA = EscapeAnalysis(prog)
    esc = EA.escapes(target, selfcls="aiocoap.resource.Site")
    bad = sorted({e_.cls for e_ in esc} - {"KeyError"})
    ctx.ob("_find_child_and_pathstripped_message raises nothing but KeyError", not bad and not EA.unresolved, target, target.node, construct="escape set of _find_child_and_pathstripped_message", detail="escapes: %s; unresolved: %s" % (sorted({e_.cls for e_ in esc}), EA.unresolved))
    ux = prog.func("resource._expand_upa")
    EA2 = EscapeAnalysis(prog)
    esc = EA2.escapes(ux)
    classes = sorted({e_.cls for e_ in esc})
    ctx.ob("_expand_upa raises nothing but error.BadOption", classes in ([], ["aiocoap.error.BadOption"]) and not EA2.unresolved, ux, ux.node, construct="escape set of _expand_upa", detail="escapes: %s; unresolved: %s" % (classes, EA2.unresolved))
    # the escape analysis' implicit-raiser table only knows dict-typed self.<field>[k]; table lookups on a
    # module-level mapping are covered here: each must sit in a try whose handler takes KeyError
    ucfg = cfg_of(ux)
    locs = set(params(ux, skip_self=False)) | {n.id for n in walk_no_nested(ux.node) if isinstance(n, ast.Name) and isinstance(n.ctx, ast.Store)}
    for sub in walk_no_nested(ux.node):
        if isinstance(sub, ast.Subscript) and isinstance(sub.ctx, ast.Load) and chain(sub.value) and chain(sub.value).split(".")[0] not in locs:
            tr = _enclosing_try(ucfg, sub, ux.node)
            hs = [h_ for h_ in tr.handlers if _handler_catches(prog, ux, h_, "KeyError")] if tr is not None else []
            ctx.ob("a failed table lookup in _expand_upa (KeyError) is converted, not propagated", bool(hs), ux, sub)
    ctx.ob("error.BadOption renders as 4.02", _class_code(prog, "aiocoap.error.BadOption") == _num(RESPONSE_CODES["BAD_OPTION"]) and prog.is_subclass("aiocoap.error.BadOption", "aiocoap.error.RenderableError"), None, None, construct="class error.BadOption")
    ctx.extra["escape_implicit_sites"] = EA.implicit_sites + EA2.implicit_sites
    # Site.render_to_pipe expands the abbreviation before the lookup and delegates to the child
    sf = prog.func("resource.Site.render_to_pipe")
    sp = params(sf)
    scfg = cfg_of(sf)
    ex = [c for c, b in find("_expand_upa($x)", sf.node)]
    lk = [c for fi, c in sites if fi is sf]
    ctx.ob("Site.render_to_pipe expands Uri-Path-Abbrev before the path lookup", bool(ex) and bool(lk) and all(any(scfg.dominates(i, _rn(scfg, l)[0]) for e_ in ex for i in _rn(scfg, e_)) for l in lk), sf, ex[0] if ex else sf.node, construct=None if ex else "Site.render_to_pipe")
    dl = [n for n in walk_no_nested(sf.node) if isinstance(n, ast.Await) and isinstance(n.value, ast.Call) and isinstance(n.value.func, ast.Attribute) and n.value.func.attr == "render_to_pipe"]
    okd = bool(dl) and bool(lk)
    for aw in dl:
        an = _n1(ctx, scfg, aw, "child delegation")
        recv, rp = _value_at(scfg, sf.node, aw.value.func.value, an)
        okd = okd and rp == (0,) and any(recv is l for l in lk) and len(aw.value.args) == 1 and isinstance(aw.value.args[0], ast.Name) and aw.value.args[0].id == sp[0]
    ctx.ob("a known path is delegated to the child found by the lookup, on the same pipe", okd, sf, dl[0] if dl else sf.node, construct=None if dl else "Site.render_to_pipe")


# ---------------------------------------------------------------------------
# C09.g


@R.clause("C09.g", "interfaces.Resource._render_to_pipe adds exactly one response per normal path, final, and it is the result of rendering")
def g(ctx):
    prog = ctx.prog
    fi = prog.func("interfaces.Resource._render_to_pipe")
    p = params(fi)
    ctx.need(len(p) == 1 and not writes_to_name(fi.node, p[0]), "Resource._render_to_pipe signature changed")
    cfg = cfg_of(fi)
    adds = _adds(cfg, fi.node, p[0])
    ctx.floor("add_response sites in Resource._render_to_pipe", len(adds), 1)
    addn = {A.nid for A in adds}
    w = _witness(cfg, {cfg.entry}, addn, cfg.exit, skip=("exc",))
    ctx.ob("every normal path of the plain render adds a response", w is None, fi, w if w is not None else adds[0].call)
    for A in adds:
        ctx.ob("the response of a plain render is final", A.kind == "final", fi, A.call)
        ctx.ob("a plain render adds at most one response", not (cfg.reach({A.nid}, skip_labels=("exc",)) & addn), fi, A.call)
        srcs = []
        if isinstance(A.resp, ast.Name):
            ws, live = _reaching(cfg, fi.node, A.resp.id, A.nid)
            srcs = [_bound(w_, A.resp.id) for _, w_ in ws] + ([(None, None)] if live else [])
        else:
            srcs = [(A.resp, ())]
        ok = bool(srcs)
        for v, pth in srcs:
            good = False
            if v is not None and pth == () and isinstance(v, ast.Await) and isinstance(v.value, ast.Call):
                call = v.value
                if match("self.render($r)", call) is not None:
                    good = True
                else:
                    for a_ in list(call.args) + [k.value for k in call.keywords]:
                        if isinstance(a_, ast.Lambda) and any(match("self.render($r)", x) is not None for x in ast.walk(a_.body)):
                            good = True
            ok = ok and good
        ctx.ob("the response added is the outcome of self.render (directly or through the Block2 cache)", ok, fi, A.call)


# ---------------------------------------------------------------------------
# C09.h


def _truth_nodes(cfg, L, truth):
    while isinstance(L, ast.UnaryOp) and isinstance(L.op, ast.Not):
        L = L.operand
        truth = not truth
    out = set()
    for n in cfg.nodes:
        if n.kind in ("T", "F") and cfg.is_reachable(n.id) and n.ast is not None and same(n.ast, L):
            if (n.kind == "T") == truth:
                out.add(n.id)
    return out


@R.clause("C09.h", "TokenManager.process_request.on_event stamps the request's token and remote.as_response_address() on every outgoing message before send_message, sends every response event, and stays registered exactly while events are not final")
def h(ctx):
    prog = ctx.prog
    outer = prog.func("tokenmanager.TokenManager.process_request")
    fi = prog.func("tokenmanager.TokenManager.process_request.<locals>.on_event")
    op, ep = params(outer), params(fi, skip_self=False)
    ctx.need(len(op) == 1 and len(ep) == 1, "process_request / on_event signature changed")
    req, ev = op[0], ep[0]
    ctx.need(not writes_to_name(outer.node, req) and _closure_ref(fi.node, req, req) and not writes_to_name(fi.node, ev), "request or event rebound")
    cfg = cfg_of(fi)
    sends = [c for c, _ in find("self.token_interface.send_message($*a, $**k)", fi.node)]
    ctx.floor("send_message calls in on_event", len(sends), 1)
    is_msg = lambda e_, at: chain(_value_at(cfg, fi.node, e_, at)[0]) == ev + ".message"
    present = _none_nodes(cfg, is_msg, False)
    absent = _none_nodes(cfg, is_msg, True)
    ctx.need(present and absent, "on_event does not branch on `ev.message is None`")
    sn = set()
    for c in sends:
        cn = _n1(ctx, cfg, c, "send_message")
        sn.add(cn)
        m = _kw(c, "message", 0)
        ctx.need(isinstance(m, ast.Name), "message argument is not a local")
        ctx.ob("what is sent is the event's message", is_msg(m, cn) and any(t in cfg.dominators(cn) for t in present), fi, c)
        mw = [x for x, _ in _reaching(cfg, fi.node, m.id, cn)[0]]
        for attr, want, text in (("token", "%s.token" % req, "the request's token"), ("remote", "%s.remote.as_response_address()" % req, "the request's remote as response address")):
            sts = [n for n in walk_no_nested(fi.node) if isinstance(n, (ast.Assign, ast.AugAssign, ast.AnnAssign)) and any(chain(t) == "%s.%s" % (m.id, attr) for t in (n.targets if isinstance(n, ast.Assign) else [n.target]))]
            good = [n for n in sts if isinstance(n, ast.Assign) and match(want, n.value) is not None and any(cfg.dominates(i, cn) for i in _rn(cfg, n))
                    and all([x for x, _ in _reaching(cfg, fi.node, m.id, i)[0]] == mw for i in _rn(cfg, n))]
            bad = [n for n in sts if n not in good and any(cn in cfg.reach({i}) for i in _rn(cfg, n))]
            late = [n for n in bad if any(cfg.dominates(g_i, i) for g_ in good for g_i in _rn(cfg, g_) for i in _rn(cfg, n))]
            ctx.ob("every outgoing response carries %s" % text, bool(good) and not [n for n in bad if n in late or not good], fi, c if not bad else bad[0],
                   detail="%d dominating store(s) of .%s" % (len(good), attr))
    ctx.ob("every response event is handed to the token interface", all(cfg.must_pass(t, sn) for t in present), fi, sends[0])
    # registration discipline
    last = ast.parse("%s.is_last" % ev, mode="eval").body
    notlast, islast = _truth_nodes(cfg, last, False), _truth_nodes(cfg, last, True)
    rets = [n for n in cfg.nodes if n.kind == "return" and cfg.is_reachable(n.id)]
    want = Normalizer().dnf(ast.parse("not %s.is_last" % ev, mode="eval").body)
    exprs = []
    for n in rets:
        v = n.ast.value
        if v is None or isinstance(v, ast.Constant):
            continue
        try:
            exprs.append((n, Normalizer(env=norm.local_env(fi.node)).dnf(v) == want))
        except norm.NormError:
            exprs.append((n, False))
    truthy = {n.id for n in rets if isinstance(n.ast.value, ast.Constant) and n.ast.value.value}
    computed = {n.id for n, ok in exprs if ok}
    for n, ok in exprs:
        ctx.ob("a computed return value of the handler is `not is_last`", ok, fi, n.ast)
    for n in rets:
        if n.id in truthy:
            ctx.ob("the handler asks to stay registered only for non-final events", any(t in cfg.dominators(n.id) for t in notlast), fi, n.ast)
    keep = truthy | computed
    if notlast:
        ok_keep = bool(keep) and all(cfg.must_pass(t, keep) for t in notlast)
    else:
        ok_keep = bool(computed) and cfg.must_pass(cfg.entry, computed)
    anchor = [n.ast for n in rets if n.id in keep]
    ctx.ob("after a non-final event (a notification) the handler stays registered", ok_keep, fi, anchor[0] if anchor else sends[0])
    # and it is this handler that is registered on the pipe that gets rendered (see C08.e for the stopper)
    ocfg = cfg_of(outer)
    regs = [c for c, b in find("$p.on_event($h)", outer.node) if isinstance(b["h"], ast.Name) and b["h"].id == fi.name]
    ctx.ob("the handler is registered on the request's pipe on every path", bool(regs) and ocfg.must_pass(ocfg.entry, {i for c in regs for i in _rn(ocfg, c)}), outer, regs[0] if regs else outer.node, construct=None if regs else "process_request")


# ---------------------------------------------------------------------------
# C09.i


def _ended_nodes(cfg, ended):
    out = set()
    for n in cfg.nodes:
        e_ = n.ast
        if n.kind in ("T", "F") and cfg.is_reachable(n.id) and isinstance(e_, ast.Compare) and len(e_.ops) == 1 and chain(e_.left) == "self._event_callbacks" \
                and isinstance(e_.comparators[0], ast.Constant) and e_.comparators[0].value is False and isinstance(e_.ops[0], (ast.Is, ast.IsNot, ast.Eq, ast.NotEq)):
            val = (n.kind == "T") == isinstance(e_.ops[0], (ast.Is, ast.Eq))
            if val == ended:
                out.add(n.id)
    return out


@R.clause("C09.i", "Pipe._add_event delivers nothing once _event_callbacks is False; _end sets it before delivering the final event; handlers that decline are removed and the pipe ends when no interest remains")
def i(ctx):
    prog = ctx.prog
    fi = prog.func("pipe.Pipe._add_event")
    p = params(fi)
    ctx.need(len(p) == 1 and not writes_to_name(fi.node, p[0]), "_add_event signature changed")
    cfg = cfg_of(fi)
    deliveries = [c for c in calls_in(fi.node) if isinstance(c.func, ast.Name) and len(c.args) == 1 and isinstance(c.args[0], ast.Name) and c.args[0].id == p[0] and not c.keywords]
    ctx.floor("callback invocations in _add_event", len(deliveries), 1)
    alive, ended = _ended_nodes(cfg, False), _ended_nodes(cfg, True)
    dn = {j for c in deliveries for j in _rn(cfg, c)}
    for c in deliveries:
        cn = _n1(ctx, cfg, c, "delivery")
        ctx.ob("an event is delivered only while the pipe has not ended", any(t in cfg.dominators(cn) for t in alive), fi, c)
    top = {t for t in ended if not any(d in cfg.dominators(t) for d in dn)}
    ends = {j for c, _ in find("self._end()", fi.node) for j in _rn(cfg, c)}
    ctx.ob("an event added after the end reaches no callback and ends nothing", bool(top) and not (cfg.reach(top) & (dn | ends)), fi, deliveries[0], construct="if self._event_callbacks is False: ... return")
    # declining handlers are removed
    rem = [n for k, n in stores_to(fi.node, "self._event_callbacks", nested=False) if k == "remove"]
    okr = False
    for n in rem:
        nid = _n1(ctx, cfg, n, "removal")
        for e_, pol, g_ in cfg.guards(nid):
            if isinstance(e_, ast.Name) and not pol:
                v, vp = _value_at(cfg, fi.node, e_, g_)
                if any(v is c for c in deliveries):
                    okr = True
    ctx.ob("a handler that returns a false value is removed from the callbacks", okr, fi, rem[0] if rem else deliveries[0])
    # no interest left -> end
    oke = False
    endcalls = [c for c, _ in find("self._end()", fi.node)]
    def res(e_, at):
        return _value_at(cfg, fi.node, e_, at)[0] if isinstance(e_, ast.Name) else e_
    for c in endcalls:
        cn = _n1(ctx, cfg, c, "_end call")
        gs = [(res(e_, g_), pol) for e_, pol, g_ in cfg.guards(cn) if not isinstance(e_, ast.stmt)]
        if any(match("self._any_interest()", e_) is not None and not pol for e_, pol in gs) and any(t in cfg.dominators(cn) for t in alive):
            tests = {n.id for n in cfg.nodes if n.kind == "test" and cfg.is_reachable(n.id) and match("self._any_interest()", res(n.ast, n.id)) is not None}
            loopF = {n.id for n in cfg.nodes if n.kind == "F" and isinstance(n.ast, ast.For) and cfg.is_reachable(n.id)}
            oke = bool(loopF) and all(cfg.must_pass(f_, tests) for f_ in loopF)
    ctx.ob("after delivery the pipe ends as soon as no interested handler remains", oke, fi, endcalls[0] if endcalls else deliveries[0])
    # _end
    ef = prog.func("pipe.Pipe._end")
    ecfg = cfg_of(ef)
    is_field = lambda t: isinstance(t, ast.Attribute) and t.attr == "_event_callbacks"
    is_false = lambda v_: isinstance(v_, ast.Constant) and v_.value is False
    sets = [n for k, n in stores_to(ef.node, "self._event_callbacks", nested=False) if k == "assign" and any(is_false(v_) for v_ in _assigned_to(n, is_field))]
    cbs = [c for c in calls_in(ef.node) if isinstance(c.func, ast.Name) and len(c.args) == 1 and not is_log_call(c) and chain(c.func) not in ("list", "tuple")]
    ctx.floor("callback invocations in _end", len(cbs), 1)
    sn = {j for n in sets for j in _rn(ecfg, n)}
    ctx.ob("_end marks the pipe as ended before it delivers the final event (re-entrant adds are discarded)", bool(sn) and all(any(ecfg.dominates(s, j) for s in sn) for c in cbs for j in _rn(ecfg, c)), ef, sets[0] if sets else cbs[0])
    ctx.ob("_end marks the pipe as ended on every path", bool(sn) and ecfg.must_pass(ecfg.entry, sn), ef, sets[0] if sets else cbs[0])
    writers = field_writers(prog, "_event_callbacks", modules=["aiocoap.pipe"])
    falsers = [(f_, n) for f_, hits in writers.items() for k, n in hits if k == "assign" and any(is_false(v_) for v_ in _assigned_to(n, is_field))]
    ctx.ob("only _end marks a pipe as ended", all(f_ == ef.short for f_, n in falsers) and bool(falsers), ef, sets[0] if sets else ef.node)
    revive = [(f_, n) for f_, hits in writers.items() for k, n in hits if k == "assign" and f_ not in (ef.short, "pipe.Pipe.__init__", "pipe.Pipe._unregister_on_event")]
    for f_, n in revive:
        ctx.ob("an ended pipe is never revived", False, prog.func(f_), n)
    uf = prog.func("pipe.Pipe._unregister_on_event")
    ucfg = cfg_of(uf)
    ualive = _ended_nodes(ucfg, False)
    for k, n in stores_to(uf.node, "self._event_callbacks", nested=False):
        if k == "assign":
            ctx.ob("unregistering a handler does not revive an ended pipe", any(t in ucfg.dominators(j) for t in ualive for j in _rn(ucfg, n)), uf, n)


# ---------------------------------------------------------------------------
# C09.j


@R.clause("C09.j", "ConstructionRenderableError.to_message builds Message(code=self.code, payload=self.message.encode('utf8')); every error class binds the response code its name denotes; the Code enum agrees with the RFC registries")
def j(ctx):
    prog = ctx.prog
    base = "aiocoap.error.ConstructionRenderableError"
    tm = prog.func("error.ConstructionRenderableError.to_message")
    cfg = cfg_of(tm)
    rets = [n for n in walk_no_nested(tm.node) if isinstance(n, ast.Return)]
    ctx.need(len(rets) == 1 and rets[0].value is not None, "to_message has not exactly one return")
    v, vp = _value_at(cfg, tm.node, rets[0].value, _n1(ctx, cfg, rets[0], "return"))
    okm = not vp and isinstance(v, ast.Call) and _cls_of(ctx, tm, v.func) == "aiocoap.message.Message" and not v.args and sorted(k.arg or "**" for k in v.keywords) == ["code", "payload"]
    ctx.ob("to_message builds a Message from code and payload only", okm, tm, rets[0])
    if okm:
        rid = _n1(ctx, cfg, rets[0], "return")
        ctx.ob("the message's code is the class/instance attribute `code`", chain(_value_at(cfg, tm.node, _kw(v, "code"), rid)[0]) == "self.code", tm, rets[0])
        pm = match("self.message.encode($*a)", _value_at(cfg, tm.node, _kw(v, "payload"), rid)[0])
        enc = None
        if pm is not None:
            enc = "utf-8" if not pm["a"] else (pm["a"][0].value if len(pm["a"]) == 1 and isinstance(pm["a"][0], ast.Constant) else None)
        ctx.ob("the message's payload is the UTF-8 encoding of the attribute `message`", isinstance(enc, str) and enc.lower().replace("-", "").replace("_", "") == "utf8", tm, rets[0])
    bci = prog.cls("error.ConstructionRenderableError")
    ctx.ob("the default code of a ConstructionRenderableError is 5.00", _class_code(prog, base) == _num(RESPONSE_CODES["INTERNAL_SERVER_ERROR"]) and "code" in bci.attrs, None, None, construct="ConstructionRenderableError.code")
    ctx.ob("the default diagnostic payload is empty", "message" in bci.attrs and isinstance(bci.attrs["message"], ast.Constant) and bci.attrs["message"].value == "", None, None, construct="ConstructionRenderableError.message")
    init = bci.methods.get("__init__")
    if init is not None:
        ip = params(init)
        sts = [n for k, n in stores_to(init.node, "self.message", nested=False) if k == "assign"]
        ctx.ob("a diagnostic passed to the constructor becomes the payload text", bool(ip) and any(isinstance(n, ast.Assign) and isinstance(n.value, ast.Name) and n.value.id == ip[0] for n in sts) and not stores_to(init.node, "self.code", nested=False), init, sts[0] if sts else init.node,
               construct=None if sts else "ConstructionRenderableError.__init__")
    # the Code enum against the registries
    cci = prog.cls("numbers.codes.Code")
    for name, cd in sorted(RESPONSE_CODES.items()):
        try:
            val = norm.consteval(cci.attrs[name]) if name in cci.attrs else None
        except norm.NormError:
            val = None
        ctx.ob("Code.%s == %d.%02d" % (name, cd[0], cd[1]), val == _num(cd), None, None, construct="Code.%s" % name, detail="value %r" % val)
    # one class per error code, bound to the code its name denotes
    n_err = 0
    for name, cd in sorted(RESPONSE_CODES.items()):
        if cd[0] < 4:
            continue
        cn = _camel(name)
        q = "aiocoap.error." + cn
        ci = prog.classes.get(q)
        if not ctx.ob("error.%s exists and is a ConstructionRenderableError" % cn, ci is not None and prog.is_subclass(q, base), None, None, construct="class error.%s" % cn):
            continue
        n_err += 1
        cv = _code_value(prog, ci.module, ci.attrs["code"]) if "code" in ci.attrs else None
        ctx.ob("error.%s binds code %d.%02d" % (cn, cd[0], cd[1]), cv is not None and cv[1] == _num(cd) and cv[0] == name, None, None, construct="error.%s.code" % cn, detail="bound to %s" % (cv,))
    ctx.floor("registry-named error classes", n_err, 21)
    for cn, cd in sorted(DERIVED_ERRORS.items()):
        q = "aiocoap.error." + cn
        ctx.need(q in prog.classes, "anchor class error.%s missing" % cn)
        ctx.ob("error.%s renders as %d.%02d" % (cn, cd[0], cd[1]), prog.is_subclass(q, base) and _class_code(prog, q) == _num(cd), None, None, construct="error.%s" % cn, detail="code value %r" % _class_code(prog, q))
    # homonyms elsewhere in the package
    byname = {_camel(n): cd for n, cd in RESPONSE_CODES.items() if cd[0] >= 4}
    for q in sorted(prog.subclasses(base)):
        ci = prog.classes[q]
        short = q.rsplit(".", 1)[1]
        if q.startswith("aiocoap.error.") or short not in byname:
            continue
        ctx.ob("%s binds the code its name denotes" % q[len("aiocoap."):], _class_code(prog, q) == _num(byname[short]), None, None, construct="%s.code" % q[len("aiocoap."):])
    # no subclass in error.py overrides to_message or code assignment dynamically
    for q in sorted(prog.subclasses(base)):
        ci = prog.classes[q]
        if q.startswith("aiocoap.error.") and q != base:
            ctx.ob("error.%s uses the common renderer" % q.rsplit(".", 1)[1], "to_message" not in ci.methods, None, None, construct="error.%s.to_message" % q.rsplit(".", 1)[1])


# ---------------------------------------------------------------------------
# seeded faults (sensitivity self-test)
@R.clause("C09.k", "a transport error reported for one peer stops only that peer's requests in flight (shared with C02.e)")
def k_shared(ctx):
    """'A failure in one request neither affects requests in flight at the same time': an independently written breaking
    change dropped the per-remote filter when TokenManager.dispatch_error collects the stoppers of incoming requests,
    so an error for peer A cancelled the handler of peer B's request, which then never got a response.  The
    obligations are those of C02.e."""
    from . import c02
    c02.e(ctx)


@R.clause("C09.l", "only an unknown path is answered 4.04: the KeyError handler around the child lookup covers the lookup alone, not the handler's own rendering (shared with C17.c)")
def l_shared(ctx):
    """An independently written breaking change moved `return await child.render_to_pipe(request)` into the try block
    whose `except KeyError` raises NotFound: a KeyError raised by application code below a Site was answered 4.04
    instead of the bare 5.00.  The obligations are those of C17.c."""
    from . import c17
    c17.c(ctx)


@R.clause("C09.m", "No-Response suppresses exactly the response's own class: the mask is bit (class - 1) (RFC 7967)")
def m_mask(ctx):
    """'Exactly one final response ... unless No-Response ... suppress it'.  An independently written breaking change
    re-parenthesised the mask to (1 << class) - 1, so a No-Response value aimed at 2.xx also swallowed 4.xx/5.xx."""
    fi = ctx.prog.func("messagemanager.MessageManager.send_message")
    m = params(fi)[0]
    found = []
    for n in walk_no_nested(fi.node):
        if isinstance(n, ast.BinOp) and isinstance(n.op, ast.BitAnd):
            sides = [n.left, n.right]
            if any("no_response" in ast.unparse(s_) for s_ in sides):
                mask = [s_ for s_ in sides if "no_response" not in ast.unparse(s_)]
                if mask:
                    found.append((n, mask[0]))
    ctx.ob("send_message applies a No-Response mask", len(found) == 1, fi, found[0][0] if found else fi.node, construct="send_message: No-Response mask")
    for n, mask in found:
        N = Normalizer(env=norm.local_env(fi.node))
        try:
            got = N.poly(mask)
            want = Normalizer().poly(ast.parse("2**(%s.code.class_ - 1)" % m, mode="eval").body)
            ok = got == want
        except NormError:
            ok, got = False, None
        ctx.ob("the mask is exactly 1 << (class - 1): 2 for 2.xx, 8 for 4.xx, 16 for 5.xx", ok, fi, n, detail="normal form %r" % (got,))
    from ..absdom import code_predicates
    ctx.ob("Code.class_ is the code's upper three bits", code_predicates(ctx.prog)["class_shift"] == 5, None, None, construct="Code.class_")


F_PIPE = "aiocoap/pipe.py"
F_PROTO = "aiocoap/protocol.py"
F_RES = "aiocoap/resource.py"
F_IF = "aiocoap/interfaces.py"
F_ERR = "aiocoap/error.py"
F_CODES = "aiocoap/numbers/codes.py"
F_TM = "aiocoap/tokenmanager.py"

R.seed("C09.a", F_PIPE, "            old_pr.add_response(msg, is_last=True)\n", "            old_pr.add_response(msg, is_last=False)\n", "error response not final")
R.seed("C09.a", F_PIPE, "            old_pr.add_response(Message(code=INTERNAL_SERVER_ERROR), is_last=True)\n", "            pass\n", "non-renderable exception gets no response")
R.seed("C09.a", F_PIPE, "            except Exception as e2:", "            except error.Error as e2:", "handler narrowed: a renderer raising ValueError escapes")
R.seed("C09.a", F_PIPE, "            old_pr.add_response(msg, is_last=True)\n", "            old_pr.add_response(msg, is_last=True)\n            old_pr.add_response(msg, is_last=True)\n", "second add_response")
R.seed("C09.a", F_PIPE, "        return False\n\n    remove_interest", "        return True\n\n    remove_interest", "handler stays registered after the terminal event")
R.seed("C09.a", F_PIPE, "                if msg is None:\n", "                if False:\n", "None rendering is passed on as response")
R.seed("C09.a", F_PIPE, "            old_pr.add_response(event.message, event.is_last)\n", "            old_pr.add_response(event.message, True)\n", "first notification ends the exchange")
R.seed("C09.a", F_PIPE, "            return not event.is_last\n", "            return True\n", "handler never deregisters")
R.seed("C09.a", F_PIPE, "        if isinstance(e, error.RenderableError):", "        if isinstance(e, error.ConstructionRenderableError):", "other renderable errors become 5.00")
R.seed("C09.b", F_PIPE, "                msg = Message(code=INTERNAL_SERVER_ERROR)\n", "                msg = Message(code=INTERNAL_SERVER_ERROR, payload=str(e2).encode())\n", "exception text leaks")
R.seed("C09.b", F_PIPE, "            old_pr.add_response(Message(code=INTERNAL_SERVER_ERROR), is_last=True)\n", "            old_pr.add_response(Message(code=INTERNAL_SERVER_ERROR, payload=str(e).encode()), is_last=True)\n", "exception text leaks")
R.seed("C09.b", F_PIPE, "                msg = Message(code=INTERNAL_SERVER_ERROR)\n", "                msg = Message(code=INTERNAL_SERVER_ERROR)\n                msg.payload = repr(e2).encode()\n", "exception text leaks through a later store")
R.seed("C09.b", F_PIPE, "from .numbers import INTERNAL_SERVER_ERROR\n", "from .numbers import BAD_REQUEST as INTERNAL_SERVER_ERROR\n", "fallback is not 5.00")
R.seed("C09.c", F_PIPE, "        except Exception as e:\n            pipe.add_exception(e)\n", "        except error.Error as e:\n            pipe.add_exception(e)\n", "arbitrary exceptions of the handler get no response")
R.seed("C09.c", F_PIPE, "        except Exception as e:\n            pipe.add_exception(e)\n", "        except Exception as e:\n            pass\n", "exception swallowed")
R.seed("C09.c", F_PIPE, "        self._add_event(self.Event(None, exception, True))\n", "        self._add_event(self.Event(None, exception, False))\n", "exception event not terminal")
R.seed("C09.c", F_PROTO, "        run_driving_pipe(\n            pr_that_can_receive_errors,\n", "        run_driving_pipe(\n            pipe,\n", "exceptions bypass error_to_message")
R.seed("C09.d", F_PROTO, "Message(code=NOT_FOUND, payload=b\"not a server\"), is_last=True", "Message(code=NOT_FOUND, payload=b\"not a server\"), is_last=False")
R.seed("C09.d", F_PROTO, "Message(code=NOT_FOUND, payload=b\"not a server\"), is_last=True", "Message(code=INTERNAL_SERVER_ERROR, payload=b\"not a server\"), is_last=True")
R.seed("C09.d", F_PROTO, "is_last=True\n            )\n            return\n", "is_last=True\n            )\n", "falls through to a missing site")
R.seed("C09.e", F_RES, "                response_default = Code.DELETED\n", "                response_default = Code.CHANGED\n", "DELETE -> 2.04")
R.seed("C09.e", F_RES, "            raise error.UnallowedMethod()\n", "            raise error.NotFound()\n")
R.seed("C09.e", F_RES, "            raise error.UnsupportedMethod()\n", "            raise error.BadRequest()\n")
R.seed("C09.e", F_RES, "        if response.code is None:\n", "        if True:\n", "handler's code overwritten")
R.seed("C09.e", F_RES, "            if request.code in (Code.GET, Code.FETCH):", "            if request.code in (Code.GET,):", "FETCH -> 2.04")
R.seed("C09.e", F_RES, "        if response.opt.no_response is None:\n            response.opt.no_response = request.opt.no_response\n", "", "No-Response not honoured")
R.seed("C09.e", F_RES, "        if not request.code.is_request():\n            raise error.UnsupportedMethod()\n", "", "non-request codes reach the handler lookup")
R.seed("C09.e", F_ERR, "class UnallowedMethod(MethodNotAllowed):", "class UnallowedMethod(NotFound):", "4.04 instead of 4.05")
R.seed("C09.f", F_RES, "            raise error.NotFound()\n        else:\n            return await child.render(subrequest)\n", "            return\n        else:\n            return await child.render(subrequest)\n", "unknown path returns None -> 5.00")
R.seed("C09.f", F_RES, "        except KeyError:\n            raise error.NotFound()\n        else:\n            # FIXME consider", "        except IndexError:\n            raise error.NotFound()\n        else:\n            # FIXME consider", "KeyError escapes -> 5.00")
R.seed("C09.f", F_RES, "            raise error.NotFound()\n        else:\n            # FIXME consider", "            raise error.BadRequest()\n        else:\n            # FIXME consider", "unknown path -> 4.00")
R.seed("C09.f", F_RES, "            raise KeyError()\n\n        remainder", "            raise ValueError()\n\n        remainder", "empty path -> ValueError -> 5.00")
R.seed("C09.f", F_RES, "            raise error.BadOption() from None\n", "            raise ValueError() from None\n", "unknown abbreviation -> 5.00")
R.seed("C09.f", F_RES, "        except KeyError:\n            # Unknown option\n", "        except IndexError:\n            # Unknown option\n", "unknown abbreviation -> KeyError -> 5.00")
R.seed("C09.f", F_RES, "        _expand_upa(request.request)\n", "", "abbreviated paths are not found")
R.seed("C09.g", F_IF, "        pipe.add_response(res, is_last=True)\n", "        pipe.add_response(res, is_last=False)\n")
R.seed("C09.g", F_IF, "        pipe.add_response(res, is_last=True)\n", "        pipe.add_response(res, is_last=True)\n        pipe.add_response(res, is_last=True)\n", "second add_response")
R.seed("C09.g", F_IF, "            res = await self.render(req)\n\n        pipe.add_response(res, is_last=True)\n", "            res = await self.render(req)\n            pipe.add_response(res, is_last=True)\n", "blockwise arm adds nothing")
R.seed("C09.h", F_TM, "                m.token = request.token\n", "", "response without the request's token")
R.seed("C09.h", F_TM, "                m.remote = request.remote.as_response_address()\n", "                m.remote = request.remote\n", "multicast responses from the group address")
R.seed("C09.h", F_TM, "            if not ev.is_last:\n                return True\n", "            return True\n", "handler never deregisters")
R.seed("C09.h", F_TM, "            if not ev.is_last:\n                return True\n", "            if ev.is_last:\n                return True\n", "inverted")
R.seed("C09.h", F_TM, "            if not ev.is_last:\n                return True\n", "", "notifications after the first are dropped")
R.seed("C09.i", F_PIPE, "        if self._event_callbacks is False:\n            if event.exception is not None:", "        if self._event_callbacks is None:\n            if event.exception is not None:", "events after the end are delivered")
R.seed("C09.i", F_PIPE, "        cbs = self._event_callbacks\n        self._event_callbacks = False\n", "        cbs = self._event_callbacks\n", "pipe never marked ended")
R.seed("C09.i", F_PIPE, "                self._event_callbacks.remove((cb, is_interest))\n", "                pass\n", "declining handlers stay registered")
R.seed("C09.i", F_PIPE, "        if not self._any_interest():\n            self._end()\n\n    def add_response(self", "    def add_response(self", "pipe does not end after the final event")
R.seed("C09.j", F_ERR, "class NotFound(ConstructionRenderableError):\n    code = codes.NOT_FOUND\n", "class NotFound(ConstructionRenderableError):\n    code = codes.BAD_REQUEST\n")
R.seed("C09.j", F_CODES, "    NOT_FOUND = 132\n", "    NOT_FOUND = 133\n")
R.seed("C09.j", F_CODES, "NOT_FOUND = Code.NOT_FOUND\n", "NOT_FOUND = Code.BAD_REQUEST\n", "module alias points at another member")
R.seed("C09.j", F_ERR, "return Message(code=self.code, payload=self.message.encode(\"utf8\"))", "return Message(code=codes.INTERNAL_SERVER_ERROR, payload=self.message.encode(\"utf8\"))", "every renderable error becomes 5.00")
R.seed("C09.j", F_ERR, "return Message(code=self.code, payload=self.message.encode(\"utf8\"))", "return Message(code=self.code, payload=repr(self).encode(\"utf8\"))", "diagnostic payload replaced")
R.seed("C09.j", F_ERR, "class HopLimitReached(ConstructionRenderableError):\n    code = codes.HOP_LIMIT_REACHED", "class HopLimitReached(ConstructionRenderableError):\n    code = codes.GATEWAY_TIMEOUT")
R.seed("C09.j", F_CODES, "    HOP_LIMIT_REACHED = (5 << 5) + 8\n", "    HOP_LIMIT_REACHED = (5 << 5) + 7\n")

R.seed("C09.k", "aiocoap/tokenmanager.py", "        for (_, _r), (_, stopper) in self.incoming_requests.items():\n            if remote == _r:\n                stoppers.append(stopper)", "        stoppers.extend(stopper for (_, stopper) in self.incoming_requests.values())", "an error for one peer cancels every peer's handlers")

R.seed("C09.l", F_RES, "        except KeyError:\n            raise error.NotFound()\n        else:\n            # FIXME consider carefully whether this switching-around is good.\n            # It probably is.\n            request.request = subrequest\n            return await child.render_to_pipe(request)", "            request.request = subrequest\n            return await child.render_to_pipe(request)\n        except KeyError:\n            raise error.NotFound()", "a KeyError raised by a handler is answered 4.04")
R.seed("C09.m", "aiocoap/messagemanager.py", "                1 << message.code.class_ - 1\n", "                (1 << message.code.class_) - 1\n", "No-Response=2 also suppresses 4.xx and 5.xx")
