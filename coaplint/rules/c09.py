"""C09 Every request gets exactly one final response reflecting the handler outcome."""

import ast

from ..rulekit import *
from ..cfg import CFG
from ..norm import Normalizer, Poly
from ..exc import EscapeAnalysis

R = Rules(
    "C09",
    explanation=(
        "Structural clauses of the server-side response path decided on the syntax trees of pipe.py, "
        "protocol.py, resource.py, interfaces.py, error.py, numbers/codes.py and tokenmanager.py: in "
        "error_to_message every path taken for an exception event adds exactly one final response and "
        "deregisters, the renderable arm is wrapped in a handler for Exception whose path sends a bare "
        "5.00, a None rendering falls back as well, and every Message built there is Message(code=5.00) "
        "with no other argument; run_driving_pipe turns every Exception of the render coroutine into a "
        "terminal event; a context without site answers 4.04 once; Resource.render maps non-request codes "
        "and missing handlers to 4.05 classes, fills the default code table {GET, FETCH: 2.05, DELETE: 2.02, "
        "else 2.04} exactly when the handler left the code unset and copies no_response when unset; every "
        "call of Site._find_child_and_pathstripped_message handles KeyError by 4.04 or the documented "
        "fallback and the escape sets of that function and of _expand_upa are {KeyError} and {BadOption}; "
        "interfaces.Resource._render_to_pipe adds one final response per normal path; the token manager's "
        "event handler stamps token and response address before sending and stays registered exactly "
        "while events are not final; Pipe discards events after its end; ConstructionRenderableError "
        "renders (self.code, self.message) and every subclass binds the code its name denotes in the RFC "
        "registries embedded here.  Paper step: with these premises each request's pipe sees exactly one "
        "event with is_last=True on every outcome of the handler.  Run-time isolation between tasks and "
        "the No-Response / multicast suppression (C10) are not decided."
    ),
    rule_text="must-pass / dominance rules on per-function CFGs, reaching definitions, handler breadth via the class hierarchy, escape sets, finite-domain evaluation of the method dispatch, constant evaluation of code tables against RFC 7252/7959/8132/8516/8768",
)

# ---------------------------------------------------------------------------
# reference data (transcribed from the RFCs, not from aiocoap)

METHODS = {"GET": 1, "POST": 2, "PUT": 3, "DELETE": 4, "FETCH": 5, "PATCH": 6, "iPATCH": 7}
# RFC 7252 12.1.2, RFC 7959 (2.31, 4.08), RFC 8132 (4.09, 4.22), RFC 8516 (4.29), RFC 8768 (5.08)
RESPONSE_CODES = {
    "CREATED": (2, 1), "DELETED": (2, 2), "VALID": (2, 3), "CHANGED": (2, 4), "CONTENT": (2, 5), "CONTINUE": (2, 31),
    "BAD_REQUEST": (4, 0), "UNAUTHORIZED": (4, 1), "BAD_OPTION": (4, 2), "FORBIDDEN": (4, 3), "NOT_FOUND": (4, 4),
    "METHOD_NOT_ALLOWED": (4, 5), "NOT_ACCEPTABLE": (4, 6), "REQUEST_ENTITY_INCOMPLETE": (4, 8), "CONFLICT": (4, 9),
    "PRECONDITION_FAILED": (4, 12), "REQUEST_ENTITY_TOO_LARGE": (4, 13), "UNSUPPORTED_CONTENT_FORMAT": (4, 15),
    "UNPROCESSABLE_ENTITY": (4, 22), "TOO_MANY_REQUESTS": (4, 29),
    "INTERNAL_SERVER_ERROR": (5, 0), "NOT_IMPLEMENTED": (5, 1), "BAD_GATEWAY": (5, 2), "SERVICE_UNAVAILABLE": (5, 3),
    "GATEWAY_TIMEOUT": (5, 4), "PROXYING_NOT_SUPPORTED": (5, 5), "HOP_LIMIT_REACHED": (5, 8),
}
# A.10 default success codes per method
DEFAULT_CODE = {"GET": (2, 5), "FETCH": (2, 5), "DELETE": (2, 2), "POST": (2, 4), "PUT": (2, 4), "PATCH": (2, 4), "iPATCH": (2, 4)}
# classes of error.py whose name is not a registry name: the code they must inherit / bind
DERIVED_ERRORS = {"NoResource": (4, 4), "UnallowedMethod": (4, 5), "UnsupportedMethod": (4, 5), "NoRequestInterface": (5, 5)}


def _num(cd):
    return cd[0] * 32 + cd[1]


def _camel(name):
    return "".join(w.title() for w in name.split("_"))


# ---------------------------------------------------------------------------
# local helpers (kept in this module on purpose: rule modules are independent)


def _rn(cfg, astnode):
    return [i for i in cfg.locate(astnode) if cfg.is_reachable(i)]


def _n1(ctx, cfg, astnode, what):
    ids = _rn(cfg, astnode)
    ctx.need(bool(ids), "%s is not reachable in the CFG" % what)
    return ids[0]


def _kw(call, name, pos=None):
    for k in call.keywords:
        if k.arg == name:
            return k.value
    if pos is not None and len(call.args) > pos and not any(isinstance(a, ast.Starred) for a in call.args):
        return call.args[pos]
    return None


def _path_in_target(t, name):
    if isinstance(t, ast.Name):
        return () if t.id == name else None
    if isinstance(t, (ast.Tuple, ast.List)):
        for i, e in enumerate(t.elts):
            if isinstance(e, ast.Starred):
                continue
            p = _path_in_target(e, name)
            if p is not None:
                return (i,) + p
    return None


def _bound(w, name):
    if isinstance(w, ast.Assign):
        for t in w.targets:
            p = _path_in_target(t, name)
            if p is not None:
                return w.value, p
    if isinstance(w, ast.AnnAssign) and isinstance(w.target, ast.Name) and w.target.id == name:
        return w.value, ()
    return None, None


def _write_nodes(cfg, fnode, name):
    out = []
    for w in writes_to_name(fnode, name):
        for nid in cfg.locate(w):
            if cfg.is_reachable(nid):
                out.append((nid, w))
    return out


def _reaching(cfg, fnode, name, at):
    ws = _write_nodes(cfg, fnode, name)
    ids = {nid for nid, _ in ws}
    out = []
    for nid, w in ws:
        if at in cfg.reach({nid}, avoid=ids - {nid, at}):
            out.append((nid, w))
    entry_live = at in cfg.reach({cfg.entry}, avoid=ids - {at}, include_src=True)
    return out, entry_live


def _value_at(cfg, fnode, e, at, depth=3):
    while depth and isinstance(e, ast.Name):
        ws, entry_live = _reaching(cfg, fnode, e.id, at)
        if len(ws) != 1 or entry_live:
            break
        v, p = _bound(ws[0][1], e.id)
        if v is None:
            break
        if p:
            return v, p
        at = ws[0][0]
        e = v
        depth -= 1
    return e, ()


def _closure_ref(fnode, used, outer):
    a = fnode.args
    allargs = a.posonlyargs + a.args
    defaults = [None] * (len(allargs) - len(a.defaults)) + list(a.defaults)
    for arg, d in list(zip(allargs, defaults)) + list(zip(a.kwonlyargs, a.kw_defaults)):
        if arg.arg == used:
            return isinstance(d, ast.Name) and d.id == outer
    if isinstance(fnode, ast.Lambda):
        return used == outer
    return used == outer and not writes_to_name(fnode, used)


def _cls_of(ctx, fi, e):
    c = chain(e)
    return ctx.prog.resolve_in_module(fi.module, c) if c else None


def _witness(cfg, starts, through, to, skip=()):
    r = cfg.reach(set(starts), avoid=set(through), skip_labels=skip, include_src=True)
    for n in sorted(r):
        if any(d == to and lab not in skip for d, lab in cfg.succ[n]) and cfg.nodes[n].ast is not None:
            return cfg.nodes[n].ast
    return None


def _none_nodes(cfg, subject_ok, isnone):
    """pseudo-nodes on which `<subject> is None` has truth value `isnone`"""
    out = set()
    for n in cfg.nodes:
        e = n.ast
        if n.kind in ("T", "F") and cfg.is_reachable(n.id) and isinstance(e, ast.Compare) and len(e.ops) == 1 and isinstance(e.ops[0], (ast.Is, ast.IsNot, ast.Eq, ast.NotEq)) \
                and isinstance(e.comparators[0], ast.Constant) and e.comparators[0].value is None and subject_ok(e.left, n.id):
            val = (n.kind == "T") == isinstance(e.ops[0], (ast.Is, ast.Eq))
            if val == isnone:
                out.add(n.id)
    return out


def _code_value(prog, module, e):
    """(member name, int) of an expression denoting a member of numbers.codes.Code"""
    c = chain(e)
    if c is None:
        return None
    q = prog.resolve_in_module(module, c)
    pre = "aiocoap.numbers.codes."
    if not q.startswith(pre):
        return None
    rest = q[len(pre):]
    if rest.startswith("Code."):
        member = rest[5:]
    else:
        try:
            v = prog.module_const("numbers.codes", rest)
        except AnchorError:
            return None
        cc = chain(v) or ""
        if not cc.startswith("Code."):
            return None
        member = cc[5:]
    ci = prog.cls("numbers.codes.Code")
    if member not in ci.attrs:
        return None
    try:
        val = norm.consteval(ci.attrs[member])
    except norm.NormError:
        return None
    return (member, val) if isinstance(val, int) else None


def _class_code(prog, clsqn):
    """int value of the `code` class attribute a class sees through its MRO"""
    expr, owner = prog.class_attr(clsqn, "code")
    if expr is None:
        return None
    cv = _code_value(prog, owner.module, expr)
    return cv[1] if cv else None


class _Add:
    def __init__(self, call, nid):
        self.call = call
        self.nid = nid
        self.resp = _kw(call, "response", 0)
        self.last = _kw(call, "is_last", 1)
        if self.last is None:
            self.kind = "nonfinal"
        elif isinstance(self.last, ast.Constant):
            self.kind = "final" if self.last.value else "nonfinal"
        else:
            self.kind = "var"


def _adds(cfg, root, recv):
    out = []
    for c, _ in find("%s.add_response($*a, $**k)" % recv, root):
        for nid in _rn(cfg, c):
            out.append(_Add(c, nid))
    return out


def _is_bare_500(prog, fi, e):
    if not (isinstance(e, ast.Call) and _cls_of_mod(prog, fi.module, e.func) == "aiocoap.message.Message"):
        return False
    if e.args or len(e.keywords) != 1 or e.keywords[0].arg != "code":
        return False
    cv = _code_value(prog, fi.module, e.keywords[0].value)
    return cv is not None and cv[1] == _num(RESPONSE_CODES["INTERNAL_SERVER_ERROR"])


def _cls_of_mod(prog, module, e):
    c = chain(e)
    return prog.resolve_in_module(module, c) if c else None


def _handler_catches(prog, fi, h, clsname):
    """does except-handler h catch builtin/packaged class `clsname`?"""
    if h.type is None:
        return True
    types = h.type.elts if isinstance(h.type, ast.Tuple) else [h.type]
    for t in types:
        q = _cls_of_mod(prog, fi.module, t)
        if q is not None and (q == clsname or prog.is_subclass(clsname, q)):
            return True
    return False


def _enclosing_try(cfg, node, fnode):
    """innermost Try whose *body* contains node"""
    child = node
    p = cfg.parent.get(id(node))
    while p is not None and p is not fnode:
        if isinstance(p, ast.Try) and any(child is s for s in p.body):
            return p
        child = p
        p = cfg.parent.get(id(p))
    return None


# ---------------------------------------------------------------------------
# C09.a / C09.b  error_to_message.on_event


class _E2M:
    pass


def _e2m(ctx):
    prog = ctx.prog
    Q = _E2M()
    outer = Q.outer = prog.func("pipe.error_to_message")
    fi = Q.fi = prog.func("pipe.error_to_message.<locals>.on_event")
    op = params(outer)
    ep = params(fi, skip_self=False)
    ctx.need(len(op) == 2 and len(ep) == 1, "error_to_message / on_event signature changed")
    Q.old, Q.ev = op[0], ep[0]
    ctx.need(not writes_to_name(outer.node, Q.old) and _closure_ref(fi.node, Q.old, Q.old) and not writes_to_name(fi.node, Q.ev), "old pipe or event rebound")
    cfg = Q.cfg = cfg_of(fi)
    subj = lambda e, at: chain(e) == Q.ev + ".message"
    Q.exc_arm = _none_nodes(cfg, subj, True)
    Q.msg_arm = _none_nodes(cfg, subj, False)
    ctx.need(Q.exc_arm and Q.msg_arm, "on_event does not branch on `event.message is None`")
    Q.adds = _adds(cfg, fi.node, Q.old)
    ctx.floor("add_response sites in on_event", len(Q.adds), 2)
    Q.exc_reach = cfg.reach(Q.exc_arm, avoid=Q.msg_arm, skip_labels=(), include_src=True)
    Q.msg_reach = cfg.reach(Q.msg_arm, avoid=Q.exc_arm, skip_labels=(), include_src=True)
    Q.adds_exc = [A for A in Q.adds if A.nid in Q.exc_reach]
    Q.adds_msg = [A for A in Q.adds if A.nid in Q.msg_reach and A.nid not in Q.exc_reach]
    # the exception object
    Q.is_exc = lambda e, at: chain(_value_at(cfg, fi.node, e, at)[0]) == Q.ev + ".exception"
    # registration of the handler on the inner pipe
    return Q


@R.clause("C09.a", "error_to_message.on_event: responses are forwarded with their is_last; every path taken for an exception adds exactly one final response and deregisters; to_message() is wrapped by a handler for Exception (and a None check) that leads to the bare 5.00")
def a(ctx):
    prog = ctx.prog
    Q = _e2m(ctx)
    fi, cfg = Q.fi, Q.cfg
    addn = {A.nid for A in Q.adds}
    # message arm
    ctx.floor("forwarding sites on the message arm", len(Q.adds_msg), 1)
    for A in Q.adds_msg:
        ctx.ob("a response event is forwarded unchanged", chain(A.resp) == Q.ev + ".message", fi, A.call)
        ctx.ob("a response event keeps its is_last flag", chain(A.last) == Q.ev + ".is_last", fi, A.call)
    ctx.ob("every response event is forwarded exactly once", all(cfg.must_pass(m, {A.nid for A in Q.adds_msg}) for m in Q.msg_arm)
           and not any(cfg.reach({A.nid}, skip_labels=("exc",)) & addn for A in Q.adds_msg), fi, Q.adds_msg[0].call)
    want = Normalizer().dnf(ast.parse("not %s.is_last" % Q.ev, mode="eval").body)
    for n in cfg.nodes:
        if n.kind == "return" and n.id in Q.msg_reach and n.id not in Q.exc_reach:
            try:
                got = Normalizer(env=norm.local_env(fi.node)).dnf(n.ast.value) if n.ast.value is not None else None
            except norm.NormError:
                got = None
            ctx.ob("the handler stays registered exactly while responses are not final", got == want, fi, n.ast)
    # exception arm
    ctx.floor("add_response sites on the exception arm", len(Q.adds_exc), 2)
    for x in Q.exc_arm:
        w = _witness(cfg, {x}, {A.nid for A in Q.adds_exc}, cfg.exit, skip=("exc",))
        ctx.ob("every path taken for an exception event adds a response", w is None, fi, w if w is not None else Q.adds_exc[0].call)
    for A in Q.adds_exc:
        ctx.ob("the response to an exception event is final", A.kind == "final", fi, A.call)
        ctx.ob("at most one response is added for an exception event", not (cfg.reach({A.nid}, skip_labels=("exc",)) & addn), fi, A.call)
    rets = [n for n in cfg.nodes if n.kind == "return" and n.id in Q.exc_reach]
    for n in rets:
        v = n.ast.value
        ctx.ob("after an exception event the handler deregisters (returns a false value)", v is None or (isinstance(v, ast.Constant) and not v.value), fi, n.ast)
    # renderable arm
    tms = [c for c, b in find("$x.to_message()", fi.node) if _rn(cfg, c) and Q.is_exc(b["x"], _rn(cfg, c)[0])]
    ctx.floor("to_message() calls on the event's exception", len(tms), 1)
    bare_writes = {}
    for n in walk_no_nested(fi.node):
        if isinstance(n, ast.Assign) and len(n.targets) == 1 and isinstance(n.targets[0], ast.Name) and _is_bare_500(prog, fi, n.value):
            for i in _rn(cfg, n):
                bare_writes.setdefault(n.targets[0].id, set()).add(i)
    for c in tms:
        cn = _n1(ctx, cfg, c, "to_message call")
        inst = False
        for e_, pol, g in cfg.guards(cn):
            m = match("isinstance($o, $c)", e_)
            if m is not None and pol and Q.is_exc(m["o"], g) and _cls_of(ctx, fi, m["c"]) == "aiocoap.error.RenderableError":
                inst = True
        ctx.ob("to_message() is called exactly for RenderableError instances", inst, fi, c)
        tr = _enclosing_try(cfg, c, fi.node)
        if not ctx.ob("the error renderer runs inside a try statement", tr is not None, fi, c):
            continue
        hs = [h for h in tr.handlers if _handler_catches(prog, fi, h, "Exception")]
        if not ctx.ob("a failing error renderer is caught by a handler for Exception", bool(hs), fi, tr.handlers[0] if tr.handlers else c,
                      construct="except %s" % (stmt_text(tr.handlers[0].type) if tr.handlers and tr.handlers[0].type is not None else "")):
            continue
        hn = {i for h in hs for i in _rn(cfg, h)}
        after = [A for A in Q.adds_exc if A.nid in cfg.reach(hn)]
        okf = bool(after)
        for A in after:
            if isinstance(A.resp, ast.Name):
                okf = okf and A.nid not in cfg.reach(hn, avoid=bare_writes.get(A.resp.id, set()))
            else:
                okf = okf and _is_bare_500(prog, fi, A.resp)
        ctx.ob("the handler's path sends the bare 5.00 and nothing else", okf and all(cfg.must_pass(h, {A.nid for A in after}) for h in hn), fi, hs[0], construct="except %s" % (stmt_text(hs[0].type) if hs[0].type is not None else ""))
        # a rendering that is None
        w, wp = cfg.parent.get(id(c)), None
        if isinstance(w, ast.Assign) and len(w.targets) == 1 and isinstance(w.targets[0], ast.Name):
            var = w.targets[0].id
            wn = _n1(ctx, cfg, w, "rendering")
            same_var = lambda e, at: isinstance(e, ast.Name) and e.id == var and [x for x, _ in _reaching(cfg, fi.node, var, at)[0]] == [wn]
            isnone = _none_nodes(cfg, same_var, True)
            notnone = _none_nodes(cfg, same_var, False)
            users = [A for A in Q.adds_exc if isinstance(A.resp, ast.Name) and A.resp.id == var and any(x == wn for x, _ in _reaching(cfg, fi.node, var, A.nid)[0])]
            tested = bool(isnone) and all(A.nid not in cfg.reach({wn}, avoid=isnone | notnone, skip_labels=("exc",)) for A in users)
            fb = bool(isnone) and all(A.nid not in cfg.reach(isnone, avoid=bare_writes.get(var, set())) for A in users) and cfg.exit not in cfg.reach(isnone, avoid={A.nid for A in Q.adds_exc})
            ctx.ob("a renderer that produces no message falls back to the bare 5.00 as well", bool(users) and tested and fb, fi, w)
        else:
            ctx.need(False, "to_message() result is not bound to a local")
    # the handler is what listens on the inner pipe, and the inner pipe is returned
    ocfg = cfg_of(Q.outer)
    regs = [(c, b) for c, b in find("$p.on_event($h)", Q.outer.node) if isinstance(b["h"], ast.Name) and b["h"].id == fi.name]
    rets = [n for n in walk_no_nested(Q.outer.node) if isinstance(n, ast.Return)]
    ok = len(rets) == 1 and isinstance(rets[0].value, ast.Name) and any(isinstance(b["p"], ast.Name) and b["p"].id == rets[0].value.id and ocfg.must_pass(ocfg.entry, set(_rn(ocfg, c))) for c, b in regs)
    ctx.ob("the pipe handed to the responder is the one this handler listens on", ok, Q.outer, regs[0][0] if regs else Q.outer.node, construct=None if regs else "error_to_message")


@R.clause("C09.b", "nothing derived from the exception reaches the 5.00: every Message built in on_event is Message(code=INTERNAL_SERVER_ERROR) and is not modified; the non-renderable arm sends only that")
def b(ctx):
    prog = ctx.prog
    Q = _e2m(ctx)
    fi, cfg = Q.fi, Q.cfg
    msgs = [c for c in calls_in(fi.node) if _cls_of(ctx, fi, c.func) == "aiocoap.message.Message"]
    ctx.floor("Message(...) constructions in on_event", len(msgs), 2)
    holders = set()
    for c in msgs:
        ctx.ob("a message built for a failed request is exactly Message(code=5.00): no payload, no option, nothing taken from the exception", _is_bare_500(prog, fi, c), fi, c)
        p = cfg.parent.get(id(c))
        if isinstance(p, ast.Assign):
            for t in p.targets:
                if isinstance(t, ast.Name):
                    holders.add(t.id)
    for n in walk_no_nested(fi.node):
        tg = []
        if isinstance(n, ast.Assign):
            tg = n.targets
        elif isinstance(n, (ast.AugAssign, ast.AnnAssign)):
            tg = [n.target]
        for t in tg:
            base = t
            while isinstance(base, (ast.Attribute, ast.Subscript)):
                base = base.value
            if t is not base and isinstance(base, ast.Name) and base.id in holders:
                ctx.ob("the fallback message is not modified after construction", False, fi, n)
        if isinstance(n, ast.Call) and isinstance(n.func, ast.Attribute) and isinstance(n.func.value, ast.Name) and n.func.value.id in holders and n.func.attr not in ("to_message",):
            ctx.ob("the fallback message is not modified after construction", False, fi, n)
    # what each add_response on the exception arm can carry
    for A in Q.adds_exc:
        srcs = []
        if isinstance(A.resp, ast.Name):
            ws, live = _reaching(cfg, fi.node, A.resp.id, A.nid)
            srcs = [_bound(w, A.resp.id)[0] for _, w in ws] + ([None] if live else [])
        else:
            srcs = [A.resp]
        ok = bool(srcs)
        rendered = False
        for v in srcs:
            m = match("$x.to_message()", v) if v is not None else None
            if m is not None and Q.is_exc(m["x"], _rn(cfg, v)[0]):
                rendered = True
            elif not _is_bare_500(prog, fi, v):
                ok = False
        if rendered:
            inst = any(match("isinstance($o, $c)", e_) is not None and pol for e_, pol, g in cfg.guards(A.nid))
            ok = ok and inst
        ctx.ob("an exception event is answered by the error's own rendering (renderable arm only) or by the bare 5.00", ok, fi, A.call,
               detail="carries: %s" % [stmt_text(v, 60) if v is not None else "<unbound>" for v in srcs])
    # log calls may mention the exception; they are not part of the response
    ctx.note("log.* calls on the exception arm take the exception as argument; they do not flow into add_response arguments (checked through reaching definitions)")


# ---------------------------------------------------------------------------
# C09.c


@R.clause("C09.c", "run_driving_pipe.wrapped awaits the render coroutine inside a handler for Exception that reports it through pipe.add_exception; Context.render_to_pipe runs _render_to_pipe(pipe) this way; add_exception events are terminal")
def c(ctx):
    prog = ctx.prog
    outer = prog.func("pipe.run_driving_pipe")
    fi = prog.func("pipe.run_driving_pipe.<locals>.wrapped")
    op = params(outer)
    ctx.need(len(op) >= 2 and not writes_to_name(outer.node, op[0]) and not writes_to_name(outer.node, op[1]), "run_driving_pipe signature changed")
    pipe, coro = op[0], op[1]
    cfg = cfg_of(fi)
    aws = [n for n in walk_no_nested(fi.node) if isinstance(n, ast.Await) and isinstance(n.value, ast.Name) and n.value.id == coro and _closure_ref(fi.node, coro, coro)]
    ctx.floor("awaits of the render coroutine", len(aws), 1)
    for aw in aws:
        tr = _enclosing_try(cfg, aw, fi.node)
        if not ctx.ob("the render coroutine is awaited inside a try statement", tr is not None, fi, aw):
            continue
        hs = [h for h in tr.handlers if _handler_catches(prog, fi, h, "Exception")]
        if not ctx.ob("every Exception raised by the render coroutine is caught", bool(hs), fi, tr.handlers[0] if tr.handlers else aw,
                      construct="except %s" % (stmt_text(tr.handlers[0].type) if tr.handlers and tr.handlers[0].type is not None else "")):
            continue
        for h in hs:
            reps = set()
            for c_, b_ in find("%s.add_exception($e)" % pipe, h):
                if isinstance(b_["e"], ast.Name) and b_["e"].id == h.name:
                    reps |= set(_rn(cfg, c_))
            hn = _rn(cfg, h)
            ctx.ob("the caught exception is reported as the pipe's terminal event on every path of the handler", bool(reps) and _closure_ref(fi.node, pipe, pipe) and all(cfg.must_pass(i, reps) for i in hn), fi, h,
                   construct="except %s" % (stmt_text(h.type) if h.type is not None else ""))
    # the task runs wrapped()
    tasks = [c_ for c_ in calls_in(outer.node) if isinstance(c_.func, ast.Attribute) and c_.func.attr in ("create_task", "ensure_future") and c_.args
             and isinstance(c_.args[0], ast.Call) and isinstance(c_.args[0].func, ast.Name) and c_.args[0].func.id == fi.name]
    ocfg = cfg_of(outer)
    ctx.ob("run_driving_pipe always starts a task running the wrapper", bool(tasks) and ocfg.must_pass(ocfg.entry, {i for t in tasks for i in _rn(ocfg, t)}), outer, tasks[0] if tasks else outer.node, construct=None if tasks else "run_driving_pipe")
    # Context.render_to_pipe
    cf = prog.func("protocol.Context.render_to_pipe")
    cp = params(cf)
    ctx.need(len(cp) == 1 and not writes_to_name(cf.node, cp[0]), "Context.render_to_pipe signature changed")
    ccfg = cfg_of(cf)
    runs = [c_ for c_, _ in find("run_driving_pipe($*a, $**k)", cf.node) if _cls_of(ctx, cf, c_.func) == "aiocoap.pipe.run_driving_pipe"]
    ctx.floor("run_driving_pipe calls in Context.render_to_pipe", len(runs), 1)
    for c_ in runs:
        cn = _n1(ctx, ccfg, c_, "run_driving_pipe call")
        a0, a1 = _kw(c_, "pipe", 0), _kw(c_, "coroutine", 1)
        v0, p0 = _value_at(ccfg, cf.node, a0, cn) if a0 is not None else (None, ())
        m0 = match("error_to_message($p, $*r)", v0) if v0 is not None and not p0 else None
        ctx.ob("exceptions of the render task are routed into error_to_message around the request's pipe", m0 is not None and chain(m0["p"]) == cp[0] and _cls_of(ctx, cf, v0.func) == "aiocoap.pipe.error_to_message", cf, c_)
        v1, p1 = _value_at(ccfg, cf.node, a1, cn) if a1 is not None else (None, ())
        m1 = match("self._render_to_pipe($p)", v1) if v1 is not None and not p1 else None
        ctx.ob("the render task renders into the request's pipe", m1 is not None and chain(m1["p"]) == cp[0], cf, c_)
    ctx.ob("every request handed to the context is rendered", ccfg.must_pass(ccfg.entry, {i for c_ in runs for i in _rn(ccfg, c_)}), cf, runs[0])
    # add_exception produces a terminal event
    af = prog.func("pipe.Pipe.add_exception")
    ap = params(af)
    evs = [c_ for c_, _ in find("self._add_event($e)", af.node)]
    ok = False
    for c_ in evs:
        ev = c_.args[0]
        if isinstance(ev, ast.Call) and chain(ev.func) in ("self.Event", "Pipe.Event"):
            ex, last = _kw(ev, "exception", 1), _kw(ev, "is_last", 2)
            ok = isinstance(ex, ast.Name) and ex.id == ap[0] and isinstance(last, ast.Constant) and last.value is True
    ctx.ob("add_exception emits an event that carries the exception and is final", ok, af, evs[0] if evs else af.node, construct=None if evs else "Pipe.add_exception")
    rf = prog.func("pipe.Pipe.add_response")
    rp = params(rf)
    evs = [c_ for c_, _ in find("self._add_event($e)", rf.node)]
    ok = False
    for c_ in evs:
        ev = c_.args[0]
        if isinstance(ev, ast.Call) and chain(ev.func) in ("self.Event", "Pipe.Event"):
            ms, last = _kw(ev, "message", 0), _kw(ev, "is_last", 2)
            ok = isinstance(ms, ast.Name) and ms.id == rp[0] and isinstance(last, ast.Name) and last.id == rp[1] and not writes_to_name(rf.node, rp[1])
    ctx.ob("add_response emits an event that carries the response and the caller's is_last", ok, rf, evs[0] if evs else rf.node, construct=None if evs else "Pipe.add_response")
