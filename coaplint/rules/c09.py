"""C09 Every request gets exactly one final response reflecting the handler outcome."""

import ast

from ..rulekit import *
from ..exc import EscapeAnalysis
from ._kit_c09 import Walker, K, none_test, const_test, origin, record_fields, record_arg, Event

R = Rules(
    "C09",
    explanation=(
        "Clauses of the server-side response path decided on the syntax trees of pipe.py, protocol.py, resource.py, "
        "interfaces.py, error.py, numbers/codes.py, tokenmanager.py and messagemanager.py.  The functions on the path are "
        "walked path by path (rules/_kit_c09.py): every path yields its ordered events (calls, stores, raises) and the "
        "decisions taken, with every local resolved to the value it has on that path, helper functions that are not part of "
        "the confirmed tree followed into, lambdas / nested defs / functools.partial applied, and exceptions routed to the "
        "handlers the class hierarchy selects; the clauses are statements about these paths, not about the shape of the "
        "code.  In error_to_message every path taken for an exception event adds exactly one final response and "
        "deregisters, a failing or None rendering ends in a bare 5.00 (the renderer is covered by a handler for Exception), "
        "and every Message built there is Message(code=5.00) with no other argument and no later store; run_driving_pipe "
        "turns every Exception of the render coroutine into a terminal event; a context without site answers 4.04 once; "
        "Resource.render maps non-request codes and missing handlers to 4.05 classes, fills the default code table {GET, "
        "FETCH: 2.05, DELETE: 2.02, else 2.04} exactly when the handler left the code unset (evaluated per request method) and "
        "copies no_response when unset; every path on which Site._find_child_and_pathstripped_message raises KeyError ends in "
        "a 4.04 error or the documented fallback, and the escape sets of that function and of _expand_upa are {KeyError} and "
        "{BadOption}; interfaces.Resource._render_to_pipe adds one final response per normal path, the outcome of self.render; "
        "the token manager's event handler stamps token and response address before sending and stays registered exactly "
        "while events are not final, and process_request keeps at most one live request per (token, remote) and keeps it "
        "tracked (an overridden request is found and stopped before its successor is stored under the key, because the "
        "overridden pipe's end-of-interest hook removes by key; obligations shared with C08.e); Pipe discards events after its end, removes declining handlers and ends without "
        "interest; ConstructionRenderableError renders (self.code, self.message) and every subclass binds the code its name "
        "denotes in the RFC registries embedded here; the No-Response condition of send_message has the truth table of bit "
        "(class-1); nothing raises before a request's render task exists (escape sets of Context.render_to_pipe, error_to_message, "
        "run_driving_pipe and of the __repr__/__str__ methods their eager text conversions of the request run are empty), and the "
        "task is handed to something that holds it strongly (value flow; the event loop only holds tasks weakly).  Paper step: with these premises each request's pipe sees exactly one event with is_last=True on every "
        "outcome of the handler.  Run-time isolation between tasks and the multicast suppression (C10) are not decided."
    ),
    rule_text="path-sensitive symbolic walk of per-function CFGs (events and decisions per path, values resolved through def-use, helpers followed interprocedurally, explicit and implicit exception flow through the class hierarchy), truth-table equivalence of boolean values under the path decisions, finite-domain evaluation of the method dispatch and of the No-Response mask, escape sets, constant evaluation of code tables against RFC 7252/7959/8132/8516/8768",
)

# ---------------------------------------------------------------------------
# reference data (transcribed from the RFCs, not from aiocoap)

METHODS = {"GET": 1, "POST": 2, "PUT": 3, "DELETE": 4, "FETCH": 5, "PATCH": 6, "iPATCH": 7}
# RFC 7252 12.1.2, RFC 7959 (2.31, 4.08), RFC 8132 (4.09, 4.22), RFC 8516 (4.29), RFC 8768 (5.08)
RESPONSE_CODES = {
    "CREATED": (2, 1), "DELETED": (2, 2), "VALID": (2, 3), "CHANGED": (2, 4), "CONTENT": (2, 5), "CONTINUE": (2, 31),
    "BAD_REQUEST": (4, 0), "UNAUTHORIZED": (4, 1), "BAD_OPTION": (4, 2), "FORBIDDEN": (4, 3), "NOT_FOUND": (4, 4),
    "METHOD_NOT_ALLOWED": (4, 5), "NOT_ACCEPTABLE": (4, 6), "REQUEST_ENTITY_INCOMPLETE": (4, 8), "CONFLICT": (4, 9),
    "PRECONDITION_FAILED": (4, 12), "REQUEST_ENTITY_TOO_LARGE": (4, 13), "UNSUPPORTED_CONTENT_FORMAT": (4, 15),
    "UNPROCESSABLE_ENTITY": (4, 22), "TOO_MANY_REQUESTS": (4, 29),
    "INTERNAL_SERVER_ERROR": (5, 0), "NOT_IMPLEMENTED": (5, 1), "BAD_GATEWAY": (5, 2), "SERVICE_UNAVAILABLE": (5, 3),
    "GATEWAY_TIMEOUT": (5, 4), "PROXYING_NOT_SUPPORTED": (5, 5), "HOP_LIMIT_REACHED": (5, 8),
}
# A.10 default success codes per method
DEFAULT_CODE = {"GET": (2, 5), "FETCH": (2, 5), "DELETE": (2, 2), "POST": (2, 4), "PUT": (2, 4), "PATCH": (2, 4), "iPATCH": (2, 4)}
# classes of error.py whose name is not a registry name: the code they must inherit / bind
UNREGISTERED = "<unregistered request code>"
DERIVED_ERRORS = {"NoResource": (4, 4), "UnallowedMethod": (4, 5), "UnsupportedMethod": (4, 5), "NoRequestInterface": (5, 5)}


def _num(cd):
    return cd[0] * 32 + cd[1]


def _camel(name):
    return "".join(w.title() for w in name.split("_"))


# ---------------------------------------------------------------------------
# local helpers (kept in this module on purpose: rule modules are independent)


def _kw(call, name, pos=None):
    for k in call.keywords:
        if k.arg == name:
            return k.value
    if pos is not None and len(call.args) > pos and not any(isinstance(a, ast.Starred) for a in call.args):
        return call.args[pos]
    return None


def _assigned_to(n, pred):
    """values a statement assigns to the targets satisfying pred (parallel
    assignment aware); None for a value the rule cannot pair up"""
    out = []
    if isinstance(n, ast.Assign):
        for t in n.targets:
            if pred(t):
                out.append(n.value)
            elif isinstance(t, (ast.Tuple, ast.List)):
                for i, el in enumerate(t.elts):
                    if pred(el):
                        if isinstance(n.value, (ast.Tuple, ast.List)) and len(n.value.elts) == len(t.elts):
                            out.append(n.value.elts[i])
                        else:
                            out.append(None)
    elif isinstance(n, ast.AnnAssign) and pred(n.target):
        out.append(n.value)
    elif isinstance(n, ast.AugAssign) and pred(n.target):
        out.append(None)
    return out


def _closure_ref(fnode, used, outer):
    a = fnode.args
    allargs = a.posonlyargs + a.args
    defaults = [None] * (len(allargs) - len(a.defaults)) + list(a.defaults)
    for arg, d in list(zip(allargs, defaults)) + list(zip(a.kwonlyargs, a.kw_defaults)):
        if arg.arg == used:
            return isinstance(d, ast.Name) and d.id == outer
    if isinstance(fnode, ast.Lambda):
        return used == outer
    return used == outer and not writes_to_name(fnode, used)


def _code_value(prog, module, e):
    """(member name, int) of an expression denoting a member of numbers.codes.Code"""
    c = chain(e)
    if c is None:
        return None
    q = prog.resolve_in_module(module, c)
    pre = "aiocoap.numbers.codes."
    if not q.startswith(pre):
        return None
    rest = q[len(pre):]
    if rest.startswith("Code."):
        member = rest[5:]
    else:
        try:
            v = prog.module_const("numbers.codes", rest)
        except AnchorError:
            return None
        cc = chain(v) or ""
        if not cc.startswith("Code."):
            return None
        member = cc[5:]
    ci = prog.cls("numbers.codes.Code")
    if member not in ci.attrs:
        return None
    try:
        val = norm.consteval(ci.attrs[member])
    except norm.NormError:
        return None
    return (member, val) if isinstance(val, int) else None


def _class_code(prog, clsqn):
    """int value of the `code` class attribute a class sees through its MRO"""
    expr, owner = prog.class_attr(clsqn, "code")
    if expr is None:
        return None
    cv = _code_value(prog, owner.module, expr)
    return cv[1] if cv else None


def _cls_of_mod(prog, module, e):
    c = chain(e)
    return prog.resolve_in_module(module, c) if c else None


def _handler_catches(prog, fi, h, clsname):
    """does except-handler h catch builtin/packaged class `clsname`?"""
    if h.type is None:
        return True
    types = h.type.elts if isinstance(h.type, ast.Tuple) else [h.type]
    for t in types:
        q = _cls_of_mod(prog, fi.module, t)
        if q is not None and (q == clsname or prog.is_subclass(clsname, q)):
            return True
    return False


def _enclosing_try(cfg, node, fnode):
    """innermost Try whose *body* contains node"""
    child = node
    p = cfg.parent.get(id(node))
    while p is not None and p is not fnode:
        if isinstance(p, ast.Try) and any(child is s for s in p.body):
            return p
        child = p
        p = cfg.parent.get(id(p))
    return None


# ---------------------------------------------------------------------------
# trace helpers (over _kit_c09.Walker outcomes)


class _Obs:
    """one obligation per (text, construct): the outcomes of a function repeat the same construct on many paths"""

    def __init__(self, ctx):
        self.ctx = ctx
        self.items = {}

    def add(self, desc, ok, fi, node, detail=None, construct=None):
        k = (desc, id(node), construct)
        it = self.items.get(k)
        if it is None:
            self.items[k] = [desc, bool(ok), fi, node, None if ok else detail, construct]
        elif not ok and it[1]:
            it[1], it[4] = False, detail
        return ok

    def flush(self):
        for desc, ok, fi, node, detail, construct in self.items.values():
            self.ctx.ob(desc, ok, fi, node, detail=detail, construct=construct)
        self.items = {}


def _method_calls(o, attr, recv_ok, partial=None):
    """(index, event) of calls `<recv>.attr(...)` on an outcome with recv_ok(resolved receiver)"""
    return o.calls(lambda e: isinstance(e.func, ast.Attribute) and e.func.attr == attr and recv_ok(e.func.value), partial=partial)


def _last_arg(e):
    """is_last argument of an add_response event (absent: the default False)"""
    v = e.arg("is_last", 1)
    return v if v is not None else ast.Constant(value=False)


def _bare_500(prog, W, v):
    """v is a Message built on the spot as Message(code=INTERNAL_SERVER_ERROR) and nothing else"""
    if not (isinstance(v, ast.Call) and W.cls_of(v.func) == "aiocoap.message.Message"):
        return False
    if v.args or len(v.keywords) != 1 or v.keywords[0].arg != "code":
        return False
    kv = v.keywords[0].value
    fi = getattr(kv, "_fi", None)
    cv = _code_value(prog, fi.module, kv) if fi is not None else None
    return cv is not None and cv[1] == _num(RESPONSE_CODES["INTERNAL_SERVER_ERROR"])


def _message_fields(W, o, v):
    """{field: resolved value} of a Message that is built on the outcome's path and denoted by v: the constructor's
    keywords plus every later `<v>.<field> = x` / `<v>.opt.<name> = x` store (the last one wins) -- a constructor keyword
    and an attribute assignment before the message is handed on are the same fact.  None when v is not a
    Message(...) constructed on this path or takes positional / ** arguments."""
    if not (isinstance(v, ast.Call) and W.cls_of(v.func) == "aiocoap.message.Message") or v.args or any(k.arg is None for k in v.keywords):
        return None
    fields = {k.arg: k.value for k in v.keywords}
    kv = K(v)
    for _, s in o.stores():
        path = []
        t = s.target
        while isinstance(t, ast.Attribute):
            path.append(t.attr)
            t = t.value
        if K(t) == kv and path:
            name = ".".join(reversed(path))
            if s.kind == "del":
                fields.pop(name, None)
            else:
                fields[name] = s.value
        elif isinstance(s.target, ast.Subscript):
            b_ = s.target
            while isinstance(b_, (ast.Attribute, ast.Subscript)):
                b_ = b_.value
            if K(b_) == kv:
                return None
    return fields


def _utf8_of(v, what):
    """v (resolved) is the UTF-8 encoding of the attribute chain `what`: x.encode(), x.encode("utf8"), x.encode(encoding="utf-8"),
    bytes(x, "utf8"), str.encode(x, "utf-8") with strict error handling"""
    if not isinstance(v, ast.Call) or any(isinstance(a_, ast.Starred) for a_ in v.args) or any(k.arg is None for k in v.keywords):
        return False
    args, kw = list(v.args), {k.arg: k.value for k in v.keywords}
    if isinstance(v.func, ast.Attribute) and v.func.attr == "encode" and chain(v.func.value) == what:
        pass
    elif chain(v.func) == "str.encode" and args and chain(args[0]) == what:
        args = args[1:]
    elif chain(v.func) == "bytes" and args and chain(args[0]) == what and (len(args) > 1 or "encoding" in kw):
        args = args[1:]
    else:
        return False
    enc = args[0] if args else kw.get("encoding")
    err = args[1] if len(args) > 1 else kw.get("errors")
    if len(args) > 2 or set(kw) - {"encoding", "errors"}:
        return False
    if err is not None and not (isinstance(err, ast.Constant) and err.value == "strict"):
        return False
    if enc is None:
        return True
    return isinstance(enc, ast.Constant) and isinstance(enc.value, str) and enc.value.lower().replace("-", "").replace("_", "") == "utf8"


def _isinstance_decisions(o, W, subject_ok):
    """[(truth, [class qualified names])] of the decisions `isinstance(<subject>, C)` on the outcome"""
    out = []
    for d in o.decisions:
        m = match("isinstance($o, $c)", d.expr)
        if m is None or not subject_ok(m["o"]):
            continue
        cs = m["c"].elts if isinstance(m["c"], ast.Tuple) else [m["c"]]
        out.append((d.val, [W.cls_of(c) for c in cs]))
    return out


# ---------------------------------------------------------------------------
# the event record

EVENT_DECL = "pipe.Pipe.Event"
EVENT_FIELDS = ("message", "exception", "is_last")


def _event_layout(ctx):
    """field names of Pipe.Event by position, read from its declaration (None when the declaration is not a named
    tuple the kit can read: handlers are then only understood through attribute access)"""
    fields = record_fields(ctx.prog, EVENT_DECL)
    if fields is None or not set(EVENT_FIELDS) <= set(fields):
        ctx.note("Pipe.Event is not declared as a named tuple with the fields %s: positional reads of an event are not interpreted" % (EVENT_FIELDS,))
        return None
    return fields


def _event_records(ctx, param):
    """Walker `records` argument declaring `param` (the parameter of an event handler) to hold a Pipe.Event"""
    fields = _event_layout(ctx)
    return {param: fields} if fields is not None else {}


def _event_premise(ctx, W):
    """When a handler read its event by position / by unpacking (W.rec_uses), identifying `event[i]` with the field the
    declaration puts at position i rests on the parameter really being a Pipe.Event: everything handed to
    `_add_event` anywhere in the package, and everything the pipe calls its registered callbacks with, must be a
    Pipe.Event built on the spot (or the very event `_add_event` received).  Decided once per program; if it does not
    hold the clause refuses."""
    if not W.rec_uses:
        return
    prog = ctx.prog
    res = getattr(prog, "_c09_event_premise", None)
    if res is None:
        fields = record_fields(prog, EVENT_DECL)
        bad = []
        is_event = lambda v: isinstance(v, ast.Call) and getattr(v, "_rec", None) == fields and record_arg(v, fields[0]) is not None
        producers = [fi for fi in prog.funcs.values() if any(isinstance(c.func, ast.Attribute) and c.func.attr == "_add_event" for c in calls_in(fi.node))]
        for fi in sorted(producers, key=lambda f: f.qn):
            for o in Walker(prog).run(fi):
                for _, e in o.calls(lambda e: isinstance(e.func, ast.Attribute) and e.func.attr == "_add_event"):
                    if not (len(e.args) == 1 and not e.kw and is_event(e.args[0])):
                        bad.append("%s: %s" % (fi.short, K(e.expr)))
        for short in ("pipe.Pipe._add_event", "pipe.Pipe._end"):
            fi = prog.func(short)
            ps = params(fi)
            for o in Walker(prog, loop_bound=2, elem_records=_entry_records(prog)).run(fi):
                for _, e in o.calls(lambda e: _entry_of_callback(e.func) is not None):
                    ok = len(e.args) == 1 and not e.kw and (is_event(e.args[0]) or (ps and chain(e.args[0]) == ps[0] and not writes_to_name(fi.node, ps[0])))
                    if not ok:
                        bad.append("%s: %s" % (fi.short, K(e.expr)))
        res = sorted(set(bad))
        prog._c09_event_premise = res
    ctx.need(not res, "an event handler reads its event by position, but not everything delivered to handlers is a Pipe.Event built from the declaration: %s" % "; ".join(res[:3]))
    ctx.note("event handlers read events by position: every value handed to _add_event / to registered callbacks is a Pipe.Event(...) of the declared layout %s" % (record_fields(prog, EVENT_DECL),))


def _resolve_handler(prog, W, cv):
    """(FuncInfo, {parameter: resolved value bound at registration}, event parameter) of a callable value (resolved by
    walker W) that is handed to Pipe.on_event: a nested def, a module-level function, a bound method `self.m` -- bare
    or wrapped in functools.partial(f, a.., k=v..), whose arguments then bind the leading parameters.  The event is the
    first parameter left unbound.  None for anything else (lambdas, *args, callables the program does not define)."""
    r = _resolve_callable(prog, W, cv)
    if r is None or not isinstance(r[0].node, ast.FunctionDef):
        return None
    fi, env, free, required = r
    if not free or len(required) > 1 or (required and required[0] != free[0]):
        return None
    return fi, env, free[0]


def _resolve_coroutine(prog, W, call):
    """(FuncInfo, {parameter: resolved argument}) of a coroutine object `f(a..)` (resolved Call) built from an async
    function the program defines (nested def, module-level function, method of self), all parameters bound"""
    if not isinstance(call, ast.Call) or any(isinstance(x, ast.Starred) for x in call.args) or any(k.arg is None for k in call.keywords):
        return None
    r = _resolve_callable(prog, W, call.func, list(call.args), {k.arg: k.value for k in call.keywords})
    if r is None or not isinstance(r[0].node, ast.AsyncFunctionDef) or r[3]:
        return None
    return r[0], r[1]


def _resolve_callable(prog, W, cv, args=(), kw=None):
    """(FuncInfo, env, parameters left unbound, those of them without a default) for the callable value cv applied to
    the (resolved) arguments"""
    bound_args, bound_kw = list(args), dict(kw or {})
    for _ in range(3):
        if isinstance(cv, ast.Call) and chain(cv.func) in ("functools.partial", "partial") and cv.args and not any(isinstance(x, ast.Starred) for x in cv.args) and not any(k.arg is None for k in cv.keywords):
            bound_args = list(cv.args[1:]) + bound_args
            for k in cv.keywords:
                bound_kw.setdefault(k.arg, k.value)
            cv = cv.args[0]
        else:
            break
    fi, skip = None, 0
    if isinstance(cv, ast.Name) and hasattr(cv, "_closure"):
        fi = cv._closure[2]
    elif isinstance(cv, (ast.Name, ast.Attribute)):
        c = chain(cv) or ""
        parts = c.split(".")
        if len(parts) == 2 and parts[0] in ("self", "cls"):
            wfi = getattr(cv, "_fi", None)
            clsqn = W._clsqn(wfi) if wfi is not None else None
            fi = prog.lookup_method(clsqn, parts[1]) if clsqn is not None else None
            if fi is not None and params(fi, skip_self=False)[:1] in (["self"], ["cls"]):
                skip = 1
        elif c:
            fi = prog.funcs.get(W.cls_of(cv) or "")
            if fi is not None and (fi.cls is not None or fi.parent is not None):
                fi = None
    if fi is None or not isinstance(fi.node, (ast.FunctionDef, ast.AsyncFunctionDef)):
        return None
    a = fi.node.args
    if a.vararg or a.kwarg or fi.node.decorator_list:
        return None
    allps = [x.arg for x in a.posonlyargs + a.args]
    ps = allps[skip:]
    if len(bound_args) > len(ps):
        return None
    env = dict(zip(ps, bound_args))
    for k, v in bound_kw.items():
        if k in env or k not in ps + [x.arg for x in a.kwonlyargs]:
            return None
        env[k] = v
    free = [p_ for p_ in ps if p_ not in env]
    required = [p_ for p_ in free if allps.index(p_) < len(allps) - len(a.defaults)]
    return fi, env, free, required


def _registered_handler(ctx, outer, named, recv_ok):
    """the event handler a function registers: what it passes to `<pipe>.on_event(...)` on its returning paths (pipes
    selected by recv_ok(outcome, resolved receiver)), resolved through locals, functools.partial and bound methods.
    Falls back to the nested def of the confirmed tree (`named`) when the registration cannot be read -- the clauses
    then still check that this very function is what is registered.  -> (FuncInfo, env, event parameter)"""
    prog = ctx.prog
    WO = Walker(prog)
    found = {}
    for o in WO.run(outer):
        if o.kind != "return":
            continue
        for _, e in _method_calls(o, "on_event", lambda r: recv_ok(o, r), partial=False):
            cb = e.arg("callback", 0)
            h = _resolve_handler(prog, WO, cb) if cb is not None else None
            if h is not None:
                found[(h[0].qn, h[2], tuple(sorted((k, K(v)) for k, v in h[1].items())))] = h
    if len(found) == 1:
        h = list(found.values())[0]
        if h[0].short != named:
            ctx.note("%s registers %s as its event handler (bound at registration: %s)" % (outer.short, h[0].short, ", ".join("%s=%s" % (k, K(v)) for k, v in sorted(h[1].items())) or "nothing"))
        return h
    fi = prog.func(named)
    ep = params(fi, skip_self=False)
    ctx.need(len(ep) == 1, "%s signature changed" % named)
    return fi, {}, ep[0]


# ---------------------------------------------------------------------------
# C09.a / C09.b  error_to_message.on_event


class _E2M:
    pass


def _e2m(ctx):
    """walk error_to_message.on_event once: every outcome (path, with helper calls followed) classified by the truth of
    `event.message is None`"""
    prog = ctx.prog
    Q = _E2M()
    outer = Q.outer = prog.func("pipe.error_to_message")
    op = params(outer)
    ctx.need(len(op) == 2, "error_to_message signature changed")
    # the handler is whatever error_to_message registers on the pipe it returns
    fi, env0, Q.ev = _registered_handler(ctx, outer, "pipe.error_to_message.<locals>.on_event", lambda o, r: K(r) == K(o.value))
    Q.fi = fi
    Q.old = op[0]
    ctx.need(not writes_to_name(outer.node, Q.old) and not writes_to_name(fi.node, Q.ev), "old pipe or event rebound")
    if fi.parent is outer:
        # a closure reads the old pipe from the enclosing scope (or through a default-argument binding of it)
        ctx.need(_closure_ref(fi.node, Q.old, Q.old), "old pipe rebound")
    W = Q.W = Walker(prog, records=_event_records(ctx, Q.ev))
    Q.outs = W.run(fi, env=env0)
    ctx.need(bool(Q.outs), "on_event has no path")
    _event_premise(ctx, W)
    Q.is_msg = lambda v: chain(v) == Q.ev + ".message"
    Q.is_exc = lambda v: chain(v) == Q.ev + ".exception"
    Q.exc_outs, Q.msg_outs = [], []
    for o in Q.outs:
        n = o.is_none(Q.is_msg)
        ctx.need(n is not None, "on_event has a path that does not decide `%s.message is None` (%s)" % (Q.ev, o.describe()))
        (Q.exc_outs if n else Q.msg_outs).append(o)
    ctx.need(Q.exc_outs and Q.msg_outs, "on_event does not branch on `event.message is None`")
    Q.adds = lambda o, partial=None: [e for _, e in _method_calls(o, "add_response", lambda r: chain(r) == Q.old, partial)]
    Q.renders = lambda o, partial=None: [e for _, e in _method_calls(o, "to_message", Q.is_exc, partial) if not e.args and not e.kw]
    # what an exception event is answered with must be visible to the walk: a Message(...) built on the path or the
    # error's own rendering.  The result of a call the walk could not follow for reasons of its own (recursion, depth,
    # *args, a generator, an overridden method, a function of the confirmed tree) is neither provably right nor
    # provably wrong: refuse, do not guess
    for o in Q.exc_outs:
        for e in Q.adds(o):
            v = e.arg("response", 0)
            if isinstance(v, ast.Await):
                v = v.value
            uf = getattr(v, "_unfollowed", None) if isinstance(v, ast.Call) else None
            if uf is not None and getattr(uf.node, "decorator_list", None):
                # a decorated helper is not the helper's body (lru_cache: one shared mutable Message for every failing
                # request): its result is not "a message built on the spot", the obligations below say so
                uf = None
            ctx.need(uf is None, "the response to an exception event is computed by %s (%s), which the walk cannot follow" % (K(v), uf.short if uf is not None else ""))
    if W.followed:
        ctx.note("helpers followed from on_event: %s" % ", ".join(W.followed))
    return Q


def _anchor(o, Q):
    """a construct of the outcome to pin a finding on: its last add_response, else its last event, else the function"""
    a = Q.adds(o)
    if a:
        return a[-1].fi, a[-1].node
    for e in reversed(o.events):
        if e.kind in ("raise", "call") and not e.pure:
            return e.fi, e.node
    return Q.fi, Q.fi.node


@R.clause("C09.a", "error_to_message.on_event: responses are forwarded with their is_last; every path taken for an exception adds exactly one final response and deregisters; to_message() is wrapped by a handler for Exception (and a None check) that leads to the bare 5.00")
def a(ctx):
    prog = ctx.prog
    Q = _e2m(ctx)
    fi, W = Q.fi, Q.W
    obs = _Obs(ctx)
    # ---- response events: forwarded once, unchanged, with their own is_last; registered exactly while not final
    n_fw = 0
    for o in Q.msg_outs:
        adds = Q.adds(o)
        afi, anode = _anchor(o, Q)
        if not obs.add("every response event is forwarded exactly once", o.kind == "return" and len(adds) == 1 and not any(e.partial for e in adds), afi, anode,
                       detail="%d add_response call(s) on the path [%s]" % (len(adds), o.describe())):
            continue
        e = adds[0]
        n_fw += 1
        obs.add("a response event is forwarded unchanged", Q.is_msg(e.arg("response", 0)), e.fi, e.node)
        obs.add("a response event keeps its is_last flag", W.equiv(o, _last_arg(e), "%s.is_last" % Q.ev), e.fi, e.node)
        rfi, rnode = getattr(o.value, "_fi", fi), origin(o.value)
        if isinstance(rnode, (ast.FunctionDef, ast.AsyncFunctionDef)):
            rnode = e.node  # fell off the end: returns None
            rfi = e.fi
        obs.add("the handler stays registered exactly while responses are not final", W.equiv(o, o.value, "not %s.is_last" % Q.ev), rfi, _stmt_of(cfg_of(rfi), rnode))
    # ---- exception events
    n_add, renders = 0, {}
    for o in Q.exc_outs:
        adds = Q.adds(o)
        afi, anode = _anchor(o, Q)
        full = [e for e in adds if not e.partial]
        if not obs.add("every path taken for an exception event adds a response", o.kind == "return" and len(full) >= 1, afi, anode,
                       detail="path [%s] ends with %s and %d add_response call(s)" % (o.describe(), "an exception" if o.kind == "raise" else "return", len(full))):
            continue
        obs.add("at most one response is added for an exception event", len(adds) == 1, adds[-1].fi, adds[-1].node, detail="%d add_response calls on the path [%s]" % (len(adds), o.describe()))
        n_add += 1
        for e in full:
            obs.add("the response to an exception event is final", o.truth(_last_arg(e)) is True, e.fi, e.node)
        rfi, rnode = getattr(o.value, "_fi", fi), origin(o.value)
        if isinstance(rnode, (ast.FunctionDef, ast.AsyncFunctionDef)):
            rfi, rnode = afi, anode
        obs.add("after an exception event the handler deregisters (returns a false value)", o.truth(o.value) is False, rfi, _stmt_of(cfg_of(rfi), rnode))
        # the renderer
        for r in Q.renders(o):
            renders[id(r.node)] = r
            inst = _isinstance_decisions(o, W, Q.is_exc)
            ok = any(val and all(q is not None and (q == "aiocoap.error.RenderableError" or prog.is_subclass(q, "aiocoap.error.RenderableError")) for q in qs) for val, qs in inst)
            obs.add("to_message() is called only for RenderableError instances", ok, r.fi, r.node)
        if not Q.renders(o):
            # no rendering attempted: the exception must be known not to be renderable
            inst = _isinstance_decisions(o, W, Q.is_exc)
            ok = any((not val) and any(q is not None and (q == "aiocoap.error.RenderableError" or prog.is_subclass("aiocoap.error.RenderableError", q)) for q in qs) for val, qs in inst)
            obs.add("every RenderableError is answered through its own to_message()", ok, afi, anode, detail="path [%s]" % o.describe())
        # what is sent: the rendering only when it was produced and is not None
        for e in full:
            v = e.arg("response", 0)
            mine = [r for r in Q.renders(o, partial=False) if r.expr is v]
            if mine:
                kv = K(v)
                obs.add("a renderer that produces no message falls back to the bare 5.00 as well", o.is_none(lambda s: K(s) == kv) is False, e.fi, e.node,
                        detail="the rendering is passed on without being tested against None on the path [%s]" % o.describe())
            else:
                failed = bool(Q.renders(o)) and (any(r.partial for r in Q.renders(o)) or any(o.is_none(lambda s, r=r: s is r.expr or K(s) == K(r.expr)) for r in Q.renders(o)))
                if failed:
                    obs.add("the handler's path sends the bare 5.00 and nothing else", _bare_500(prog, W, v), e.fi, e.node, detail="sends %s" % K(v))
    for r in renders.values():
        # an exception leaving the renderer (any Exception) must be taken by a handler, here or in a function this was followed from
        h = W.exception_safe(r, "Exception")
        obs.add("a failing error renderer is caught by a handler for Exception", h is not None, r.fi, r.node)
    obs.flush()
    ctx.floor("forwarding sites on the message arm", n_fw, 1)
    ctx.floor("add_response sites on the exception arm", n_add, 1)
    ctx.floor("to_message() calls on the event's exception", len(renders), 1)
    # ---- the handler is what listens on the inner pipe, and the inner pipe is returned
    WO = Walker(prog)
    oouts = WO.run(Q.outer)
    ctx.need(bool(oouts), "error_to_message has no path")
    for o in oouts:
        ok = o.kind == "return"
        node = Q.outer.node
        if ok:
            kv = K(o.value)
            regs = [e for _, e in _method_calls(o, "on_event", lambda r: True, partial=False) if e.arg("callback", 0) is not None and (_resolve_handler(prog, WO, e.arg("callback", 0)) or (None,))[0] is fi]
            ok = any(K(e.func.value) == kv for e in regs) and not isinstance(o.value, ast.Constant)
            node = regs[0].node if regs else origin(o.value)
        obs.add("the pipe handed to the responder is the one this handler listens on", ok, Q.outer, node if not isinstance(node, (ast.FunctionDef, ast.AsyncFunctionDef)) else None,
                construct=None if not isinstance(node, (ast.FunctionDef, ast.AsyncFunctionDef)) else "error_to_message")
    obs.flush()


def _stmt_of(cfg, node):
    """the statement a (sub)expression belongs to (for stable finding keys)"""
    n = node
    while n is not None and not isinstance(n, ast.stmt):
        n = cfg.parent.get(id(n))
    return n if n is not None else node


@R.clause("C09.b", "nothing derived from the exception reaches the 5.00: every Message built in on_event is Message(code=INTERNAL_SERVER_ERROR) and is not modified; the non-renderable arm sends only that")
def b(ctx):
    prog = ctx.prog
    Q = _e2m(ctx)
    fi, W = Q.fi, Q.W
    obs = _Obs(ctx)
    is_message = lambda v: isinstance(v, ast.Call) and W.cls_of(v.func) == "aiocoap.message.Message"
    built = {}
    for o in Q.outs:
        for _, e in o.calls(lambda e: is_message(e.expr)):
            built[id(e.node)] = e
            obs.add("a message built for a failed request is exactly Message(code=5.00): no payload, no option, nothing taken from the exception", _bare_500(prog, W, e.expr), e.fi, e.node)
        # the fallback message is not touched between construction and add_response
        for _, s in o.stores():
            base = s.target
            while isinstance(base, (ast.Attribute, ast.Subscript)):
                base = base.value
            if is_message(base):
                obs.add("the fallback message is not modified after construction", False, s.fi, s.node)
        for _, e in o.calls(lambda e: isinstance(e.func, ast.Attribute) and is_message(e.func.value)):
            obs.add("the fallback message is not modified after construction", False, e.fi, e.node)
    # what each add_response on the exception arm can carry
    for o in Q.exc_outs:
        for e in Q.adds(o):
            v = e.arg("response", 0)
            rendered = [r for r in Q.renders(o, partial=False) if r.expr is v]
            if rendered:
                inst = _isinstance_decisions(o, W, Q.is_exc)
                ok = any(val for val, qs in inst)
            else:
                ok = v is not None and _bare_500(prog, W, v)
            obs.add("an exception event is answered by the error's own rendering (renderable arm only) or by the bare 5.00", ok, e.fi, e.node, detail="carries: %s" % K(v))
    obs.flush()
    ctx.floor("Message(...) constructions in on_event", len(built), 1)
    # log calls may mention the exception; they are not part of the response
    ctx.note("log.* calls on the exception arm take the exception as argument; they do not flow into add_response arguments (checked on the resolved argument of every add_response of every path)")


# ---------------------------------------------------------------------------
# C09.c


@R.clause("C09.c", "run_driving_pipe.wrapped awaits the render coroutine inside a handler for Exception that reports it through pipe.add_exception; Context.render_to_pipe runs _render_to_pipe(pipe) this way; add_exception events are terminal")
def c(ctx):
    prog = ctx.prog
    outer = prog.func("pipe.run_driving_pipe")
    op = params(outer)
    ctx.need(len(op) >= 2 and not writes_to_name(outer.node, op[0]) and not writes_to_name(outer.node, op[1]), "run_driving_pipe signature changed")
    pipe, coro = op[0], op[1]
    # the wrapper is whatever coroutine run_driving_pipe makes a task of: the nested def of the confirmed tree, or an
    # async function (module level, nested) applied to the pipe and the coroutine
    is_task = lambda e: (isinstance(e.func, ast.Attribute) and e.func.attr in ("create_task", "ensure_future")) or chain(e.func) in ("create_task", "ensure_future")
    WO = Walker(prog)
    oouts = [o for o in WO.run(outer) if o.kind == "return"]
    bodies = {}
    for o in oouts:
        for _, e in o.calls(is_task, partial=False):
            c0 = e.arg("coro", 0)
            r = _resolve_coroutine(prog, WO, c0) if c0 is not None else None
            if r is not None:
                bodies[(r[0].qn, tuple(sorted((k, K(v)) for k, v in r[1].items())))] = r
    if len(bodies) == 1:
        fi, env0 = list(bodies.values())[0]
    else:
        fi, env0 = prog.func("pipe.run_driving_pipe.<locals>.wrapped"), {}
    if fi.parent is outer:
        ctx.need(_closure_ref(fi.node, coro, coro) and _closure_ref(fi.node, pipe, pipe), "wrapped() does not see run_driving_pipe's pipe / coroutine")
    else:
        ctx.note("run_driving_pipe runs %s as its task" % fi.short)
    obs = _Obs(ctx)
    W = Walker(prog)
    outs = W.run(fi, env=env0)
    n_aw = 0
    for o in outs:
        aws = [(j, e) for j, e in enumerate(o.events) if e.kind == "await" and chain(e.value) == coro]
        for j, aw in aws:
            n_aw += 1
            obs.add("every Exception raised by the render coroutine is caught", W.exception_safe(aw, "Exception") is not None, aw.fi, aw.node)
            if not aw.partial:
                continue
            # the coroutine raised: what the handler caught is the very exception raised at this await
            reps = [e for jj, e in _method_calls(o, "add_exception", lambda r: chain(r) == pipe, partial=False) if jj > j and len(e.args) == 1 and getattr(e.args[0], "_implicit", False)
                    and contains(origin(e.args[0]), aw.node)]
            obs.add("the caught exception is reported as the pipe's terminal event on every path of the handler", o.kind == "return" and bool(reps), aw.fi, aw.node, detail="path [%s]" % o.describe())
    obs.flush()
    ctx.floor("awaits of the render coroutine", n_aw, 1)
    # the task runs the wrapper
    for o in oouts:
        tasks = [e for _, e in o.calls(lambda e: is_task(e) and e.arg("coro", 0) is not None and (_resolve_coroutine(prog, WO, e.arg("coro", 0)) or (None,))[0] is fi, partial=False)]
        obs.add("run_driving_pipe always starts a task running the wrapper", bool(tasks), outer, tasks[0].node if tasks else None, construct=None if tasks else "run_driving_pipe")
    obs.flush()
    # Context.render_to_pipe
    cf = prog.func("protocol.Context.render_to_pipe")
    cp = params(cf)
    ctx.need(len(cp) == 1 and not writes_to_name(cf.node, cp[0]), "Context.render_to_pipe signature changed")
    WC = Walker(prog)
    n_runs = 0
    for o in WC.run(cf):
        if o.kind != "return":
            continue
        runs = [e for _, e in o.calls(lambda e: WC.cls_of(e.func) == "aiocoap.pipe.run_driving_pipe", partial=False)]
        obs.add("every request handed to the context is rendered", bool(runs), cf, runs[0].node if runs else None, construct=None if runs else "Context.render_to_pipe", detail="path [%s]" % o.describe())
        for e in runs:
            n_runs += 1
            v0, v1 = e.arg("pipe", 0), e.arg("coroutine", 1)
            ok0 = isinstance(v0, ast.Call) and WC.cls_of(v0.func) == "aiocoap.pipe.error_to_message" and v0.args and chain(v0.args[0]) == cp[0]
            obs.add("exceptions of the render task are routed into error_to_message around the request's pipe", ok0, e.fi, e.node)
            ok1 = isinstance(v1, ast.Call) and chain(v1.func) == "self._render_to_pipe" and len(v1.args) == 1 and chain(v1.args[0]) == cp[0] and not v1.keywords
            obs.add("the render task renders into the request's pipe", ok1, e.fi, e.node)
    obs.flush()
    ctx.floor("run_driving_pipe calls in Context.render_to_pipe", n_runs, 1)
    # add_exception produces a terminal event, add_response one with the caller's is_last
    layout = _event_layout(ctx)
    for short, desc, check in (
        ("pipe.Pipe.add_exception", "add_exception emits an event that carries the exception and is final",
         lambda fld, ps, f: chain(fld("exception")) == ps[0] and isinstance(fld("is_last"), ast.Constant) and fld("is_last").value is True),
        ("pipe.Pipe.add_response", "add_response emits an event that carries the response and the caller's is_last",
         lambda fld, ps, f: chain(fld("message")) == ps[0] and chain(fld("is_last")) == ps[1] and not writes_to_name(f.node, ps[1]) and not writes_to_name(f.node, ps[0])),
    ):
        af = prog.func(short)
        ap = params(af)
        WA = Walker(prog)
        for o in WA.run(af):
            if o.kind != "return":
                continue
            evs = [e for _, e in _method_calls(o, "_add_event", lambda r: chain(r) == "self", partial=False)]
            ok = len(evs) == 1 and len(evs[0].args) == 1
            if ok:
                ev = evs[0].args[0]
                if isinstance(ev, ast.Call) and getattr(ev, "_rec", None) is not None:
                    # an Event built from the declaration the walker resolved: fields by keyword or by declared position
                    ok = ev._rec == layout and check(lambda name, ev=ev: record_arg(ev, name), ap, af)
                else:
                    # declaration not readable as a named tuple: the confirmed layout (message, exception, is_last)
                    ok = layout is None and isinstance(ev, ast.Call) and chain(ev.func) in ("self.Event", "Pipe.Event", "type(self).Event") and not any(isinstance(x, ast.Starred) for x in ev.args) \
                        and check(lambda name, ev=ev: _kw(ev, name, EVENT_FIELDS.index(name)), ap, af)
            obs.add(desc, bool(ok), af, evs[0].node if evs else None, construct=None if evs else short.split(".", 1)[1])
    obs.flush()


# ---------------------------------------------------------------------------
# C09.d


@R.clause("C09.d", "Context._render_to_pipe without a site: one final 4.04, then return; with a site: delegation to its render_to_pipe")
def d(ctx):
    prog = ctx.prog
    fi = prog.func("protocol.Context._render_to_pipe")
    p = params(fi)
    ctx.need(len(p) == 1 and not writes_to_name(fi.node, p[0]), "Context._render_to_pipe signature changed")
    W = Walker(prog)
    outs = W.run(fi)
    ctx.need(bool(outs), "Context._render_to_pipe has no path")
    obs = _Obs(ctx)
    is_site = lambda v: chain(v) == "self.serversite"
    n_nosite = n_site = 0
    for o in outs:
        n = o.is_none(is_site)
        ctx.need(n is not None, "_render_to_pipe has a path that does not decide `self.serversite is None` (%s)" % o.describe())
        adds = [e for _, e in _method_calls(o, "add_response", lambda r: chain(r) == p[0])]
        full = [e for e in adds if not e.partial]
        dels = [e for _, e in _method_calls(o, "render_to_pipe", is_site)]
        if n:
            n_nosite += 1
            for e in dels:
                obs.add("the site is only consulted when there is one", False, e.fi, e.node)
            if not obs.add("a context without a site answers the request", o.kind == "return" and bool(full), full[0].fi if full else fi, full[0].node if full else None,
                           construct=None if full else "Context._render_to_pipe", detail="path [%s]" % o.describe()):
                continue
            obs.add("exactly one response is added without a site", len(adds) == 1, adds[-1].fi, adds[-1].node, detail="%d add_response calls on the path [%s]" % (len(adds), o.describe()))
            for e in full:
                obs.add("the no-site response is final", o.truth(_last_arg(e)) is True, e.fi, e.node)
                v = e.arg("response", 0)
                flds = _message_fields(W, o, v)
                code = flds.get("code") if flds is not None else None
                cv = _code_value(prog, code._fi.module, code) if code is not None and getattr(code, "_fi", None) is not None else None
                obs.add("the no-site response is 4.04 Not Found", cv is not None and cv[1] == _num(RESPONSE_CODES["NOT_FOUND"]), e.fi, e.node, detail="code %s" % (cv,))
        else:
            if o.kind != "return":
                continue
            n_site += 1
            done = [e for e in dels if not e.partial]
            if not obs.add("with a site every normal path delegates to it", bool(done), done[0].fi if done else fi, done[0].node if done else None,
                           construct=None if done else "Context._render_to_pipe", detail="path [%s]" % o.describe()):
                continue
            for e in done:
                obs.add("the site renders into the request's pipe", len(e.args) == 1 and chain(e.args[0]) == p[0] and not e.kw, e.fi, e.node)
                obs.add("the site's rendering is awaited inside the render task", e.awaited, e.fi, e.node)
            for e in adds:
                obs.add("with a site the context adds no response of its own (the site's rendering is the one response)", False, e.fi, e.node)
    ctx.need(n_nosite and n_site, "_render_to_pipe does not branch on `self.serversite is None`")
    obs.flush()


# ---------------------------------------------------------------------------
# C09.e


def _handler_name_ok(nm, req):
    """nm (resolved) spells "render_" + lower-case name of the request's method: %-format, f-string, concatenation or
    str.format; the method name as str(code) or code.name (Code.__str__ returns self.name for request codes)"""
    def lowered(x):
        return match("str(%s.code).lower()" % req, x) is not None or match("%s.code.name.lower()" % req, x) is not None or match("format(%s.code).lower()" % req, x) is not None
    mm = match('"render_%s" % $x', nm)
    if mm is not None:
        x = mm["x"]
        if isinstance(x, ast.Tuple) and len(x.elts) == 1:
            x = x.elts[0]
        return lowered(x)
    if isinstance(nm, ast.JoinedStr):
        parts = nm.values
        return len(parts) == 2 and isinstance(parts[0], ast.Constant) and parts[0].value == "render_" and isinstance(parts[1], ast.FormattedValue) \
            and parts[1].conversion in (-1, 115) and parts[1].format_spec is None and lowered(parts[1].value)
    mm = match('"render_" + $x', nm)
    if mm is not None:
        return lowered(mm["x"])
    mm = match('"render_{}".format($x)', nm) or match('"render_{0}".format($x)', nm)
    if mm is not None:
        return lowered(mm["x"])
    return False


# ---- what a default-code expression evaluates to, per request method ---------------------------------------------
#
# The property fixes the default success code for EVERY request method.  A default that is looked up in a mapping is
# therefore decided like the if/elif chain it replaces: the mapping is read as the finite function it denotes (its rows,
# what an absent key does under the kind of lookup used: `m[k]` raises KeyError, `m.get(k)` gives None, `m.get(k, d)`
# gives d, a defaultdict gives its factory's value), and the lookup is evaluated for each of the seven methods.  A
# method without a row under `m[k]` is a KeyError leaving render after the handler succeeded -- a violation, not a
# shape the rule cannot read.  Only a mapping whose content cannot be known statically (computed, mutated somewhere,
# overridden in a subclass) is refused.


class _Table:
    """a statically known mapping: rows = [(("num", int) | ("name", str), value expr, module)] (later rows win),
    missing = (value expr, module) a subscript of an absent key evaluates to (defaultdict) or None (KeyError)"""

    def __init__(self, rows, missing=None):
        self.rows = rows
        self.missing = missing

    def row(self, key):
        for k, v, m in reversed(self.rows):
            if k == key:
                return v, m
        return None


def _mod_of(e, mod):
    fi = getattr(e, "_fi", None)
    return fi.module if fi is not None else mod


def _any_receiver_stores(tree, field):
    """stores through any attribute chain ending in .<field>, anywhere in the tree (nested functions included)"""
    recv = set()
    for n in ast.walk(tree):
        if isinstance(n, ast.Attribute) and n.attr == field:
            c = chain(n)
            if c:
                recv.add(c)
    out = []
    for c in sorted(recv):
        out.extend(stores_to(tree, c))
    return out


def _closed_module_name(prog, mod, name):
    """the module-level name is bound by exactly one top-level assignment and nothing in the package rebinds or mutates
    it (in its module: under its name or an alias; elsewhere: under the name it is imported as, or as an attribute)"""
    qn = mod.name + "." + name
    own = stores_to(mod.tree, name)
    top = [n for k, n in own if k == "assign" and any(n is st for st in mod.tree.body)]
    if len(top) != 1 or len(own) != 1:
        return False
    for m in prog.modules.values():
        if _any_receiver_stores(m.tree, name):
            return False
        if m is mod:
            continue
        for alias, tgt in m.imports.items():
            if tgt == qn or prog.canonical(tgt) == qn:
                if stores_to(m.tree, alias):
                    return False
    return True


def _named_definition(prog, W, d, mod):
    """(defining expression, its module) of the closed module constant / class attribute the chain d denotes, else None"""
    c = chain(d)
    if c is None:
        return None
    parts = c.split(".")
    fi = getattr(d, "_fi", None)
    try:
        if parts[0] in ("self", "cls") and len(parts) == 2 and fi is not None and W._clsqn(fi) is not None:
            owner_q = W._clsqn(fi)
        elif len(parts) >= 2 and prog.resolve_in_module(mod, ".".join(parts[:-1])) in prog.classes:
            owner_q = prog.resolve_in_module(mod, ".".join(parts[:-1]))
        else:
            owner_q = None
        if owner_q is not None:
            expr, ci = prog.class_attr(owner_q, parts[-1])
            if expr is None:
                return None
            # one binding in the class body, no override below the class the lookup starts from, no store anywhere
            if len(stores_to(ci.node, parts[-1], nested=False)) != 1:
                return None
            for q in prog.subclasses(owner_q):
                sc = prog.classes.get(q)
                if sc is not None and sc is not ci and parts[-1] in sc.attrs and q not in prog.mro(ci.qn):
                    return None
            if any(_any_receiver_stores(m.tree, parts[-1]) for m in prog.modules.values()):
                return None
            return expr, ci.module
        q = prog.resolve_in_module(mod, c)
        owner, _, name = q.rpartition(".")
        if owner not in prog.modules:
            return None
        dm = prog.modules[owner]
        expr = prog.module_const(owner, name)
        if not _closed_module_name(prog, dm, name):
            return None
        return expr, dm
    except AnchorError:
        return None


def _literal_elements(prog, W, e, mod, depth=0):
    """elements of a literal sequence / set display (or a closed constant denoting one)"""
    if depth > 4:
        return None
    if isinstance(e, (ast.Tuple, ast.List, ast.Set)):
        return None if any(isinstance(x, ast.Starred) for x in e.elts) else [(x, _mod_of(x, mod)) for x in e.elts]
    if isinstance(e, ast.Call) and chain(e.func) in ("tuple", "list", "set", "frozenset", "sorted") and len(e.args) == 1 and not e.keywords:
        return _literal_elements(prog, W, e.args[0], mod, depth + 1)
    if isinstance(e, (ast.Name, ast.Attribute)):
        nd = _named_definition(prog, W, e, _mod_of(e, mod))
        if nd is not None:
            return _literal_elements(prog, W, nd[0], nd[1], depth + 1)
    return None


def _table_key(prog, k, mod):
    cv = _code_value(prog, mod, k)
    if cv is not None:
        return ("num", cv[1])
    if isinstance(k, ast.Constant) and type(k.value) is int:
        return ("num", k.value)
    if isinstance(k, ast.Constant) and type(k.value) is str:
        return ("name", k.value)
    m = match("$c.name", k) or match("str($c)", k)
    if m is not None:
        cv = _code_value(prog, mod, m["c"])
        if cv is not None:
            return ("name", cv[0])
    m = match("$c.value", k) or match("int($c)", k)
    if m is not None:
        cv = _code_value(prog, mod, m["c"])
        if cv is not None:
            return ("num", cv[1])
    return None



# ---- closed expressions over Code members ---------------------------------------------------------------------------
#
# A table may be *computed* from the Code enum (a comprehension over its members, filtered by one of its predicates,
# with rows derived from the member).  Such a table is as statically known as a display: the members are the
# int-valued names of the class body, the predicates are one-line methods over `self` as a number.  Everything the
# evaluator does not know raises _NoVal, and the table is then "not statically known" (the check refuses as before).


class _NoVal(Exception):
    pass


class _CodeV(int):
    """a member of Code (an IntEnum: computes and compares as its number), or an unregistered number"""

    def __new__(cls, num, cname):
        o = int.__new__(cls, num)
        o.cname = cname
        return o


_STR_METHODS = ("lower", "upper", "title", "capitalize", "casefold", "strip", "replace", "format", "removeprefix", "removesuffix", "startswith", "endswith", "isupper", "islower")


def _code_members(prog):
    """[(member name, number)] of numbers.codes.Code in definition order"""
    ci = prog.cls("numbers.codes.Code")
    out = []
    for name, expr in ci.attrs.items():
        if name.startswith("_"):
            continue
        try:
            v = norm.consteval(expr)
        except norm.NormError:
            continue
        if type(v) is int:
            out.append((name, v))
    return out


def _unknown_code_name(prog):
    """the name Code gives a number that is not a registered member (its _missing_ hook), None when there is no such hook
    (then only registered codes exist)"""
    ci = prog.cls("numbers.codes.Code")
    f = ci.methods.get("_missing_")
    if f is None:
        return None
    for n in ast.walk(f.node):
        if isinstance(n, ast.Assign) and len(n.targets) == 1 and isinstance(n.targets[0], ast.Attribute) and n.targets[0].attr == "_name_" \
                and isinstance(n.value, ast.Constant) and type(n.value.value) is str:
            return n.value.value
    return ""


def _static_value(prog, e, mod, env=None, leaf=None, depth=0):
    """Python value of a closed expression: constants, Code members (-> _CodeV), names bound in env, arithmetic,
    comparisons, boolean operators, conditional expressions, tuples, %-formatting / f-strings / str methods, str()/int()
    of these, member.name / member.value, and calls of the one-line predicates of Code on a member.  `leaf(e, mod)` is
    asked first for every node (returns NotImplemented to decline).  Raises _NoVal."""
    if depth > 12:
        raise _NoVal()
    env = env or {}
    rec = lambda x, env_=env: _static_value(prog, x, _mod_of(x, mod), env_, leaf, depth + 1)
    if leaf is not None:
        r = leaf(e, mod)
        if r is not NotImplemented:
            return r
    if isinstance(e, ast.Constant):
        return e.value
    if isinstance(e, ast.Name) and e.id in env:
        return env[e.id]
    if isinstance(e, (ast.Name, ast.Attribute)) and mod is not None:
        cv = _code_value(prog, mod, e)
        if cv is not None:
            return _CodeV(cv[1], cv[0])
    if isinstance(e, ast.Attribute):
        v = rec(e.value)
        if isinstance(v, _CodeV):
            if e.attr in ("name", "_name_"):
                return v.cname
            if e.attr in ("value", "_value_"):
                return int(v)
            ci = prog.cls("numbers.codes.Code")
            cv = ci.attrs.get(e.attr)
            if cv is not None and not e.attr.startswith("_"):
                # a member reached through a member (self.EMPTY)
                try:
                    n = norm.consteval(cv)
                except norm.NormError:
                    raise _NoVal()
                if type(n) is int:
                    return _CodeV(n, e.attr)
        raise _NoVal()
    if isinstance(e, ast.Tuple) and not any(isinstance(x, ast.Starred) for x in e.elts):
        return tuple(rec(x) for x in e.elts)
    if isinstance(e, ast.UnaryOp):
        v = rec(e.operand)
        try:
            if isinstance(e.op, ast.Not):
                return not v
            if isinstance(e.op, ast.USub):
                return -v
            if isinstance(e.op, ast.UAdd):
                return +v
            if isinstance(e.op, ast.Invert):
                return ~int(v)
        except TypeError:
            raise _NoVal()
    if isinstance(e, ast.BoolOp):
        v = None
        for x in e.values:
            v = rec(x)
            if bool(v) == isinstance(e.op, ast.Or):
                return v
        return v
    if isinstance(e, ast.IfExp):
        return rec(e.body) if rec(e.test) else rec(e.orelse)
    if isinstance(e, ast.Compare):
        l = rec(e.left)
        for op, c in zip(e.ops, e.comparators):
            r = rec(c)
            try:
                if isinstance(op, ast.Eq):
                    t = l == r
                elif isinstance(op, ast.NotEq):
                    t = l != r
                elif isinstance(op, ast.Lt):
                    t = l < r
                elif isinstance(op, ast.LtE):
                    t = l <= r
                elif isinstance(op, ast.Gt):
                    t = l > r
                elif isinstance(op, ast.GtE):
                    t = l >= r
                elif isinstance(op, (ast.Is, ast.IsNot)):
                    # identity of enum members / None / bools is equality of (kind, value)
                    if not all(isinstance(x, (_CodeV, bool)) or x is None for x in (l, r)):
                        raise _NoVal()
                    same = (type(l) is type(r)) and l == r and getattr(l, "cname", None) == getattr(r, "cname", None)
                    t = same if isinstance(op, ast.Is) else not same
                elif isinstance(op, (ast.In, ast.NotIn)):
                    if not isinstance(r, (tuple, str)):
                        raise _NoVal()
                    t = (l in r) if isinstance(op, ast.In) else (l not in r)
                else:
                    raise _NoVal()
            except TypeError:
                raise _NoVal()
            if not t:
                return False
            l = r
        return True
    if isinstance(e, ast.BinOp):
        l, r = rec(e.left), rec(e.right)
        try:
            if isinstance(e.op, ast.Mod) and isinstance(l, str):
                args = r if isinstance(r, tuple) else (r,)
                # %s of a Code is its __str__: the member name for request codes (see _handler_name_ok); other
                # conversions of a Code are not interpreted
                if any(isinstance(a, _CodeV) for a in args):
                    raise _NoVal()
                return l % args
            if isinstance(l, str) != isinstance(r, str):
                raise _NoVal()
            if isinstance(e.op, ast.Add):
                return l + r
            if isinstance(l, str):
                raise _NoVal()
            if isinstance(e.op, ast.Sub):
                return l - r
            if isinstance(e.op, ast.Mult):
                return l * r
            if isinstance(e.op, ast.BitAnd):
                return l & r
            if isinstance(e.op, ast.BitOr):
                return l | r
            if isinstance(e.op, ast.RShift):
                return l >> r
            if isinstance(e.op, ast.LShift) and 0 <= r < 64:
                return l << r
            if isinstance(e.op, ast.FloorDiv):
                return l // r
            if isinstance(e.op, ast.Mod):
                return l % r
        except (TypeError, ValueError, ZeroDivisionError):
            raise _NoVal()
        raise _NoVal()
    if isinstance(e, ast.JoinedStr):
        out = ""
        for part in e.values:
            if isinstance(part, ast.Constant) and isinstance(part.value, str):
                out += part.value
            elif isinstance(part, ast.FormattedValue) and part.conversion in (-1, 115) and part.format_spec is None:
                v = rec(part.value)
                if not isinstance(v, str):
                    raise _NoVal()
                out += v
            else:
                raise _NoVal()
        return out
    if isinstance(e, ast.Call) and not e.keywords and not any(isinstance(a, ast.Starred) for a in e.args):
        fn = chain(e.func)
        if fn in ("str", "format") and len(e.args) == 1:
            v = rec(e.args[0])
            if isinstance(v, str):
                return v
            if isinstance(v, _CodeV):
                # Code.__str__: the name for codes in the request range (checked on the class: is_request of the number)
                if _code_predicate(prog, v, "is_request") is True:
                    return v.cname
                raise _NoVal()
            if type(v) is int:
                return str(v)
            raise _NoVal()
        if fn == "int" and len(e.args) == 1:
            v = rec(e.args[0])
            if isinstance(v, int) and not isinstance(v, bool):
                return int(v)
            raise _NoVal()
        if isinstance(e.func, ast.Attribute):
            recv = rec(e.func.value)
            if isinstance(recv, str) and e.func.attr in _STR_METHODS:
                args = [rec(a) for a in e.args]
                if any(isinstance(a, _CodeV) for a in args):
                    raise _NoVal()
                try:
                    return getattr(recv, e.func.attr)(*args)
                except Exception:
                    raise _NoVal()
            if isinstance(recv, _CodeV) and not e.args:
                r = _code_predicate(prog, recv, e.func.attr, depth + 1)
                if r is not None:
                    return r
    raise _NoVal()


def _code_predicate(prog, codev, name, depth=0):
    """value of the argument-less method `name` of Code on the member / number codev, when the method is a single
    `return <closed expression over self>` (docstring aside); None when it is not of that shape"""
    ci = prog.cls("numbers.codes.Code")
    f = ci.methods.get(name)
    if f is None or depth > 6:
        return None
    a = f.node.args
    if len(a.args) != 1 or a.posonlyargs or a.kwonlyargs or a.vararg or a.kwarg or f.node.decorator_list:
        return None
    body = [st for st in f.node.body if not (isinstance(st, ast.Expr) and isinstance(st.value, ast.Constant))]
    if len(body) != 1 or not isinstance(body[0], ast.Return) or body[0].value is None:
        return None
    try:
        return _static_value(prog, body[0].value, ci.module, {a.args[0].arg: codev}, None, depth + 1)
    except _NoVal:
        return None


def _subst_name(e, name, repl):
    """copy of e with every load of the local `name` replaced by repl (nodes are copied shallowly, so tags such as _fi
    stay shared); scopes that could rebind the name are not entered"""
    import copy

    def go(n):
        if isinstance(n, ast.Name):
            return repl if (n.id == name and isinstance(n.ctx, ast.Load)) else n
        if isinstance(n, (ast.Lambda, ast.ListComp, ast.SetComp, ast.DictComp, ast.GeneratorExp, ast.NamedExpr)):
            if any(isinstance(x, ast.Name) and x.id == name for x in ast.walk(n)):
                raise _NoVal()
            return n
        c = copy.copy(n)
        for f_, v in ast.iter_fields(n):
            if isinstance(v, ast.AST):
                setattr(c, f_, go(v))
            elif isinstance(v, list):
                setattr(c, f_, [go(x) if isinstance(x, ast.AST) else x for x in v])
        return c

    return go(e)


def _enum_elements(prog, e, mod):
    """iteration over the Code class itself (`Code`, list(Code), tuple(Code), sorted(Code)): one element per member"""
    while isinstance(e, ast.Call) and chain(e.func) in ("tuple", "list", "sorted", "iter") and len(e.args) == 1 and not e.keywords:
        e = e.args[0]
    c = chain(e)
    if c is None or mod is None:
        return None
    try:
        q = prog.resolve_in_module(mod, c)
    except AnchorError:
        return None
    if q != "aiocoap.numbers.codes.Code":
        return None
    seen, out = set(), []
    for name, num in _code_members(prog):
        if num in seen:
            continue  # an alias: iteration yields each value once
        seen.add(num)
        out.append((ast.Attribute(value=e, attr=name, ctx=ast.Load()), mod))
    return out


def _table(prog, W, d, mod, depth=0):
    """the _Table a mapping expression denotes; None when its content is not statically known.  Read alike: a dict
    display (with ** of known tables), dict(<table or pairs>), dict.fromkeys(<literal>, v), a dict comprehension over a
    literal whose key is the loop variable, `a | b`, .copy(), MappingProxyType(..), defaultdict(lambda: v[, table]),
    and a closed module constant / class attribute bound to any of these"""
    if depth > 6 or d is None:
        return None
    mod = _mod_of(d, mod)
    sub = lambda x, m_=None: _table(prog, W, x, m_ or mod, depth + 1)
    if isinstance(d, ast.Dict):
        rows = []
        for k_, v_ in zip(d.keys, d.values):
            if k_ is None:
                t = sub(v_)
                if t is None:
                    return None
                rows.extend(t.rows)
                continue
            key = _table_key(prog, k_, _mod_of(k_, mod))
            if key is None:
                return None
            rows.append((key, v_, _mod_of(v_, mod)))
        return _Table(rows)
    if isinstance(d, (ast.List, ast.Tuple)):
        # pairs
        rows = []
        for el in d.elts:
            if not (isinstance(el, (ast.Tuple, ast.List)) and len(el.elts) == 2):
                return None
            key = _table_key(prog, el.elts[0], _mod_of(el.elts[0], mod))
            if key is None:
                return None
            rows.append((key, el.elts[1], _mod_of(el.elts[1], mod)))
        return _Table(rows)
    if isinstance(d, ast.BinOp) and isinstance(d.op, ast.BitOr):
        a, b = sub(d.left), sub(d.right)
        if a is None or b is None:
            return None
        return _Table(a.rows + b.rows, a.missing)
    if isinstance(d, ast.DictComp):
        # {x: f(x) for x in <literal or the Code enum> if p(x)}: one row per element that passes the (statically
        # evaluated) filters, the value with the element substituted for the loop variable
        if len(d.generators) != 1:
            return None
        g = d.generators[0]
        if g.is_async or not isinstance(g.target, ast.Name) or not (isinstance(d.key, ast.Name) and d.key.id == g.target.id):
            return None
        els = _literal_elements(prog, W, g.iter, mod)
        if els is None:
            els = _enum_elements(prog, g.iter, mod)
        if els is None:
            return None
        rows = []
        for x, xm in els:
            key = _table_key(prog, x, xm)
            if key is None:
                return None
            if xm is not mod and any(isinstance(n, ast.Name) and n.id == g.target.id for p_ in [d.value] + list(g.ifs) for n in ast.walk(p_)):
                return None  # the element is spelled in another module's names than the expression it is substituted into
            try:
                if not all(_static_value(prog, _subst_name(f_, g.target.id, x), mod) for f_ in g.ifs):
                    continue
                val = _subst_name(d.value, g.target.id, x)
            except _NoVal:
                return None
            rows.append((key, val, mod))
        return _Table(rows)
    if isinstance(d, ast.Call) and not any(isinstance(a, ast.Starred) for a in d.args) and not any(k.arg is None for k in d.keywords):
        fn = chain(d.func) or ""
        last = fn.split(".")[-1]
        if fn == "dict" and len(d.args) == 1 and not d.keywords:
            return sub(d.args[0])
        if last in ("MappingProxyType", "frozendict") and len(d.args) == 1 and not d.keywords:
            return sub(d.args[0])
        if isinstance(d.func, ast.Attribute) and d.func.attr == "copy" and not d.args and not d.keywords:
            return sub(d.func.value)
        if fn == "dict.fromkeys" and 1 <= len(d.args) <= 2 and not d.keywords:
            els = _literal_elements(prog, W, d.args[0], mod)
            if els is None:
                return None
            val = d.args[1] if len(d.args) == 2 else ast.Constant(value=None)
            rows = []
            for x, xm in els:
                key = _table_key(prog, x, xm)
                if key is None:
                    return None
                rows.append((key, val, _mod_of(val, mod)))
            return _Table(rows)
        if last == "defaultdict" and 1 <= len(d.args) <= 2 and not d.keywords:
            f = d.args[0]
            a = f.args if isinstance(f, ast.Lambda) else None
            if a is None or a.posonlyargs or a.args or a.kwonlyargs or a.vararg or a.kwarg:
                return None
            inner = sub(d.args[1]) if len(d.args) == 2 else _Table([])
            if inner is None:
                return None
            return _Table(inner.rows, (f.body, _mod_of(f.body, mod)))
        return None
    if isinstance(d, (ast.Name, ast.Attribute)):
        nd = _named_definition(prog, W, d, mod)
        if nd is None:
            return None
        return sub(nd[0], nd[1])
    return None


class _MethodEval:
    """evaluates resolved expressions of Resource.render for one request method at a time"""

    def __init__(self, prog, W, subj):
        self.prog, self.W, self.subj = prog, W, subj
        self._tables = {}
        ci = prog.cls("numbers.codes.Code")
        self.num = {}
        for mth, n in METHODS.items():
            try:
                v = norm.consteval(ci.attrs[mth]) if mth in ci.attrs else None
            except norm.NormError:
                v = None
            self.num[mth] = v if isinstance(v, int) else n
        # a request code that is no registered member of Code: the class admits such numbers when it has a _missing_ hook
        # (Message.decode builds Code(<byte>)), and render sees them when is_request() holds for the number
        self.unreg_name = _unknown_code_name(prog)
        self.unreg = None
        if self.unreg_name is not None:
            taken = {n for _, n in _code_members(prog)}
            for n in range(1, 256):
                if n not in taken and _code_predicate(prog, _CodeV(n, self.unreg_name), "is_request") is True:
                    self.unreg = n
                    self.num[UNREGISTERED] = n
                    break

    def codev(self, mth):
        return _CodeV(self.num[mth], self.unreg_name if mth == UNREGISTERED else mth)

    def key2(self, k, mth, mod):
        """key(), or the key a closed expression denotes (a row derived from a member reads other tables by the member)"""
        r = self.key(k, mth)
        if r is None and mod is not None:
            r = _table_key(self.prog, k, _mod_of(k, mod))
        return r

    def entry(self, o, v, mth, mod, depth=0):
        """what the mapping read v yields for method mth: ("expr", row expression, its module) | ("none",) |
        ("raise", "KeyError", v) | None (not a read of a known table by the method)"""
        lk = self.lookup(v)
        if lk is None or depth > 8:
            return None
        texpr, kexpr, kind, default = lk
        key = self.key2(kexpr, mth, mod)
        t = self.table(texpr, o, mod)
        if key is None or t is None:
            return None
        hit = t.row(key)
        if hit is not None:
            return ("expr", hit[0], hit[1])
        if kind == "get":
            return ("expr", default, mod) if default is not None else ("none",)
        if t.missing is not None:
            return ("expr", t.missing[0], t.missing[1])
        return ("raise", "KeyError", v)

    def component(self, o, v, mth, mod, depth=0):
        """v = <mapping read>[<int>]: the component of the tuple-valued row -- ("expr", e, mod) | ("raise", ..) | None"""
        if not (isinstance(v, ast.Subscript) and isinstance(v.slice, ast.Constant) and type(v.slice.value) is int):
            return None
        inner = v.value
        ent = self.entry(o, inner, mth, mod, depth + 1) if self.lookup(inner) is not None and self.key(self.lookup(inner)[1], "GET") is not None else self.component(o, inner, mth, mod, depth + 1) if depth < 4 else None
        if ent is None or ent[0] == "raise":
            return ent
        if ent[0] != "expr":
            return None
        row = ent[1]
        if isinstance(row, (ast.Tuple, ast.List)) and not any(isinstance(x, ast.Starred) for x in row.elts) and -len(row.elts) <= v.slice.value < len(row.elts):
            x = row.elts[v.slice.value]
            return ("expr", x, _mod_of(x, ent[2]))
        return None

    def pyvalue(self, o, e, mth, mod=None):
        """Python value (str, number, bool, None) of a resolved expression for method mth; raises _NoVal"""
        def leaf(x, m_):
            if K(x) == self.subj:
                return self.codev(mth)
            ent = self.component(o, x, mth, m_)
            if ent is None and self.lookup(x) is not None and self.key(self.lookup(x)[1], "GET") is not None:
                ent = self.entry(o, x, mth, m_)
                if ent is None:
                    raise _NoVal()
            if ent is None:
                return NotImplemented
            if ent[0] == "none":
                return None
            if ent[0] == "raise":
                raise _NoVal()
            return _static_value(self.prog, ent[1], ent[2], None, leaf)
        return _static_value(self.prog, e, _mod_of(e, mod), None, leaf)

    def table(self, d, o=None, mod=None):
        mod = _mod_of(d, mod)
        if mod is None:
            return None
        k = (K(d), mod.name)
        if k not in self._tables:
            self._tables[k] = _table(self.prog, self.W, d, mod)
        t = self._tables[k]
        if t is not None and o is not None and not isinstance(d, (ast.Name, ast.Attribute)):
            # a mapping built on the path: nothing on the path stores into it
            kd = K(d)
            if o.stores(lambda s: isinstance(s.target, ast.Subscript) and K(s.target.value) == kd):
                return None
        return t

    def key(self, k, mth):
        """the table key the resolved expression k denotes for method mth: the code itself (an IntEnum: hashes and
        compares like its number), its number, or its name"""
        if K(k) == self.subj:
            return ("num", self.num[mth])
        for p in ("int($c)", "$c.value", "$c.__index__()"):
            m = match(p, k)
            if m is not None and K(m["c"]) == self.subj:
                return ("num", self.num[mth])
        for p in ("$c.name", "str($c)", "format($c)"):
            # Code.__str__ gives the member name for request codes (see _handler_name_ok)
            m = match(p, k)
            if m is not None and K(m["c"]) == self.subj:
                if mth == UNREGISTERED and not self.unreg_name:
                    return None  # the name of an unregistered code is not known
                return ("name", self.unreg_name if mth == UNREGISTERED else mth)
        return None

    def lookup(self, v):
        """(table expr, key expr, kind, default expr) when v is a mapping read: m[k] / m.__getitem__(k) -> "item",
        m.get(k[, d]) -> "get" """
        if isinstance(v, ast.Subscript) and not isinstance(v.slice, ast.Slice):
            return v.value, v.slice, "item", None
        if isinstance(v, ast.Call) and isinstance(v.func, ast.Attribute) and not v.keywords and not any(isinstance(a, ast.Starred) for a in v.args):
            if v.func.attr == "get" and 1 <= len(v.args) <= 2:
                return v.func.value, v.args[0], "get", (v.args[1] if len(v.args) == 2 else None)
            if v.func.attr == "__getitem__" and len(v.args) == 1:
                return v.func.value, v.args[0], "item", None
        return None

    def value(self, o, v, mth, mod=None, depth=0):
        """("code", member, number) | ("none",) | ("raise", "KeyError", lookup node) | None (not interpretable)"""
        if v is None or depth > 8:
            return None
        mod = _mod_of(v, mod)
        if mod is None:
            return None
        if isinstance(v, ast.Constant):
            return ("none",) if v.value is None else None
        cv = _code_value(self.prog, mod, v)
        if cv is not None:
            return ("code",) + cv
        rec = lambda x: self.value(o, x, mth, mod, depth + 1)
        if isinstance(v, ast.IfExp):
            t = self.truth(o, v.test, mth)
            if t is None:
                a, b = rec(v.body), rec(v.orelse)
                return a if a is not None and a[:3] == (b or ())[:3] and a[0] != "raise" else None
            return rec(v.body if t else v.orelse)
        if isinstance(v, ast.BoolOp):
            # `a or b`: the first true operand (a Code member is true unless its number is 0), else the last
            r = None
            for i, x in enumerate(v.values):
                r = rec(x)
                if r is None or r[0] == "raise" or i == len(v.values) - 1:
                    return r
                true = r[0] == "code" and r[2] != 0
                if true == isinstance(v.op, ast.Or):
                    return r
            return r
        ent = self.component(o, v, mth, mod)
        if ent is None:
            ent = self.entry(o, v, mth, mod, depth)
        if ent is None or ent[0] != "expr":
            return ent
        return self.value(o, ent[1], mth, ent[2], depth + 1)

    def truth(self, o, e, mth):
        """truth of a resolved condition for method mth as far as it is a fact about the method (membership in a known
        table, a known lookup result being None / true), else what the path decided; None: not known"""
        if isinstance(e, ast.UnaryOp) and isinstance(e.op, ast.Not):
            t = self.truth(o, e.operand, mth)
            return None if t is None else not t
        if isinstance(e, ast.BoolOp):
            ts = [self.truth(o, x, mth) for x in e.values]
            if isinstance(e.op, ast.And):
                return False if any(t is False for t in ts) else (True if all(t is True for t in ts) else None)
            return True if any(t is True for t in ts) else (False if all(t is False for t in ts) else None)
        if isinstance(e, ast.Compare) and len(e.ops) == 1 and isinstance(e.ops[0], (ast.In, ast.NotIn)):
            key = self.key(e.left, mth)
            c = e.comparators[0]
            if isinstance(c, ast.Call) and isinstance(c.func, ast.Attribute) and c.func.attr == "keys" and not c.args and not c.keywords:
                c = c.func.value
            if key is not None and not isinstance(c, (ast.Tuple, ast.List, ast.Set)):
                t = self.table(c, o)
                if t is not None:
                    inside = t.row(key) is not None
                    return inside if isinstance(e.ops[0], ast.In) else not inside
        nt = none_test(e)
        if nt is not None and self.lookup(nt[0]) is not None:
            r = self.value(o, nt[0], mth)
            if r is not None and r[0] in ("none", "code"):
                return (r[0] == "none") == nt[1]
        if self.lookup(e) is not None:
            r = self.value(o, e, mth)
            if r is not None and r[0] in ("none", "code"):
                return r[0] == "code" and r[2] != 0
        vals = dict(o.vals)
        if mth != UNREGISTERED:
            # (the walker's subject domain is the registered methods; for a code outside it only the path's own
            # decisions speak)
            vals[self.subj] = mth
        return self.W._truth(e, o.dec, vals)

    def lookups_in(self, exprs, o):
        """the raising mapping reads `m[<the method>]` into known tables inside the resolved expressions, and whether
        anything else in them may raise"""
        found, other = [], False
        for x in exprs:
            for n in ast.walk(x):
                lk = self.lookup(n)
                if lk is not None and lk[2] == "item" and self.key(lk[1], "GET") is not None and self.table(lk[0], o) is not None:
                    found.append(n)
                elif isinstance(n, (ast.Await, ast.BinOp, ast.Subscript, ast.Yield, ast.YieldFrom)) or (isinstance(n, ast.Call) and not getattr(n, "_pure", False) and lk is None):
                    other = True
        return found, other

    def feasible(self, o, mth):
        """can a request with method mth take the path o?  The walker treats a membership test in a table, the None-ness
        of a lookup result and the KeyError of a lookup as uninterpreted; for a known table they are facts about the
        method, and a path that assumes the contrary is not a path of that method."""
        for dcs in o.decisions:
            e = dcs.expr
            if self._about_table(e):
                t = self.truth(o, e, mth)
                if t is not None and t != dcs.val:
                    return False
        for stmt, sfi, rexprs, hnd, hfi, pos in o.implicit:
            found, other = self.lookups_in(rexprs, o)
            if not found or other:
                continue
            # the statement can only have been left through the KeyError of one of these lookups
            raises = any((self.value(o, n, mth) or ("?",))[0] == "raise" for n in found)
            if not raises or self.W._catches(hnd, "KeyError", hfi) is not True:
                return False
        return True

    def _about_table(self, e):
        for n in ast.walk(e):
            if self.lookup(n) is not None and self.key(self.lookup(n)[1], "GET") is not None:
                return True
            if isinstance(n, ast.Compare) and len(n.ops) == 1 and isinstance(n.ops[0], (ast.In, ast.NotIn)) and self.key(n.left, "GET") is not None:
                return True
        return False


@R.clause("C09.e", "Resource.render: non-request code -> UnsupportedMethod, missing render_<method> -> UnallowedMethod (both 4.05); default code table applied iff response.code is None; no_response copied iff unset")
def e(ctx):
    prog = ctx.prog
    fi = prog.func("resource.Resource.render")
    p = params(fi)
    ctx.need(len(p) == 1 and not writes_to_name(fi.node, p[0]), "Resource.render signature changed")
    req = p[0]
    subj = "%s.code" % req
    c405 = _num(RESPONSE_CODES["METHOD_NOT_ALLOWED"])
    # every path of render (helpers followed), once per request method wherever the method is tested
    W = Walker(prog, subjects={subj: list(METHODS)})
    outs = W.run(fi)
    ctx.need(bool(outs), "Resource.render has no path")
    if W.followed:
        ctx.note("helpers followed from Resource.render: %s" % ", ".join(W.followed))
    obs = _Obs(ctx)

    def is_request(o):
        r = None
        for dcs in o.decisions:
            m = match("$r.code.is_request()", dcs.expr)
            if m is not None and chain(m["r"]) == req:
                r = dcs.val
        return r

    def lookup(f_):
        """bindings of a handler lookup `getattr(self, <name>[, <default>])`"""
        m_ = match("getattr(self, $n, $d)", f_)
        if m_ is None:
            m_ = match("getattr(self, $n)", f_)
        return m_

    def invocations(o):
        return [e_ for _, e_ in o.calls(lambda e_: e_.awaited and len(e_.args) == 1 and chain(e_.args[0]) == req and not e_.kw and lookup(e_.func) is not None)]

    def has_handler(o, h_):
        """did the lookup h_ yield a handler on this path?  With a default: the result is tested (truthiness / is None).
        Without one: the getattr call completed (True) or left through an exception edge (False: AttributeError)."""
        if "d" in lookup(h_):
            return o.present(h_)
        kh = K(h_)
        evs = [x for _, x in o.calls(lambda x: K(x.expr) == kh)]
        if not evs:
            return None
        return not any(x.partial for x in evs)

    def raised(o):
        rs = [e_ for e_ in o.events if e_.kind == "raise"]
        return rs[-1] if rs else None

    def renders_405(q):
        return q is not None and q in prog.classes and _class_code(prog, q) == c405 and prog.is_subclass(q, "aiocoap.error.RenderableError")

    def name_ok(o, nm):
        """the name is spelled render_<lower-cased method name> (any formatting), or evaluates to it for every method
        that can take the path (a name read from a table computed from the method names)"""
        if _handler_name_ok(nm, req):
            return True
        try:
            for mth in ([o.vals[subj]] if subj in o.vals else list(METHODS)):
                if ME.feasible(o, mth) and ME.pyvalue(o, nm, mth, fi.module) != "render_" + mth.lower():
                    return False
        except _NoVal:
            return False
        return True

    def unregistered_reads(o):
        """mapping reads `m[<the request's code>]` evaluated on the path o that have no row for a request code which
        is not a registered member of Code and whose KeyError no handler of render takes: [(site, fi)].

        Necessary condition decided here: the request range (is_request) is wider than the registered methods, and
        Code(<number>) exists for every number (its _missing_ hook), so such a request reaches render; the path on which
        the resource has no handler is the only one it may take (4.05).  A subscript into a mapping whose keys are
        registered members only, evaluated on that path, raises KeyError for it instead -- answered 5.00.  Sound for
        every spelling of the table the evaluator reads (display, fromkeys, comprehension over the enum, ...); .get(),
        a defaultdict, a membership guard (the path is then infeasible for the code) or a KeyError handler are all
        accepted because they are evaluated, not matched."""
        if ME.unreg is None or subj in o.vals or not ME.feasible(o, UNREGISTERED):
            return []
        sites = []
        for ev in o.events:
            for x in [ev.expr, ev.value, ev.target, ev.func] + list(ev.args) + list(ev.kw.values()):
                if isinstance(x, ast.AST):
                    sites.append((x, ev.stack, ev.fi))
        for dcs in o.decisions:
            sites.append((dcs.expr, None, dcs.fi))
        if isinstance(o.value, ast.AST):
            sites.append((o.value, None, fi))
        out, seen = [], set()
        for x, stack, xfi in sites:
            for n in ast.walk(x):
                lk = ME.lookup(n)
                if lk is None or lk[2] != "item" or ME.key(lk[1], "GET") is None or id(origin(n)) in seen:
                    continue
                nfi = getattr(n, "_fi", xfi)
                ent = ME.entry(o, n, UNREGISTERED, nfi.module)
                if ent is None or ent[0] != "raise":
                    continue
                if stack is None:
                    if nfi is not fi:
                        continue  # evaluated in a followed helper and the call chain is not known here: not decided
                    stack = ()
                if W.exception_safe(Event("call", origin(n), nfi, stack), ent[1]) is not None:
                    continue
                seen.add(id(origin(n)))
                out.append((n, nfi))
        return out

    handlers = {}
    for o in outs:
        for e_ in invocations(o):
            handlers.setdefault(K(e_.func), e_.func)
    ctx.floor("handler invocations in Resource.render", len(handlers), 1)
    n_unsupported = n_unallowed = 0
    table = {}
    filtered = set()
    ME = _MethodEval(prog, W, subj)
    n_code_store = n_nr = 0
    for o in outs:
        isreq = is_request(o)
        r = raised(o) if o.kind == "raise" else None
        q = W._exc_class(o.value) if o.kind == "raise" else None
        rfi, rnode = (r.fi, r.node) if r is not None else (fi, None)
        if isreq is False:
            # (1) not a request code
            n_unsupported += 1
            if obs.add("a message whose code is not a request code is rejected", o.kind == "raise", rfi, rnode, construct=None if rnode is not None else "Resource.render", detail="path [%s]" % o.describe()):
                obs.add("the rejection of a non-request code is error.UnsupportedMethod", q == "aiocoap.error.UnsupportedMethod", rfi, rnode, detail="raises %s" % q)
                obs.add("the rejection of a non-request code renders as 4.05", renders_405(q), rfi, rnode)
            continue
        inv = invocations(o)
        pres = [has_handler(o, h_) for h_ in handlers.values()]
        present = True if any(x is True for x in pres) else (False if any(x is False for x in pres) else None)
        if present is None and o.kind == "raise" and not inv and ME.unreg is not None and subj not in o.vals \
                and not any(ME.feasible(o, m_) for m_ in METHODS) and ME.feasible(o, UNREGISTERED):
            # a path that, by what known tables say about the method (a membership guard, the KeyError of a lookup), no
            # registered method takes but an unregistered request code does: the resource has no handler for such a
            # code (handlers are named after registered methods), so this is case (2) decided before the lookup
            present = False
        if present is False:
            # (2) no handler for the method
            n_unallowed += 1
            if obs.add("a method the resource does not implement is rejected", o.kind == "raise" and not inv, rfi, rnode, construct=None if rnode is not None else "Resource.render", detail="path [%s]" % o.describe()):
                obs.add("the rejection of an unimplemented method is error.UnallowedMethod", q == "aiocoap.error.UnallowedMethod", rfi, rnode, detail="raises %s" % q)
                obs.add("the rejection of an unimplemented method renders as 4.05", renders_405(q), rfi, rnode)
            for site, sfi_ in unregistered_reads(o):
                obs.add("a request code that is no registered method is answered 4.05 like any method the resource does not implement", False, sfi_, _stmt_of(cfg_of(sfi_), origin(site)),
                        detail="%s has no row for a request code outside the registered methods (e.g. 0.%02d, which is_request() admits): KeyError leaves render (answered 5.00) before the missing handler is noticed" % (K(site), ME.unreg))
            continue
        for e_ in inv:
            m = lookup(e_.func)
            obs.add("the handler is looked up as render_<lower-case method name> of the request", name_ok(o, m["n"]) and ("d" not in m or (isinstance(m["d"], ast.Constant) and m["d"].value is None)), getattr(e_.func, "_fi", e_.fi), origin(e_.func))
            obs.add("the handler runs only for request codes", isreq is True, e_.fi, e_.node, detail="path [%s]" % o.describe())
            obs.add("the handler is only invoked when the resource has one", has_handler(o, e_.func) is True, e_.fi, e_.node, detail="path [%s]" % o.describe())
        if o.kind != "return":
            obs.add("only a non-request code or a missing handler makes render fail", False, rfi, rnode, construct=None if rnode is not None else "Resource.render", detail="raises %s on the path [%s]" % (q, o.describe()))
            continue
        # (3) the returned response and its default code
        v = o.value
        kv = K(v)
        vfi, vnode = getattr(v, "_fi", fi), _stmt_of(cfg_of(getattr(v, "_fi", fi)), origin(v))
        from_handler = isinstance(v, ast.Await) and any(v.value is e_.expr for e_ in inv)
        stand_in = isinstance(v, ast.Call) and W.cls_of(v.func) == "aiocoap.message.Message"
        obs.add("the value returned is what the handler returned (or the deprecated NoResponse stand-in)", bool(inv) and (from_handler or stand_in), vfi, vnode, detail="returns %s" % kv)
        is_code = lambda s: isinstance(s, ast.Attribute) and s.attr == "code" and K(s.value) == kv
        is_nr = lambda s: isinstance(s, ast.Attribute) and s.attr == "no_response" and isinstance(s.value, ast.Attribute) and s.value.attr == "opt" and K(s.value.value) == kv
        for what, pred in (("code", is_code), ("no_response", is_nr)):
            unset = o.is_none(pred)
            sts = o.stores(lambda s: s.kind == "store" and pred(s.target))
            tested_before = lambda j: any(dcs.pos <= j and none_test(dcs.expr) is not None and pred(none_test(dcs.expr)[0]) and (dcs.val == none_test(dcs.expr)[1]) for dcs in o.decisions)
            for j, s in sts:
                if what == "code":
                    n_code_store += 1
                    obs.add("a code chosen by the handler is never overwritten (default applied only if response.code is None)", tested_before(j), s.fi, s.node, detail="path [%s]" % o.describe())
                else:
                    n_nr += 1
                    obs.add("a no_response value set by the handler is kept (copy only if unset)", tested_before(j), s.fi, s.node, detail="path [%s]" % o.describe())
                    obs.add("the copied value is the request's no_response option", chain(s.value) == req + ".opt.no_response", s.fi, s.node)
            if unset is True:
                pin = [dcs for dcs in o.decisions if none_test(dcs.expr) is not None and pred(none_test(dcs.expr)[0])][-1]
                if what == "code":
                    obs.add("a response without a code always gets a default code", bool(sts), pin.fi, _stmt_of(cfg_of(pin.fi), pin.node), detail="path [%s]" % o.describe())
                else:
                    obs.add("an unset no_response is always filled from the request", bool(sts), pin.fi, _stmt_of(cfg_of(pin.fi), pin.node), detail="path [%s]" % o.describe())
            if what == "code" and sts and unset is True:
                j, s = sts[-1]
                for mth in ([o.vals[subj]] if subj in o.vals else list(METHODS)):
                    if not ME.feasible(o, mth):
                        # the path assumes something about a known table that is false for this method
                        filtered.add(mth)
                        continue
                    cv = ME.value(o, s.value, mth)
                    ctx.need(cv is not None, "default code %s cannot be evaluated for %s (neither a Code constant nor a read of a mapping whose content is statically known)" % (K(s.value), mth))
                    if cv[0] == "raise":
                        # a lookup without a row for the method: the KeyError either continues in a handler of render
                        # (then that continuation is the method's path, not this one) or leaves render -- although the
                        # request had a request code and the resource's handler ran and returned
                        site = cv[2]
                        probe = Event("call", origin(site), getattr(site, "_fi", s.fi), s.stack)
                        if W.exception_safe(probe, cv[1]) is not None:
                            filtered.add(mth)
                            continue
                        obs.add("only a non-request code or a missing handler makes render fail", False, s.fi, s.node,
                                detail="for %s the default code %s has no row: %s leaves render after the handler returned (answered 5.00)" % (mth, K(s.value), cv[1]))
                        table.setdefault(mth, []).append((("<%s>" % cv[1], None), s))
                    elif cv[0] == "none":
                        table.setdefault(mth, []).append((("<None>", None), s))
                    else:
                        table.setdefault(mth, []).append((cv[1:], s))
    obs.add("a message whose code is not a request code is rejected", n_unsupported >= 1, fi, None, construct="Resource.render: non-request codes")
    obs.add("a method the resource does not implement is rejected", n_unallowed >= 1, fi, None, construct="Resource.render: missing handler")
    obs.add("the request's No-Response option is copied to the response", n_nr >= 1, fi, None, construct="Resource.render: no_response")
    obs.flush()
    ctx.floor("stores to response.code", n_code_store, 1)
    for mth, want in DEFAULT_CODE.items():
        got = table.get(mth, [])
        ctx.need(bool(got) or mth not in filtered, "no path of Resource.render on which a %s request gets its default code can be attributed to the method" % mth)
        vals = sorted({cv[1] for cv, s in got}, key=lambda x: (x is None, x or 0))
        ctx.ob("default response code for %s is %d.%02d" % (mth, want[0], want[1]), vals == [_num(want)], got[0][1].fi if got else fi, got[0][1].node if got else None, detail="assigned: %s" % sorted({cv[0] for cv, s in got}),
               construct="default code for %s" % mth)
    # method constants used in the guards must denote the RFC 7252 / 8132 numbers
    ci = prog.cls("numbers.codes.Code")
    for mth, num in METHODS.items():
        try:
            val = norm.consteval(ci.attrs[mth]) if mth in ci.attrs else None
        except norm.NormError:
            val = None
        ctx.ob("Code.%s == %d" % (mth, num), val == num, None, None, construct="Code.%s" % mth, detail="value %r" % val)


# ---------------------------------------------------------------------------
# C09.f


FALLBACKS = {"needs_blockwise_assembly": "returns True (assemble, so that the later render answers 4.04 on the complete request)",
             "add_observation": "returns without accepting the observation"}


def _lookup_roots(prog, target):
    """the functions of the confirmed tree from which the child lookup is reached: the ones that call it, and -- for a
    call that sits in a new helper -- the confirmed functions calling that helper (the walker follows the helper)"""
    from ..inline import baseline
    base = baseline()
    roots, sites = {}, []
    todo = []
    for fi in prog.funcs.values():
        for c in calls_in(fi.node):
            if isinstance(c.func, ast.Attribute) and c.func.attr == target.name:
                sites.append((fi, c))
                todo.append((fi, 0))
    seen = set()
    while todo:
        fi, d = todo.pop()
        if fi.qn in seen:
            continue
        seen.add(fi.qn)
        if fi.qn in base or d >= 3:
            roots[fi.qn] = fi
            continue
        callers = [g for g in prog.funcs.values() if g is not fi and any((isinstance(c.func, ast.Attribute) and c.func.attr == fi.name) or (isinstance(c.func, ast.Name) and c.func.id == fi.name) for c in calls_in(g.node))]
        if not callers:
            roots[fi.qn] = fi
        for g in callers:
            todo.append((g, d + 1))
    return list(roots.values()), sites


@R.clause("C09.f", "every call of Site._find_child_and_pathstripped_message handles KeyError by raising a 4.04 error (render paths) or by the documented fallback; the function raises nothing but KeyError; _expand_upa raises nothing but BadOption (4.02)")
def f(ctx):
    prog = ctx.prog
    target = prog.func("resource.Site._find_child_and_pathstripped_message")
    roots, sites = _lookup_roots(prog, target)
    ctx.floor("call sites of _find_child_and_pathstripped_message", len(sites), 4)
    c404 = _num(RESPONSE_CODES["NOT_FOUND"])
    obs = _Obs(ctx)
    is_lookup = lambda e: isinstance(e.func, ast.Attribute) and e.func.attr == target.name
    handled = {}  # id(call node) -> event, for lookups whose KeyError continues in some handler
    seen_sites = {}
    sf = prog.func("resource.Site.render_to_pipe")
    sp = params(sf)
    n_deleg = 0
    for fi in sorted(roots, key=lambda x: x.qn):
        # every path of the function, where "a call raises" means: it raises KeyError (the one exception the lookup has)
        W = Walker(prog, implicit_cls="KeyError")
        for o in W.run(fi):
            lk = o.calls(is_lookup)
            for j, e in lk:
                seen_sites[id(e.node)] = e
                if not e.partial:
                    continue
                handled[id(e.node)] = e
                # the lookup failed on this path
                after = [x for x in o.events[j + 1:] if x.kind in ("call", "await") and not x.pure and not (x.kind == "call" and is_log_call(x.node))]
                if fi.name in FALLBACKS and o.kind == "return":
                    if fi.name == "needs_blockwise_assembly":
                        ok = isinstance(o.value, ast.Constant) and o.value.value is True
                    else:
                        ok = isinstance(o.value, ast.Constant) and o.value.value is None and not after
                    obs.add("documented fallback for an unknown path in %s: %s" % (fi.name, FALLBACKS[fi.name]), ok, e.fi, e.node, detail="path [%s] returns %s" % (o.describe(), K(o.value)))
                    continue
                q = W._exc_class(o.value) if o.kind == "raise" else None
                ok = q is not None and q in prog.classes and prog.is_subclass(q, "aiocoap.error.RenderableError") and _class_code(prog, q) == c404
                rs = [x for x in o.events[j + 1:] if x.kind == "raise"]
                pin = rs[-1] if rs else e
                obs.add("an unknown path is answered with a 4.04 error on every path of the handler", ok, pin.fi, pin.node, detail="path [%s] ends with %s" % (o.describe(), ("raise %s" % q) if o.kind == "raise" else "return"))
            if fi is sf:
                # Site.render_to_pipe expands the abbreviation before the lookup and delegates to the child
                for j, e in lk:
                    ex = [jj for jj, x in o.calls(lambda x: W.cls_of(x.func) == "aiocoap.resource._expand_upa", partial=False) if jj < j]
                    obs.add("Site.render_to_pipe expands Uri-Path-Abbrev before the path lookup", bool(ex), e.fi, e.node)
                if o.kind == "return" and lk and not any(e.partial for _, e in lk):
                    found = [e.expr for _, e in lk]
                    dl = [x for _, x in o.calls(lambda x: isinstance(x.func, ast.Attribute) and x.func.attr == "render_to_pipe" and x.awaited, partial=False)]
                    okd = bool(dl)
                    for x in dl:
                        r = x.func.value
                        okd = okd and isinstance(r, ast.Subscript) and isinstance(r.slice, ast.Constant) and r.slice.value == 0 and any(r.value is y for y in found) and len(x.args) == 1 and chain(x.args[0]) == sp[0]
                    n_deleg += 1 if okd else 0
                    obs.add("a known path is delegated to the child found by the lookup, on the same pipe", okd, dl[0].fi if dl else sf, dl[0].node if dl else None, construct=None if dl else "Site.render_to_pipe")
    for fi, c in sites:
        e = seen_sites.get(id(c))
        ctx.need(e is not None, "the lookup in %s is not reached from a function of the confirmed tree" % fi.short)
        obs.add("an unknown path (KeyError) is handled at the call site", id(c) in handled, fi, c)
    obs.add("a known path is delegated to the child found by the lookup, on the same pipe", n_deleg >= 1, sf, None, construct="Site.render_to_pipe: delegation")
    obs.flush()
    EA = EscapeAnalysis(prog)
    esc = EA.escapes(target, selfcls="aiocoap.resource.Site")
    bad = sorted({e_.cls for e_ in esc} - {"KeyError"})
    ctx.ob("_find_child_and_pathstripped_message raises nothing but KeyError", not bad and not EA.unresolved, target, target.node, construct="escape set of _find_child_and_pathstripped_message", detail="escapes: %s; unresolved: %s" % (sorted({e_.cls for e_ in esc}), EA.unresolved))
    ux = prog.func("resource._expand_upa")
    EA2 = EscapeAnalysis(prog)
    esc = EA2.escapes(ux)
    classes = sorted({e_.cls for e_ in esc})
    ctx.ob("_expand_upa raises nothing but error.BadOption", classes in ([], ["aiocoap.error.BadOption"]) and not EA2.unresolved, ux, ux.node, construct="escape set of _expand_upa", detail="escapes: %s; unresolved: %s" % (classes, EA2.unresolved))
    # the escape analysis' implicit-raiser table only knows dict-typed self.<field>[k]; table lookups on a
    # module-level mapping are covered here: each must sit in a try whose handler takes KeyError
    ucfg = cfg_of(ux)
    locs = set(params(ux, skip_self=False)) | {n.id for n in walk_no_nested(ux.node) if isinstance(n, ast.Name) and isinstance(n.ctx, ast.Store)}
    for sub in walk_no_nested(ux.node):
        if isinstance(sub, ast.Subscript) and isinstance(sub.ctx, ast.Load) and chain(sub.value) and chain(sub.value).split(".")[0] not in locs:
            tr = _enclosing_try(ucfg, sub, ux.node)
            hs = [h_ for h_ in tr.handlers if _handler_catches(prog, ux, h_, "KeyError")] if tr is not None else []
            ctx.ob("a failed table lookup in _expand_upa (KeyError) is converted, not propagated", bool(hs), ux, sub)
    ctx.ob("error.BadOption renders as 4.02", _class_code(prog, "aiocoap.error.BadOption") == _num(RESPONSE_CODES["BAD_OPTION"]) and prog.is_subclass("aiocoap.error.BadOption", "aiocoap.error.RenderableError"), None, None, construct="class error.BadOption")
    ctx.extra["escape_implicit_sites"] = EA.implicit_sites + EA2.implicit_sites


# ---------------------------------------------------------------------------
# C09.g


def _is_render_call(v):
    """v (resolved) is `self.render(...)`, possibly awaited"""
    if isinstance(v, ast.Await):
        v = v.value
    return isinstance(v, ast.Call) and chain(v.func) == "self.render"


def _render_outcome(W, v):
    """v is the awaited outcome of self.render -- directly, or through a call that is handed a callable (lambda, nested
    def, functools.partial, default-argument lambda) whose invocation evaluates self.render(...) (the Block2 cache)"""
    if not (isinstance(v, ast.Await) and isinstance(v.value, ast.Call)):
        return False
    call = v.value
    if _is_render_call(call):
        return True
    for a_ in list(call.args) + [k.value for k in call.keywords]:
        if isinstance(a_, ast.Lambda) or (isinstance(a_, ast.Name) and hasattr(a_, "_closure")) or (isinstance(a_, ast.Call) and chain(a_.func) in ("functools.partial", "partial")):
            rs = W.apply_callable(a_)
            if rs and all(r is not None and _is_render_call(r) for r in rs):
                return True
    return False


@R.clause("C09.g", "interfaces.Resource._render_to_pipe adds exactly one response per normal path, final, and it is the result of rendering")
def g(ctx):
    prog = ctx.prog
    fi = prog.func("interfaces.Resource._render_to_pipe")
    p = params(fi)
    ctx.need(len(p) == 1 and not writes_to_name(fi.node, p[0]), "Resource._render_to_pipe signature changed")
    W = Walker(prog)
    outs = [o for o in W.run(fi) if o.kind == "return"]
    ctx.need(bool(outs), "Resource._render_to_pipe has no normal path")
    if W.followed:
        ctx.note("helpers followed from Resource._render_to_pipe: %s" % ", ".join(W.followed))
    obs = _Obs(ctx)
    n_add = 0
    for o in outs:
        adds = [e for _, e in _method_calls(o, "add_response", lambda r: chain(r) == p[0])]
        full = [e for e in adds if not e.partial]
        if not obs.add("every normal path of the plain render adds a response", bool(full), fi, None, construct="Resource._render_to_pipe", detail="path [%s]" % o.describe()):
            continue
        n_add += 1
        obs.add("a plain render adds at most one response", len(adds) == 1, adds[-1].fi, adds[-1].node, detail="%d add_response calls on the path [%s]" % (len(adds), o.describe()))
        for e in full:
            obs.add("the response of a plain render is final", o.truth(_last_arg(e)) is True, e.fi, e.node)
            v = e.arg("response", 0)
            obs.add("the response added is the outcome of self.render (directly or through the Block2 cache)", v is not None and _render_outcome(W, v), e.fi, e.node, detail="adds %s on the path [%s]" % (K(v), o.describe()))
    obs.flush()
    ctx.floor("add_response sites in Resource._render_to_pipe", n_add, 1)


# ---------------------------------------------------------------------------
# C09.h


@R.clause("C09.h", "TokenManager.process_request.on_event stamps the request's token and remote.as_response_address() on every outgoing message before send_message, sends every response event, and stays registered exactly while events are not final")
def h(ctx):
    prog = ctx.prog
    outer = prog.func("tokenmanager.TokenManager.process_request")
    op = params(outer)
    ctx.need(len(op) == 1, "process_request signature changed")
    fi, env0, ev = _registered_handler(ctx, outer, "tokenmanager.TokenManager.process_request.<locals>.on_event", lambda o, r: True)
    req = op[0]
    ctx.need(not writes_to_name(outer.node, req) and not writes_to_name(fi.node, ev), "request or event rebound")
    if fi.parent is outer:
        ctx.need(_closure_ref(fi.node, req, req), "request rebound")
    W = Walker(prog, records=_event_records(ctx, ev))
    outs = W.run(fi, env=env0)
    ctx.need(bool(outs), "on_event has no path")
    _event_premise(ctx, W)
    if W.followed:
        ctx.note("helpers followed from on_event: %s" % ", ".join(W.followed))
    obs = _Obs(ctx)
    is_msg = lambda v: chain(v) == ev + ".message"
    sends = lambda o, partial=None: _method_calls(o, "send_message", lambda r: chain(r) == "self.token_interface", partial)
    # the stamps: (attribute, what the value must be, text).  A stamp is the *last* store to <message>.<attribute> that
    # precedes the send on the path -- whichever local, helper parameter or alias the message and the request go by.
    stamps = (("token", "%s.token" % req, "the request's token"), ("remote", "%s.remote.as_response_address()" % req, "the request's remote as response address"))
    n_sends = 0
    for o in outs:
        n = o.is_none(is_msg)
        ctx.need(n is not None, "on_event has a path that does not decide `%s.message is None` (%s)" % (ev, o.describe()))
        ss = sends(o)
        for i, s in ss:
            n_sends += 1
            m = s.arg("message", 0)
            obs.add("what is sent is the event's message", m is not None and is_msg(m) and n is False, s.fi, s.node, detail="sends %s on the path [%s]" % (K(m), o.describe()))
            if m is None:
                continue
            km = K(m)
            for attr, want, text in stamps:
                st = [e for j, e in o.stores(lambda e: isinstance(e.target, ast.Attribute) and e.target.attr == attr and K(e.target.value) == km) if j < i]
                good = bool(st) and st[-1].kind == "store" and st[-1].value is not None and match(want, st[-1].value) is not None
                pin = st[-1] if st and not good else s
                obs.add("every outgoing response carries %s" % text, good, pin.fi, pin.node,
                        detail=("%s.%s is last set to %s before the send" % (km, attr, K(st[-1].value))) if st else "no store to %s.%s precedes the send on the path [%s]" % (km, attr, o.describe()))
        if n is False:
            full = [s for _, s in ss if not s.partial]
            fi_, node_ = (full[0].fi, full[0].node) if full else (fi, fi.node)
            obs.add("every response event is handed to the token interface", o.kind == "return" and len(full) >= 1, fi_, None if node_ is fi.node else node_,
                    construct="on_event" if node_ is fi.node else None, detail="path [%s]" % o.describe())
        # registration discipline: the value returned is true exactly when the event is not final
        if o.kind == "return":
            rfi, rnode = getattr(o.value, "_fi", fi), origin(o.value)
            if isinstance(rnode, (ast.FunctionDef, ast.AsyncFunctionDef)):
                ds = o.decided(lambda x: chain(x) == ev + ".is_last")
                rfi, rnode = (ds[-1].fi, ds[-1].node) if ds else (fi, None)
            else:
                rnode = _stmt_of(cfg_of(rfi), rnode)
            obs.add("the handler stays registered exactly while events are not final (returns a true value iff not is_last)", W.equiv(o, o.value, "not %s.is_last" % ev), rfi, rnode,
                    construct=None if rnode is not None else "on_event: value returned", detail="returns %s on the path [%s]" % (K(o.value), o.describe()))
    obs.flush()
    ctx.floor("send_message calls in on_event", n_sends, 1)
    # and it is this handler that is registered on the pipe that gets rendered (see C08.e for the stopper)
    WO = Walker(prog)
    for o in WO.run(outer):
        if o.kind != "return":
            continue
        regs = [e for _, e in _method_calls(o, "on_event", lambda r: True, partial=False) if e.arg("callback", 0) is not None and (_resolve_handler(prog, WO, e.arg("callback", 0)) or (None,))[0] is fi]
        obs.add("the handler is registered on the request's pipe on every path", bool(regs), outer, regs[0].node if regs else None, construct=None if regs else "process_request", detail="path [%s]" % o.describe())
    obs.flush()


# ---------------------------------------------------------------------------
# C09.i

_CBS = "self._event_callbacks"


def _is_cbs(v):
    return chain(v) == _CBS


def _from_cbs(v):
    """v iterates a snapshot of (or the very) callback table: the field itself, a slice, list()/tuple()/reversed()/
    sorted() of it, .copy()"""
    for _ in range(6):
        if _is_cbs(v):
            return True
        if isinstance(v, ast.Subscript) and isinstance(v.slice, ast.Slice):
            v = v.value
        elif isinstance(v, ast.Call) and chain(v.func) in ("list", "tuple", "reversed", "sorted") and len(v.args) == 1 and not v.keywords:
            v = v.args[0]
        elif isinstance(v, ast.Call) and isinstance(v.func, ast.Attribute) and v.func.attr == "copy" and not v.args:
            v = v.func.value
        else:
            return False
    return False


def _entry_layout(prog):
    """field names of a registration entry when every append site of Pipe puts a named tuple of one declaration into
    the callback table (else None: plain tuples, read by position)"""
    res = getattr(prog, "_c09_entry_layout", False)
    if res is False:
        W = Walker(prog)
        lays = set()
        for mf in prog.cls("pipe.Pipe").methods.values():
            for k_, n_ in stores_to(mf.node, _CBS, nested=False):
                if k_ == "append" and isinstance(n_, ast.Call) and n_.args:
                    lays.add(W.ctor_layout(mf, resolve_local(mf.node, n_.args[0])))
        res = lays.pop() if len(lays) == 1 else None
        prog._c09_entry_layout = res
    return res


def _entry_records(prog):
    lay = _entry_layout(prog)
    return {_CBS: lay} if lay is not None else {}


def _entry_of_callback(f):
    """f (resolved callee of a call) is component 0 of an element of the callback table -> the element (registration
    entry) expression, else None.  `for cb, _ in T`, `for entry in T: cb = entry[0]`, `for i, (cb, _) in enumerate(T)`
    and comprehensions all resolve to the same shape."""
    if not (isinstance(f, ast.Subscript) and isinstance(f.slice, ast.Constant) and f.slice.value == 0):
        return None
    el = f.value
    if isinstance(el, ast.Call) and hasattr(el, "_elem_of") and _from_cbs(el._elem_of):
        return el
    if isinstance(el, ast.Subscript) and isinstance(el.slice, ast.Constant) and el.slice.value == 1:
        en = el.value
        if isinstance(en, ast.Call) and hasattr(en, "_elem_of"):
            it = en._elem_of
            if isinstance(it, ast.Call) and chain(it.func) == "enumerate" and it.args and _from_cbs(it.args[0]):
                return el
    return None


def _same_entry(arg, entry, arity):
    """arg denotes the registration entry: the element itself or a tuple rebuilt from all of its components"""
    if K(arg) == K(entry):
        return True
    if isinstance(arg, ast.Call) and getattr(arg, "_rec", None) is not None and arity == len(arg._rec) and not arg.keywords and not any(isinstance(x, ast.Starred) for x in arg.args):
        # the entry rebuilt by its named-tuple constructor compares equal to the entry, like the rebuilt plain tuple
        arg = ast.Tuple(elts=list(arg.args), ctx=ast.Load())
    if isinstance(arg, ast.Tuple) and arity is not None and len(arg.elts) == arity:
        return all(isinstance(x, ast.Subscript) and isinstance(x.slice, ast.Constant) and x.slice.value == j and K(x.value) == K(entry) for j, x in enumerate(arg.elts))
    return False


def _filter_drops(value, entry):
    """value (what is stored into the table) is the table filtered by identity / inequality against `entry`:
    [x for x in <table> if x is not entry], [(cb, i) for (cb, i) in <table> if cb is not entry[0]], list(x for ...) --
    i.e. the store removes that registration (and nothing else)"""
    comp = value
    if isinstance(comp, ast.Call) and chain(comp.func) in ("list", "tuple") and len(comp.args) == 1 and not comp.keywords:
        comp = comp.args[0]
    if not isinstance(comp, (ast.ListComp, ast.GeneratorExp)) or len(comp.generators) != 1:
        return False
    g_ = comp.generators[0]
    if not _from_cbs(g_.iter) or len(g_.ifs) != 1 or g_.is_async:
        return False
    cond = g_.ifs[0]
    pol = True
    while isinstance(cond, ast.UnaryOp) and isinstance(cond.op, ast.Not):
        cond, pol = cond.operand, not pol
    if not (isinstance(cond, ast.Compare) and len(cond.ops) == 1):
        return False
    neg = isinstance(cond.ops[0], (ast.IsNot, ast.NotEq))
    if not (neg or isinstance(cond.ops[0], (ast.Is, ast.Eq))) or (neg != pol):
        return False

    def elem_part(x):
        """x is the comprehension's element (-> ()) or a constant component of it (-> (i,)), else None"""
        if isinstance(x, ast.Call) and hasattr(x, "_elem_of") and x._elem_of is g_.iter:
            return ()
        if isinstance(x, ast.Subscript) and isinstance(x.slice, ast.Constant) and isinstance(x.value, ast.Call) and hasattr(x.value, "_elem_of") and x.value._elem_of is g_.iter:
            return (x.slice.value,)
        return None

    def entry_part(x):
        if K(x) == K(entry):
            return ()
        if isinstance(x, ast.Subscript) and isinstance(x.slice, ast.Constant) and K(x.value) == K(entry):
            return (x.slice.value,)
        return None

    l, r = cond.left, cond.comparators[0]
    ok = False
    for a_, b_ in ((l, r), (r, l)):
        pa, pb = elem_part(a_), entry_part(b_)
        # comparing whole entries, or their callbacks (component 0: the callback identifies the registration)
        if pa is not None and pb is not None and pa == pb and pa in ((), (0,)):
            ok = True
    if not ok:
        return False
    # what is kept is the element itself (or the tuple rebuilt from all its components)
    e0 = comp.elt
    if elem_part(e0) == ():
        return True
    return isinstance(e0, ast.Tuple) and len(e0.elts) >= 2 and all(elem_part(x) == (j,) for j, x in enumerate(e0.elts))


def _on_fresh_container(e):
    """the call event is a method call on a container literal / comprehension / list()-dict()-set() object built on this
    very path (`remaining = []; remaining.append(x)`), or the construction of one: it runs no code of the package"""
    def fresh(v):
        return isinstance(v, (ast.List, ast.Dict, ast.Set, ast.Tuple, ast.ListComp, ast.DictComp, ast.SetComp)) or \
            (isinstance(v, ast.Call) and chain(v.func) in ("list", "dict", "set", "tuple", "collections.deque", "deque") and all(fresh(a_) for a_ in v.args) and not v.keywords)
    return isinstance(e.func, ast.Attribute) and fresh(e.func.value)


def _ended_decisions(o):
    """[(Dec, ended?)] decisions of the form `self._event_callbacks is False` on the outcome, in path order"""
    out = []
    for dcs in o.decisions:
        t = const_test(dcs.expr, False)
        if t is not None and _is_cbs(t[0]):
            out.append((dcs, dcs.val == t[1]))
    return out


@R.clause("C09.i", "Pipe._add_event delivers nothing once _event_callbacks is False; _end sets it before delivering the final event; handlers that decline are removed and the pipe ends when no interest remains")
def i(ctx):
    prog = ctx.prog
    fi = prog.func("pipe.Pipe._add_event")
    p = params(fi)
    ctx.need(len(p) == 1 and not writes_to_name(fi.node, p[0]), "_add_event signature changed")
    # arity of a registration entry: what the append sites of the class put into the table
    ci = prog.cls("pipe.Pipe")
    ar = set()
    for mf in ci.methods.values():
        for k_, n_ in stores_to(mf.node, _CBS, nested=False):
            if k_ == "append" and isinstance(n_, ast.Call) and n_.args:
                v_ = resolve_local(mf.node, n_.args[0])
                ar.add(len(v_.elts) if isinstance(v_, ast.Tuple) else None)
    arity = ar.pop() if len(ar) == 1 else None
    if arity is None and _entry_layout(prog) is not None:
        arity = len(_entry_layout(prog))
    W = Walker(prog, loop_bound=2, records=_event_records(ctx, p[0]), elem_records=_entry_records(prog))
    outs = W.run(fi)
    ctx.need(bool(outs), "_add_event has no path")
    obs = _Obs(ctx)

    def deliveries(o):
        out = []
        for j, e in o.calls():
            en = _entry_of_callback(e.func)
            if en is not None and len(e.args) == 1 and chain(e.args[0]) == p[0] and not e.kw:
                out.append((j, e, en))
        return out

    n_del = n_late = n_rem = n_end = 0
    for o in outs:
        if o.kind != "return":
            continue
        ds = deliveries(o)
        ended = _ended_decisions(o)
        ends = [(j, e) for j, e in o.calls(lambda e: chain(e.func) == "self._end")]
        first_side_effect = min([j for j, e, en in ds] + [j for j, e in ends] + [len(o.events)])
        entry_tests = [(dcs, v) for dcs, v in ended if dcs.pos <= first_side_effect]
        if entry_tests and entry_tests[0][1]:
            # the pipe had ended when the event arrived
            n_late += 1
            pin = entry_tests[0][0]
            obs.add("an event added after the end reaches no callback and ends nothing", not ds and not ends, pin.fi, _stmt_of(cfg_of(pin.fi), pin.node), construct="if self._event_callbacks is False: ... return")
            continue
        for j, e, en in ds:
            n_del += 1
            obs.add("an event is delivered only while the pipe has not ended", bool(entry_tests), e.fi, e.node)
        # declining handlers are removed, the others stay
        lost = False
        for idx, (j, e, en) in enumerate(ds):
            nxt = ds[idx + 1][0] if idx + 1 < len(ds) else len(o.events)
            rem = [r for jr, r in _method_calls(o, "remove", _is_cbs) if j < jr < nxt and r.args and _same_entry(r.args[0], en, arity)]
            rem += [r for jr, r in o.stores(lambda r: r.kind == "store" and _is_cbs(r.target)) if j < jr < nxt and _filter_drops(r.value, en)]
            # any other change of the table in this window is outside the rule's vocabulary: refuse rather than guess
            other = [r for jr, r in o.stores(lambda r: _is_cbs(r.target) or (isinstance(r.target, ast.Subscript) and _is_cbs(r.target.value))) if j < jr < nxt and r not in rem]
            other += [r for jr, r in o.calls(lambda r: isinstance(r.func, ast.Attribute) and _is_cbs(r.func.value) and r.func.attr in ("pop", "clear", "discard", "insert", "append", "extend", "remove", "sort", "reverse")) if j < jr < nxt and r not in rem]
            ctx.need(not other, "the callback table is modified after a delivery in a way the rule cannot interpret: %s" % (K(other[0].expr) if other and other[0].kind == "call" else (K(other[0].target) if other else "")))
            keep = o.truth(e.expr)
            if keep is True:
                obs.add("a handler that asks to be kept is not removed", not rem, e.fi, e.node)
                continue
            # all interest was lost during the callback: the table is gone, nothing to remove, nothing more to do
            gone = [dcs for dcs, v in ended if v and dcs.pos > j]
            if gone and keep is False and idx == len(ds) - 1 and not [x for x in ends if x[0] > j]:
                lost = True
                continue
            n_rem += 1 if rem else 0
            obs.add("a handler that returns a false value is removed from the callbacks", keep is False and bool(rem), rem[0].fi if rem else e.fi, rem[0].node if rem else e.node,
                    detail="path [%s]" % o.describe())
        if lost:
            continue
        # no interest left -> end
        last = ds[-1][0] if ds else -1
        asks = [(j, e) for j, e in o.calls(lambda e: chain(e.func) == "self._any_interest") if j > last]
        t = o.truth(asks[-1][1].expr) if asks else None
        ended_after = [x for x in ends if asks and x[0] > asks[-1][0]]
        if t is False:
            n_end += 1
        pin = ended_after[0][1] if ended_after else (asks[-1][1] if asks else (ds[-1][1] if ds else None))
        obs.add("after delivery the pipe ends as soon as no interested handler remains", t is not None and (bool(ended_after) == (t is False)), pin.fi if pin else fi, pin.node if pin else None,
                construct=None if pin else "Pipe._add_event", detail="path [%s]" % o.describe())
    obs.add("a handler that returns a false value is removed from the callbacks", n_rem >= 1, fi, None, construct="Pipe._add_event: removal of declining handlers")
    obs.add("after delivery the pipe ends as soon as no interested handler remains", n_end >= 1, fi, None, construct="Pipe._add_event: end without interest")
    obs.add("an event added after the end reaches no callback and ends nothing", n_late >= 1, fi, None, construct="Pipe._add_event: events after the end")
    obs.flush()
    ctx.floor("callback invocations in _add_event", n_del, 1)
    # _end
    ef = prog.func("pipe.Pipe._end")
    WE = Walker(prog, loop_bound=2, elem_records=_entry_records(prog))
    n_cb = 0
    set_node = None
    for o in WE.run(ef):
        if o.kind != "return":
            continue
        sets = [(j, s) for j, s in o.stores(lambda s: s.kind == "store" and _is_cbs(s.target) and isinstance(s.value, ast.Constant) and s.value.value is False)]
        if sets:
            set_node = sets[0][1]
        obs.add("_end marks the pipe as ended on every path", bool(sets), sets[0][1].fi if sets else ef, sets[0][1].node if sets else None, construct=None if sets else "Pipe._end")
        for j, e in o.calls():
            if _entry_of_callback(e.func) is not None and len(e.args) == 1:
                n_cb += 1
                obs.add("_end marks the pipe as ended before it delivers the final event (re-entrant adds are discarded)", any(js < j for js, s in sets), e.fi, e.node)
    obs.flush()
    ctx.floor("callback invocations in _end", n_cb, 1)
    is_field = lambda t: isinstance(t, ast.Attribute) and t.attr == "_event_callbacks"
    is_false = lambda v_: isinstance(v_, ast.Constant) and v_.value is False
    writers = field_writers(prog, "_event_callbacks", modules=["aiocoap.pipe"])
    falsers = [(f_, n) for f_, hits in writers.items() for k, n in hits if k == "assign" and any(is_false(v_) for v_ in _assigned_to(n, is_field))]
    ctx.ob("only _end marks a pipe as ended", all(f_ == ef.short for f_, n in falsers) and bool(falsers), ef, set_node.node if set_node is not None else ef.node)
    # every other (re)binding of the table -- unregistering a handler, dropping a declining one by filtering -- happens
    # only while the pipe is known not to have ended: on the path, a test `_event_callbacks is False` came out false and
    # nothing that could end the pipe (an opaque call, an await, another store to the table) lies between test and store
    uf = prog.func("pipe.Pipe._unregister_on_event")
    rebinders = sorted({f_ for f_, hits in writers.items() for k, n in hits if k == "assign" and f_ not in (ef.short, "pipe.Pipe.__init__")} | {uf.short})
    for f_ in rebinders:
        rf = prog.func(f_)
        WU = Walker(prog, loop_bound=2, elem_records=_entry_records(prog))
        for o in WU.run(rf):
            for j, s_ in o.stores(lambda s_: s_.kind == "store" and _is_cbs(s_.target) and not is_false(s_.value)):
                fresh = False
                for dcs, v in _ended_decisions(o):
                    if v or dcs.pos > j:
                        continue
                    between = o.events[dcs.pos:j]
                    if not any((x.kind == "await") or (x.kind == "call" and not x.pure and not is_log_call(x.node) and not _on_fresh_container(x)) or (x.kind in ("store", "del") and _is_cbs(x.target)) for x in between):
                        fresh = True
                obs.add("unregistering a handler does not revive an ended pipe" if rf is uf else "an ended pipe is never revived", fresh, s_.fi, s_.node, detail="path [%s]" % o.describe())
    obs.flush()


# ---------------------------------------------------------------------------
# C09.j


@R.clause("C09.j", "ConstructionRenderableError.to_message builds Message(code=self.code, payload=self.message.encode('utf8')); every error class binds the response code its name denotes; the Code enum agrees with the RFC registries")
def j(ctx):
    prog = ctx.prog
    base = "aiocoap.error.ConstructionRenderableError"
    tm = prog.func("error.ConstructionRenderableError.to_message")
    W = Walker(prog)
    obs = _Obs(ctx)
    n_ret = 0
    for o in W.run(tm):
        rfi, rnode = getattr(o.value, "_fi", tm), _stmt_of(cfg_of(getattr(o.value, "_fi", tm)), origin(o.value)) if o.value is not None else tm.node
        if isinstance(rnode, (ast.FunctionDef, ast.AsyncFunctionDef)):
            rnode = None
        if not obs.add("to_message returns a message on every path", o.kind == "return", rfi, rnode, construct=None if rnode is not None else "ConstructionRenderableError.to_message", detail="path [%s]" % o.describe()):
            continue
        n_ret += 1
        # what the message is made of: constructor keywords and attribute stores up to the return are the same fact
        fields = _message_fields(W, o, o.value)
        okm = fields is not None and sorted(fields) == ["code", "payload"]
        obs.add("to_message builds a Message from code and payload only", okm, rfi, rnode, detail="fields: %s" % (sorted(fields) if fields is not None else "not a Message(...) built here"))
        if not okm:
            continue
        obs.add("the message's code is the class/instance attribute `code`", chain(fields["code"]) == "self.code", rfi, rnode)
        obs.add("the message's payload is the UTF-8 encoding of the attribute `message`", _utf8_of(fields["payload"], "self.message"), rfi, rnode, detail="payload %s" % K(fields["payload"]))
    obs.flush()
    ctx.need(n_ret >= 1, "to_message has no returning path")
    bci = prog.cls("error.ConstructionRenderableError")
    ctx.ob("the default code of a ConstructionRenderableError is 5.00", _class_code(prog, base) == _num(RESPONSE_CODES["INTERNAL_SERVER_ERROR"]) and "code" in bci.attrs, None, None, construct="ConstructionRenderableError.code")
    ctx.ob("the default diagnostic payload is empty", "message" in bci.attrs and isinstance(bci.attrs["message"], ast.Constant) and bci.attrs["message"].value == "", None, None, construct="ConstructionRenderableError.message")
    init = bci.methods.get("__init__")
    if init is not None:
        ip = params(init)
        sts = [n for k, n in stores_to(init.node, "self.message", nested=False) if k == "assign"]
        ctx.ob("a diagnostic passed to the constructor becomes the payload text", bool(ip) and any(isinstance(n, ast.Assign) and isinstance(n.value, ast.Name) and n.value.id == ip[0] for n in sts) and not stores_to(init.node, "self.code", nested=False), init, sts[0] if sts else init.node,
               construct=None if sts else "ConstructionRenderableError.__init__")
    # the Code enum against the registries
    cci = prog.cls("numbers.codes.Code")
    for name, cd in sorted(RESPONSE_CODES.items()):
        try:
            val = norm.consteval(cci.attrs[name]) if name in cci.attrs else None
        except norm.NormError:
            val = None
        ctx.ob("Code.%s == %d.%02d" % (name, cd[0], cd[1]), val == _num(cd), None, None, construct="Code.%s" % name, detail="value %r" % val)
    # one class per error code, bound to the code its name denotes
    n_err = 0
    for name, cd in sorted(RESPONSE_CODES.items()):
        if cd[0] < 4:
            continue
        cn = _camel(name)
        q = "aiocoap.error." + cn
        ci = prog.classes.get(q)
        if not ctx.ob("error.%s exists and is a ConstructionRenderableError" % cn, ci is not None and prog.is_subclass(q, base), None, None, construct="class error.%s" % cn):
            continue
        n_err += 1
        cv = _code_value(prog, ci.module, ci.attrs["code"]) if "code" in ci.attrs else None
        ctx.ob("error.%s binds code %d.%02d" % (cn, cd[0], cd[1]), cv is not None and cv[1] == _num(cd) and cv[0] == name, None, None, construct="error.%s.code" % cn, detail="bound to %s" % (cv,))
    ctx.floor("registry-named error classes", n_err, 21)
    for cn, cd in sorted(DERIVED_ERRORS.items()):
        q = "aiocoap.error." + cn
        ctx.need(q in prog.classes, "anchor class error.%s missing" % cn)
        ctx.ob("error.%s renders as %d.%02d" % (cn, cd[0], cd[1]), prog.is_subclass(q, base) and _class_code(prog, q) == _num(cd), None, None, construct="error.%s" % cn, detail="code value %r" % _class_code(prog, q))
    # homonyms elsewhere in the package
    byname = {_camel(n): cd for n, cd in RESPONSE_CODES.items() if cd[0] >= 4}
    for q in sorted(prog.subclasses(base)):
        ci = prog.classes[q]
        short = q.rsplit(".", 1)[1]
        if q.startswith("aiocoap.error.") or short not in byname:
            continue
        ctx.ob("%s binds the code its name denotes" % q[len("aiocoap."):], _class_code(prog, q) == _num(byname[short]), None, None, construct="%s.code" % q[len("aiocoap."):])
    # no subclass in error.py overrides to_message or code assignment dynamically
    for q in sorted(prog.subclasses(base)):
        ci = prog.classes[q]
        if q.startswith("aiocoap.error.") and q != base:
            ctx.ob("error.%s uses the common renderer" % q.rsplit(".", 1)[1], "to_message" not in ci.methods, None, None, construct="error.%s.to_message" % q.rsplit(".", 1)[1])


# ---------------------------------------------------------------------------
# seeded faults (sensitivity self-test)
@R.clause("C09.k", "a transport error reported for one peer stops only that peer's requests in flight (shared with C02.e)")
def k_shared(ctx):
    """'A failure in one request neither affects requests in flight at the same time': an independently written breaking
    change dropped the per-remote filter when TokenManager.dispatch_error collects the stoppers of incoming requests,
    so an error for peer A cancelled the handler of peer B's request, which then never got a response.  The
    obligations are those of C02.e."""
    from . import c02
    c02.e(ctx)


@R.clause("C09.l", "only an unknown path is answered 4.04: the KeyError handler around the child lookup covers the lookup alone, not the handler's own rendering (shared with C17.c)")
def l_shared(ctx):
    """An independently written breaking change moved `return await child.render_to_pipe(request)` into the try block
    whose `except KeyError` raises NotFound: a KeyError raised by application code below a Site was answered 4.04
    instead of the bare 5.00.  The obligations are those of C17.c."""
    from . import c17
    c17.c(ctx)


@R.clause("C09.n", "at most one request is live per (token, remote), and the live one is tracked: a request overriding the same (token, remote) finds the old entry and stops it before the new (pipe, stopper) is stored under that key, the stored pipe is the one rendered, every stored request is rendered, and the entry leaves when interest ends (shared with C08.e / C18.g)")
def n_shared(ctx):
    """'Exactly one final response carrying the request's token': on the wire a response is attributed to a request
    by (token, remote) alone, so the clause can only hold if at most one server-side pipe per (token, remote) is able
    to send at any time.  process_request maintains that with incoming_requests: the table holds the live pipe of
    every key, and a request arriving on a key that is still occupied (token re-use after giving up, a renewed
    observation) calls the old entry's stopper -- which ends the old pipe, cancels its render task (C08.e) and, through
    the pipe's end-of-interest hook, deletes the entry *by key* -- and only then stores its own entry.  Both halves are
    needed, and they are two sites that keep one invariant ("whatever the overridden pipe's end removes is the
    overridden pipe's own entry"): the hook removes by key, therefore the stopper has to have run while the key still
    denotes the old entry (or no entry).  An independently written breaking change popped the old entry up front but
    called its stopper after the new entry was stored: the old pipe's hook then deleted the new entry, the new request
    ran untracked, a third request on the token neither found nor stopped it, and the peer got two final responses on
    one token (the abandoned request's outcome carrying the newest request's token) while the abandoned handler ran on.
    The same untracked request is invisible to dispatch_error (C09.k) and to shutdown.

    That condition is a necessary condition of C09 and it is the process_request part of C08.e word for word (key of
    the insertion, freshness of the stored pipe, stopper of the stored pipe, presence test and stopper call on every
    path to the insertion -- presence known through `in`, `.get`/`.pop(k, None)` + None test or a KeyError handler --,
    rendering of the stored pipe after the insertion on every path, removal on interest end), decided there by value
    flow (kit Flow.origins / entry_read), not by statement shape.  It is run here under this property's id rather
    than restated: one statement of the invariant, so that a maintainer's edit is judged the same way by C08, C09
    and C18.  What the shared rule does not accept although it would keep the invariant: stopping the old request
    after the insertion together with an identity-guarded removal in the hook (`if self.incoming_requests.get(key)
    is entry`) -- it reports the late stop; today's hook removes by key, for which the order is necessary."""
    from . import c08
    c08._e_process_request(ctx)


class _NoEval(Exception):
    pass


def _ev(prog, e, leaf):
    """the checker's own evaluation of a small integer/boolean expression with Python's semantics; leaf(e) gives the
    value of an uninterpreted sub-expression (or raises _NoEval)"""
    try:
        return leaf(e)
    except _NoEval:
        pass
    if isinstance(e, ast.Constant):
        return e.value
    if isinstance(e, ast.BoolOp):
        v = None
        for x in e.values:
            v = _ev(prog, x, leaf)
            if isinstance(e.op, ast.Or) and v:
                return v
            if isinstance(e.op, ast.And) and not v:
                return v
        return v
    if isinstance(e, ast.UnaryOp):
        v = _ev(prog, e.operand, leaf)
        if isinstance(e.op, ast.Not):
            return not v
        if isinstance(e.op, ast.USub):
            return -v
        if isinstance(e.op, ast.Invert):
            return ~v
        if isinstance(e.op, ast.UAdd):
            return +v
    if isinstance(e, ast.IfExp):
        return _ev(prog, e.body if _ev(prog, e.test, leaf) else e.orelse, leaf)
    if isinstance(e, ast.BinOp):
        l, r = _ev(prog, e.left, leaf), _ev(prog, e.right, leaf)
        ops = {ast.Add: lambda a, b: a + b, ast.Sub: lambda a, b: a - b, ast.Mult: lambda a, b: a * b, ast.FloorDiv: lambda a, b: a // b, ast.Mod: lambda a, b: a % b,
               ast.LShift: lambda a, b: a << b, ast.RShift: lambda a, b: a >> b, ast.BitAnd: lambda a, b: a & b, ast.BitOr: lambda a, b: a | b, ast.BitXor: lambda a, b: a ^ b,
               ast.Pow: lambda a, b: a ** b if abs(b) < 64 else _raise()}
        f = ops.get(type(e.op))
        if f is None:
            raise _NoEval(ast.unparse(e))
        return f(l, r)
    if isinstance(e, ast.Compare):
        left = _ev(prog, e.left, leaf)
        for op, rx in zip(e.ops, e.comparators):
            right = _ev(prog, rx, leaf)
            cmpf = {ast.Eq: lambda a, b: a == b, ast.NotEq: lambda a, b: a != b, ast.Lt: lambda a, b: a < b, ast.LtE: lambda a, b: a <= b, ast.Gt: lambda a, b: a > b,
                    ast.GtE: lambda a, b: a >= b, ast.Is: lambda a, b: a is b, ast.IsNot: lambda a, b: a is not b, ast.In: lambda a, b: a in b, ast.NotIn: lambda a, b: a not in b}.get(type(op))
            if cmpf is None:
                raise _NoEval(ast.unparse(e))
            if not cmpf(left, right):
                return False
            left = right
        return True
    if isinstance(e, (ast.Tuple, ast.List, ast.Set)):
        return tuple(_ev(prog, x, leaf) for x in e.elts)
    if isinstance(e, ast.Dict) and all(k is not None for k in e.keys):
        return {_ev(prog, k, leaf): _ev(prog, v, leaf) for k, v in zip(e.keys, e.values)}
    if isinstance(e, ast.Subscript):
        return _ev(prog, e.value, leaf)[_ev(prog, e.slice, leaf)]
    if isinstance(e, ast.Call) and isinstance(e.func, ast.Attribute) and e.func.attr == "get" and 1 <= len(e.args) <= 2 and not e.keywords:
        d = _ev(prog, e.func.value, leaf)
        if isinstance(d, dict):
            return d.get(*[_ev(prog, a_, leaf) for a_ in e.args])
    if isinstance(e, ast.Call) and chain(e.func) in ("bool", "int") and len(e.args) == 1 and not e.keywords:
        v = _ev(prog, e.args[0], leaf)
        return bool(v) if chain(e.func) == "bool" else int(v)
    if isinstance(e, (ast.Name, ast.Attribute)):
        # a module-level constant (table) of the module the expression was written in
        fi = getattr(e, "_fi", None)
        c = chain(e)
        if fi is not None and c is not None and "." not in c:
            try:
                return _ev(prog, prog.module_const(fi.module.name, c), leaf)
            except AnchorError:
                pass
    raise _NoEval(ast.unparse(e))


def _raise():
    raise _NoEval("exponent out of range")


@R.clause("C09.m", "No-Response suppresses exactly the response's own class: the mask is bit (class - 1) (RFC 7967)")
def m_mask(ctx):
    """'Exactly one final response ... unless No-Response ... suppress it'.  An independently written breaking change
    re-parenthesised the mask to (1 << class) - 1, so a No-Response value aimed at 2.xx also swallowed 4.xx/5.xx.

    Decided semantically: every condition of send_message (on any path, resolved through locals and helpers) that
    depends on both the message's No-Response option and its code class is evaluated by the checker for every option
    value 0..63 / None and every response class 2, 4, 5; it must be true exactly when (value or 0) & (1 << (class-1))
    is non-zero (or exactly when it is zero: the negated spelling).  Any spelling -- named temporaries, `!= 0` or
    truthiness, shifts or powers, a lookup table -- with that truth table is accepted; none other is."""
    prog = ctx.prog
    fi = prog.func("messagemanager.MessageManager.send_message")
    def mentions(e, attr):
        return [n for n in ast.walk(e) if isinstance(n, ast.Attribute) and n.attr == attr]

    conds = {}
    try:
        W = Walker(prog, max_outcomes=20000)
        outs = W.run(fi)
        ctx.need(bool(outs), "send_message has no path")
        for o in outs:
            for dcs in o.decisions:
                if mentions(dcs.expr, "no_response") and mentions(dcs.expr, "class_"):
                    conds.setdefault(K(dcs.expr), dcs)
    except AnalysisError as ex:
        # too many paths to enumerate: the atomic conditions of the function's own CFG, with single-assignment locals
        # substituted (path-insensitive, enough to find and evaluate the condition)
        ctx.note("send_message not walked path by path (%s); conditions taken from the CFG" % ex)
        from ._kit_c09 import Dec, clone
        env = norm.local_env(fi.node)

        def subst(e, depth=0):
            def fn(n):
                if isinstance(n, ast.Name) and isinstance(n.ctx, ast.Load) and n.id in env and depth < 6:
                    return subst(env[n.id], depth + 1)
                return None
            return clone(e, fn)
        for nd in cfg_of(fi).nodes:
            if nd.kind == "test" and isinstance(nd.ast, ast.expr):
                e_ = subst(nd.ast)
                for x in ast.walk(e_):
                    x._fi = fi
                if mentions(e_, "no_response") and mentions(e_, "class_"):
                    conds.setdefault(K(e_), Dec(e_, True, K(e_), 0, nd.ast, fi))
    pin = fi.node
    ctx.ob("send_message applies a No-Response mask", bool(conds), fi, pin, construct="send_message: No-Response mask")
    for k, dcs in sorted(conds.items()):
        nrs = {K(n) for n in mentions(dcs.expr, "no_response")}
        cls = {K(n) for n in mentions(dcs.expr, "class_")}
        ctx.need(len(nrs) == 1 and len(cls) == 1, "the No-Response condition %s reads several options / classes" % k)
        knr, kcl = nrs.pop(), cls.pop()
        same = differ = True
        bad = None
        for c_ in (2, 4, 5):
            for v_ in [None] + list(range(64)):
                def leaf(e, v_=v_, c_=c_):
                    if isinstance(e, ast.Attribute):
                        ke = K(e)
                        if ke == knr:
                            return v_
                        if ke == kcl:
                            return c_
                    raise _NoEval()
                want = ((v_ or 0) & (1 << (c_ - 1))) != 0
                try:
                    got = bool(_ev(prog, dcs.expr, leaf))
                except _NoEval as ex:
                    raise AnalysisError("C09.m: cannot evaluate the No-Response condition %s (%s)" % (k, ex))
                except (TypeError, ValueError, KeyError, IndexError, ZeroDivisionError) as ex:
                    got = None
                if got is not want:
                    same = False
                    bad = bad or (v_, c_, got)
                if got is not (not want):
                    differ = False
        ctx.ob("the mask is exactly 1 << (class - 1): 2 for 2.xx, 8 for 4.xx, 16 for 5.xx", same or differ, dcs.fi, _stmt_of(cfg_of(dcs.fi), dcs.node),
               detail=("condition %s is %r for No-Response=%r on a %d.xx response" % (k, bad[2], bad[0], bad[1])) if bad else None)
    from ..absdom import code_predicates
    ctx.ob("Code.class_ is the code's upper three bits", code_predicates(ctx.prog)["class_shift"] == 5, None, None, construct="Code.class_")


# ---------------------------------------------------------------------------
# C09.o  nothing raises between the arrival of the request and the existence of its render task

# what the library itself documents about the objects that are formatted on the way ("A single request message is placed
# in the Pipe at creation time"): attribute types the conversions are followed through
_FIELD_TYPES = {"aiocoap.pipe.Pipe": {"request": "aiocoap.message.Message"}}
_FMT_SPEC = None


def _percent_kinds(fmt, n):
    """conversion kinds ('r' repr / 's' str) a %-format string applies to its n operands, in order; None when the
    specifiers cannot be matched with the operands (then every kind present applies to every operand)"""
    import re
    global _FMT_SPEC
    if _FMT_SPEC is None:
        _FMT_SPEC = re.compile(r"%(?:\((\w*)\))?[#0\- +]*(?:\*|\d+)?(?:\.(?:\*|\d+))?[hlL]?([diouxXeEfFgGcrsa%])")
    specs = [m for m in _FMT_SPEC.finditer(fmt) if m.group(2) != "%"]
    kind = lambda ch: "r" if ch in "ra" else ("s" if ch == "s" else "n")
    if any(m.group(1) is not None for m in specs) or len(specs) != n or any("*" in m.group(0) for m in specs):
        return None, {kind(m.group(2)) for m in specs}
    return [kind(m.group(2)) for m in specs], None


def _eager_conversions(fi):
    """(operand, kinds, node) for every place where fi itself (not a nested def / lambda, not the lazily formatted
    arguments of a log call) turns an object into text: `fmt % x`, f-strings, str.format, repr()/str()/format()/ascii().
    kinds is a subset of {'r', 's'}: which of __repr__ / __str__ (falling back to __repr__) runs."""
    out = []
    for n in walk_no_nested(fi.node):
        if isinstance(n, ast.BinOp) and isinstance(n.op, ast.Mod):
            left = resolve_local(fi.node, n.left)
            if isinstance(left, ast.Constant) and not isinstance(left.value, (str, bytes)):
                continue  # arithmetic
            if isinstance(left, ast.Constant) and isinstance(left.value, bytes):
                continue
            right = resolve_local(fi.node, n.right)
            if isinstance(right, ast.Tuple):
                ops = list(right.elts)
            elif isinstance(right, ast.Dict):
                ops = [v for v in right.values]
            else:
                ops = [right]
            per, anyk = (None, {"r", "s"})
            if isinstance(left, ast.Constant) and not isinstance(right, ast.Dict):
                per, anyk = _percent_kinds(left.value, len(ops))
            elif isinstance(left, ast.Constant):
                _, anyk = _percent_kinds(left.value, -1)
            for i, op in enumerate(ops):
                ks = {per[i]} if per is not None else set(anyk or ())
                ks.discard("n")
                if ks:
                    out.append((op, ks, n))
        elif isinstance(n, ast.FormattedValue):
            ks = {"r"} if n.conversion in (114, 97) else {"s"}
            out.append((n.value, ks, n))
        elif isinstance(n, ast.Call):
            nm = chain(n.func)
            if nm in ("repr", "ascii") and len(n.args) == 1:
                out.append((n.args[0], {"r"}, n))
            elif nm in ("str", "format") and n.args:
                out.append((n.args[0], {"s"}, n))
            elif isinstance(n.func, ast.Attribute) and n.func.attr in ("format", "format_map"):
                recv = resolve_local(fi.node, n.func.value)
                if isinstance(recv, ast.Constant) and isinstance(recv.value, str):
                    ks = {"s"} | ({"r"} if "!r" in recv.value or "!a" in recv.value else set())
                    for a in list(n.args) + [k.value for k in n.keywords]:
                        out.append((a, ks, n))
    return out


def _static_type(fi, e, types):
    """class of an operand: a name / attribute chain typed by `types` ({root name: class}) and the documented field
    types; None = unknown (no obligation: the rule only speaks about objects it can type)"""
    e = resolve_local(fi.node, e)
    ch = chain(e)
    if not ch:
        return None
    parts = ch.split(".")
    t = types.get(parts[0])
    for p in parts[1:]:
        if t is None:
            return None
        t = _FIELD_TYPES.get(t, {}).get(p)
    return t


def _conversion_escapes(prog, EA, fi, types, seen, depth=0):
    """[(node in fi, converting method, escape classes)] for the conversions fi performs eagerly on typed operands,
    followed through the converting methods' own conversions of their typed fields"""
    res = []
    for op, ks, node in _eager_conversions(fi):
        t = _static_type(fi, op, types)
        if t is None:
            continue
        meths = set()
        if "r" in ks:
            meths.add(prog.lookup_method(t, "__repr__"))
        if "s" in ks:
            meths.add(prog.lookup_method(t, "__format__") if node.__class__ is ast.FormattedValue and prog.lookup_method(t, "__format__") else None)
            meths.add(prog.lookup_method(t, "__str__") or prog.lookup_method(t, "__repr__"))
        for m in sorted((m for m in meths if m is not None), key=lambda m: m.qn):
            esc = sorted({e_.cls for e_ in EA.escapes(m, selfcls=t)})
            res.append((node, m, esc))
            if (m.qn, t) not in seen and depth < 3:
                seen.add((m.qn, t))
                ps = params(m, skip_self=False)
                if ps:
                    for node2, m2, esc2 in _conversion_escapes(prog, EA, m, {ps[0]: t}, seen, depth + 1):
                        res.append((node, m2, esc2))
    return res


@R.clause("C09.o", "nothing raises between the arrival of a request at the context and the existence of its render task: Context.render_to_pipe, error_to_message and run_driving_pipe raise nothing themselves, and the text conversions they apply eagerly to the request or its pipe (%r / f-string / repr / str: Message.__repr__, Pipe.__repr__) raise nothing")
def o_prelude(ctx):
    """'Every request that reaches a server context is answered ... whatever the handler does': the mechanism that
    turns failures into responses (run_driving_pipe.wrapped -> add_exception -> error_to_message, C09.a-c) only exists
    once the render task exists.  Everything Context.render_to_pipe evaluates before that -- its own statements, the
    synchronous bodies of error_to_message and run_driving_pipe, the arguments of the call including the task's name,
    which is formatted eagerly from the request -- runs in the transport's receive path with no handler: an exception
    there is no response at all, for a request-dependent fault (a payload, an option) on exactly the requests that
    carry it.  An independently written breaking change made Message.__repr__ decode a payload excerpt; the textual
    functions of this clause were untouched.

    Decided with the escape analysis: the escape sets of the three functions are empty, and for every eager conversion
    site in them whose operand the rule can type (the pipe parameter: Pipe, <pipe>.request: Message -- through
    single-assignment locals) the escape set of the method the conversion runs (__repr__; __str__/__format__ when
    defined, else __repr__) is empty, followed into that method's own conversions of typed fields (Pipe.__repr__
    formats self.request).  Arguments of log calls are formatted lazily by logging, which contains their failures;
    nested defs and lambdas run later (inside the task or as callbacks) and are judged by the other clauses.  A
    conversion that moves into the task, into a lambda or disappears makes the obligation vacuous -- correctly so."""
    prog = ctx.prog
    EA = EscapeAnalysis(prog)
    cf = prog.func("protocol.Context.render_to_pipe")
    cp = params(cf)
    ctx.need(len(cp) == 1, "Context.render_to_pipe signature changed")
    rd = prog.func("pipe.run_driving_pipe")
    e2m = prog.func("pipe.error_to_message")
    rp, ep = params(rd), params(e2m)
    ctx.need(len(rp) >= 2 and len(ep) >= 1, "run_driving_pipe / error_to_message signature changed")
    PIPE = "aiocoap.pipe.Pipe"
    ctx.need(PIPE in prog.classes and "aiocoap.message.Message" in prog.classes, "Pipe / Message classes not found")
    n_sites = 0
    for fi, types, selfcls in ((cf, {cp[0]: PIPE}, "aiocoap.protocol.Context"), (e2m, {ep[0]: PIPE}, None), (rd, {rp[0]: PIPE}, None)):
        esc = sorted({e_.cls for e_ in EA.escapes(fi, selfcls=selfcls)})
        ctx.ob("%s raises nothing before the render task exists (an exception there is outside error_to_message: no response)" % fi.short.split(".", 1)[1],
               not esc, fi, fi.node, construct="escape set of %s" % fi.short.split(".", 1)[1], detail="escapes: %s" % esc)
        for node, m, esc in _conversion_escapes(prog, EA, fi, types, set()):
            n_sites += 1
            ctx.ob("a text conversion of the request / its pipe evaluated before the render task exists cannot raise", not esc, fi, node,
                   detail=None if not esc else "%s can raise %s" % (m.short, esc))
    ctx.note("%d eager conversion(s) of typed operands on the way to the render task" % n_sites)
    ctx.extra["prelude_implicit_sites"] = EA.implicit_sites


# ---------------------------------------------------------------------------
# C09.p  the render task is strongly referenced

_WEAK_CALLS = ("weakref.ref", "weakref.proxy", "weakref.WeakMethod", "weakref.finalize", "weakref.WeakSet", "weakref.WeakValueDictionary",
               "weakref.WeakKeyDictionary", "weakref.getweakrefcount", "weakref.getweakrefs")
_WEAK_CONTAINERS = ("weakref.WeakSet", "weakref.WeakValueDictionary", "weakref.WeakKeyDictionary")


def _ext_name(fi, e):
    """dotted name of e with the module's (and the function's own) imports applied: `ref` -> `weakref.ref`"""
    ch = chain(e)
    if not ch:
        return None
    head, _, rest = ch.partition(".")
    tgt = fi.module.imports.get(head)
    if tgt is None:
        return ch
    return tgt + ("." + rest if rest else "")


def _scope_bound(g):
    """names bound in the scope of the nested function / lambda g itself"""
    a = g.args
    bound = {x.arg for x in a.posonlyargs + a.args + a.kwonlyargs}
    for x in (a.vararg, a.kwarg):
        if x is not None:
            bound.add(x.arg)
    if isinstance(g, ast.Lambda):
        for n in walk_no_nested(g.body):
            if isinstance(n, ast.NamedExpr) and isinstance(n.target, ast.Name):
                bound.add(n.target.id)
        return bound
    nonloc = set()
    for st in g.body:
        for n in walk_no_nested(st):
            if isinstance(n, ast.Name) and isinstance(n.ctx, (ast.Store, ast.Del)):
                bound.add(n.id)
            elif isinstance(n, (ast.FunctionDef, ast.AsyncFunctionDef, ast.ClassDef)):
                bound.add(n.name)
            elif isinstance(n, (ast.Import, ast.ImportFrom)):
                bound.update((al.asname or al.name).split(".")[0] for al in n.names)
            elif isinstance(n, ast.ExceptHandler) and n.name:
                bound.add(n.name)
            elif isinstance(n, (ast.Nonlocal, ast.Global)):
                nonloc.update(n.names)
    return bound - nonloc


def _free_loads(g, name):
    """the Load nodes of `name` inside the nested function / lambda g (at any depth) that refer to the enclosing
    function's variable: none when g (or the intermediate scope) binds the name itself"""
    if name in _scope_bound(g):
        return []
    out = []
    bodies = [g.body] if isinstance(g, ast.Lambda) else list(g.body)
    for b in bodies:
        for n in walk_no_nested(b):
            if isinstance(n, ast.Name) and n.id == name and isinstance(n.ctx, ast.Load):
                out.append(n)
            elif isinstance(n, (ast.FunctionDef, ast.AsyncFunctionDef, ast.Lambda)):
                out.extend(_free_loads(n, name))
                for d in list(n.args.defaults) + [d for d in n.args.kw_defaults if d is not None]:
                    out.extend(x for x in ast.walk(d) if isinstance(x, ast.Name) and x.id == name and isinstance(x.ctx, ast.Load))
    return out


class _Holds:
    """Who keeps a value alive once the function that created it has returned?  `strong(node)` follows the value of the
    expression `node` through the function: True as soon as one use hands it -- or something that holds it: a bound
    method, a partial, a tuple, a lambda / nested def that captures it -- to anything that is not provably weak (an
    argument of a call, a store into an object, a return / await / yield).  Provably weak or no hold at all: dropping
    the value, using it only as the receiver of a call (`t.cancel()`, `t.add_done_callback(f)`), tests and comparisons,
    `del`, and passing it to the weakref module (ref, proxy, WeakMethod, finalize, the weak collections and their
    add / item stores).  Anything the rule does not understand counts as strong: the rule never reports a hold it
    merely cannot see."""

    def __init__(self, fi):
        self.fi = fi
        self.parent = {}
        for p in ast.walk(fi.node):
            for c in ast.iter_child_nodes(p):
                self.parent[id(c)] = p
        self.seen = set()
        self.why = []

    def _weak_container(self, e):
        v = resolve_local(self.fi.node, e)
        return isinstance(v, ast.Call) and _ext_name(self.fi, v.func) in _WEAK_CONTAINERS

    def _enclosing_scope(self, n):
        p = self.parent.get(id(n))
        while p is not None and not isinstance(p, (ast.FunctionDef, ast.AsyncFunctionDef, ast.Lambda)):
            p = self.parent.get(id(p))
        return p

    def name_uses(self, name, scope):
        """loads of the variable `name` of scope (the analysed function or a nested one)"""
        if scope is self.fi.node:
            bodies = list(scope.body)
        else:
            bodies = [scope.body] if isinstance(scope, ast.Lambda) else list(scope.body)
        out = []
        for b in bodies:
            for n in walk_no_nested(b):
                if isinstance(n, ast.Name) and n.id == name and isinstance(n.ctx, ast.Load):
                    out.append(n)
                elif isinstance(n, (ast.FunctionDef, ast.AsyncFunctionDef, ast.Lambda)):
                    out.extend(_free_loads(n, name))
                    for d in list(n.args.defaults) + [d for d in n.args.kw_defaults if d is not None]:
                        out.extend(x for x in ast.walk(d) if isinstance(x, ast.Name) and x.id == name and isinstance(x.ctx, ast.Load))
        return out

    def strong(self, node):
        if id(node) in self.seen:
            return False
        self.seen.add(id(node))
        p = self.parent.get(id(node))
        if p is None:
            return True
        if isinstance(p, ast.Expr):
            return False  # value dropped
        if isinstance(p, (ast.Return, ast.Await, ast.Yield, ast.YieldFrom)):
            return True
        if isinstance(p, (ast.Assign, ast.AnnAssign, ast.NamedExpr, ast.AugAssign)):
            if getattr(p, "value", None) is not node:
                return True  # the value is (part of) a target: not a flow of the value
            tgts = p.targets if isinstance(p, ast.Assign) else [p.target]
            res = False
            for t in tgts:
                if isinstance(t, ast.Name):
                    sc = self._enclosing_scope(p) or self.fi.node
                    if not isinstance(sc, ast.Lambda) and sc is not self.fi.node and t.id not in _scope_bound(sc):
                        return True  # nonlocal / global store
                    for u in self.name_uses(t.id, sc):
                        res = self.strong(u) or res
                    if isinstance(p, ast.NamedExpr):
                        res = self.strong(p) or res
                elif isinstance(t, ast.Subscript) and self._weak_container(t.value):
                    continue
                else:
                    return True  # attribute / item / unpacking store: kept by another object (or not understood)
            return res
        if isinstance(p, ast.Attribute) and p.value is node:
            gp = self.parent.get(id(p))
            if isinstance(gp, ast.Call) and gp.func is p:
                return False  # receiver of a call: the call does not keep its receiver
            if not isinstance(p.ctx, ast.Load):
                return False  # `t.x = v`: a store into the value
            return self.strong(p)  # bound method / attribute value: holds the object
        if isinstance(p, ast.Call):
            if p.func is node:
                return False  # the value is called
            fn = _ext_name(self.fi, p.func)
            if fn in _WEAK_CALLS:
                return False
            if isinstance(p.func, ast.Attribute) and self._weak_container(p.func.value):
                return False
            if fn in ("functools.partial", "functools.partialmethod", "tuple", "list", "set", "frozenset", "dict"):
                return self.strong(p)
            if fn in ("isinstance", "id", "repr", "str", "bool", "type", "hash", "len", "print", "callable") or is_log_call(p):
                return False
            return True
        if isinstance(p, ast.keyword):
            return self._as_child_of_call(p)
        if isinstance(p, (ast.Tuple, ast.List, ast.Set, ast.IfExp, ast.BoolOp, ast.Starred, ast.Dict)):
            if isinstance(p, ast.IfExp) and p.test is node:
                return False
            return self.strong(p)
        if isinstance(p, (ast.Compare, ast.UnaryOp, ast.If, ast.While, ast.Assert, ast.Delete)):
            return False
        if isinstance(p, ast.arguments):
            # default argument of a lambda / nested def: the function object holds the value
            g = self.parent.get(id(p))
            return self._function_object(g)
        if isinstance(p, ast.Lambda):
            return True  # the lambda's result
        return True

    def _as_child_of_call(self, kw):
        call = self.parent.get(id(kw))
        if not isinstance(call, ast.Call):
            return True
        fn = _ext_name(self.fi, call.func)
        if fn in _WEAK_CALLS:
            return False
        if fn in ("functools.partial", "functools.partialmethod", "dict"):
            return self.strong(call)
        return True

    def _function_object(self, g):
        if isinstance(g, ast.Lambda):
            return self.strong(g)
        if isinstance(g, (ast.FunctionDef, ast.AsyncFunctionDef)):
            if g.decorator_list:
                return True
            sc = self._enclosing_scope(g) or self.fi.node
            res = False
            for u in self.name_uses(g.name, sc):
                res = self.strong(u) or res
            return res
        return True


@R.clause("C09.p", "the render task stays alive until it has finished: the task run_driving_pipe creates is handed, itself or inside something that holds it strongly (bound method, partial, closure, container), to an object that outlives the call -- never only to weak references, and never dropped (the event loop keeps only weak references to tasks)")
def p_task_alive(ctx):
    """'... slow completion after the empty ACK': the response of a handler that is suspended comes from its task and
    from nothing else.  asyncio keeps only weak references to tasks (`asyncio.create_task`: 'save a reference to the
    result of this function, to avoid a task disappearing mid-execution'); a pending task is otherwise referenced only
    by the wake-up callback of what it waits for.  run_driving_pipe does not return the task, so the one reference
    that keeps a parked handler alive is what run_driving_pipe itself hands out: today the bound `task.cancel` stored
    in the pipe's callbacks.  An independently written breaking change registered a closure over `weakref.ref(task)`
    instead: a handler waiting on something only it (or a WeakSet) references is collected mid-flight and the request
    is never answered, not even with 5.00.

    Decided by value flow (class _Holds), not by the shape of the registration: from every create_task /
    ensure_future in run_driving_pipe the task value is followed through locals, bound methods, partials, tuples,
    conditional expressions, default arguments and closure captures of lambdas / nested defs; the obligation holds as
    soon as one flow ends in anything that can keep it (argument of any call outside the weakref module, a store into
    an object, return / await), and fails only when every flow ends in a drop, a receiver-only use, a test, or the
    weakref module.  Whether the callback also *cancels* the task is C08.e / C18.j's question, not this one: a
    registry `_tasks.add(task)` + `task.add_done_callback(_tasks.discard)` satisfies this clause."""
    prog = ctx.prog
    fi = prog.func("pipe.run_driving_pipe")
    is_task = lambda e: isinstance(e, ast.Call) and ((isinstance(e.func, ast.Attribute) and e.func.attr in ("create_task", "ensure_future")) or chain(e.func) in ("create_task", "ensure_future"))
    creations = [n for n in walk_no_nested(fi.node) if is_task(n)]
    ctx.floor("tasks started by run_driving_pipe", len(creations), 1)
    for c in creations:
        H = _Holds(fi)
        ok = _use_strong_root(H, c)
        ctx.ob("the render task is kept alive by a strong reference that outlives run_driving_pipe", ok, fi, c,
               detail=None if ok else "the task is only dropped, used as a receiver, tested or handed to weak references: nothing but the event loop's weak set refers to it while the handler is suspended")


def _use_strong_root(H, c):
    """is the value created at c held strongly: by one of its flows (H.strong), or because a variable it reaches is
    captured by a nested function / lambda (closure cell) whose function object is itself held strongly"""
    if H.strong(c):
        return True
    reached = [n for n in ast.walk(H.fi.node) if id(n) in H.seen and isinstance(n, ast.Name)]
    for u in reached:
        g = H._enclosing_scope(u)
        while g is not None and g is not H.fi.node:
            if _free_loads_contains(g, u) and H._function_object(g):
                return True
            g = H._enclosing_scope(g)
    return False


def _free_loads_contains(g, u):
    return any(x is u for x in _free_loads(g, u.id)) or any(
        x is u for d in list(g.args.defaults) + [d for d in g.args.kw_defaults if d is not None] for x in ast.walk(d))


F_PIPE = "aiocoap/pipe.py"
F_PROTO = "aiocoap/protocol.py"
F_RES = "aiocoap/resource.py"
F_IF = "aiocoap/interfaces.py"
F_ERR = "aiocoap/error.py"
F_CODES = "aiocoap/numbers/codes.py"
F_TM = "aiocoap/tokenmanager.py"

R.seed("C09.a", F_PIPE, "            old_pr.add_response(msg, is_last=True)\n", "            old_pr.add_response(msg, is_last=False)\n", "error response not final")
R.seed("C09.a", F_PIPE, "            old_pr.add_response(Message(code=INTERNAL_SERVER_ERROR), is_last=True)\n", "            pass\n", "non-renderable exception gets no response")
R.seed("C09.a", F_PIPE, "            except Exception as e2:", "            except error.Error as e2:", "handler narrowed: a renderer raising ValueError escapes")
R.seed("C09.a", F_PIPE, "            old_pr.add_response(msg, is_last=True)\n", "            old_pr.add_response(msg, is_last=True)\n            old_pr.add_response(msg, is_last=True)\n", "second add_response")
R.seed("C09.a", F_PIPE, "        return False\n\n    remove_interest", "        return True\n\n    remove_interest", "handler stays registered after the terminal event")
R.seed("C09.a", F_PIPE, "                if msg is None:\n", "                if False:\n", "None rendering is passed on as response")
R.seed("C09.a", F_PIPE, "            old_pr.add_response(event.message, event.is_last)\n", "            old_pr.add_response(event.message, True)\n", "first notification ends the exchange")
R.seed("C09.a", F_PIPE, "            return not event.is_last\n", "            return True\n", "handler never deregisters")
R.seed("C09.a", F_PIPE, "        if isinstance(e, error.RenderableError):", "        if isinstance(e, error.ConstructionRenderableError):", "other renderable errors become 5.00")
R.seed("C09.b", F_PIPE, "                msg = Message(code=INTERNAL_SERVER_ERROR)\n", "                msg = Message(code=INTERNAL_SERVER_ERROR, payload=str(e2).encode())\n", "exception text leaks")
R.seed("C09.b", F_PIPE, "            old_pr.add_response(Message(code=INTERNAL_SERVER_ERROR), is_last=True)\n", "            old_pr.add_response(Message(code=INTERNAL_SERVER_ERROR, payload=str(e).encode()), is_last=True)\n", "exception text leaks")
R.seed("C09.b", F_PIPE, "                msg = Message(code=INTERNAL_SERVER_ERROR)\n", "                msg = Message(code=INTERNAL_SERVER_ERROR)\n                msg.payload = repr(e2).encode()\n", "exception text leaks through a later store")
R.seed("C09.b", F_PIPE, "from .numbers import INTERNAL_SERVER_ERROR\n", "from .numbers import BAD_REQUEST as INTERNAL_SERVER_ERROR\n", "fallback is not 5.00")
R.seed("C09.c", F_PIPE, "        except Exception as e:\n            pipe.add_exception(e)\n", "        except error.Error as e:\n            pipe.add_exception(e)\n", "arbitrary exceptions of the handler get no response")
R.seed("C09.c", F_PIPE, "        except Exception as e:\n            pipe.add_exception(e)\n", "        except Exception as e:\n            pass\n", "exception swallowed")
R.seed("C09.c", F_PIPE, "        self._add_event(self.Event(None, exception, True))\n", "        self._add_event(self.Event(None, exception, False))\n", "exception event not terminal")
R.seed("C09.c", F_PROTO, "        run_driving_pipe(\n            pr_that_can_receive_errors,\n", "        run_driving_pipe(\n            pipe,\n", "exceptions bypass error_to_message")
R.seed("C09.d", F_PROTO, "Message(code=NOT_FOUND, payload=b\"not a server\"), is_last=True", "Message(code=NOT_FOUND, payload=b\"not a server\"), is_last=False")
R.seed("C09.d", F_PROTO, "Message(code=NOT_FOUND, payload=b\"not a server\"), is_last=True", "Message(code=INTERNAL_SERVER_ERROR, payload=b\"not a server\"), is_last=True")
R.seed("C09.d", F_PROTO, "is_last=True\n            )\n            return\n", "is_last=True\n            )\n", "falls through to a missing site")
R.seed("C09.e", F_RES, "                response_default = Code.DELETED\n", "                response_default = Code.CHANGED\n", "DELETE -> 2.04")
R.seed("C09.e", F_RES, "            raise error.UnallowedMethod()\n", "            raise error.NotFound()\n")
R.seed("C09.e", F_RES, "            raise error.UnsupportedMethod()\n", "            raise error.BadRequest()\n")
R.seed("C09.e", F_RES, "        if response.code is None:\n", "        if True:\n", "handler's code overwritten")
R.seed("C09.e", F_RES, "            if request.code in (Code.GET, Code.FETCH):", "            if request.code in (Code.GET,):", "FETCH -> 2.04")
R.seed("C09.e", F_RES, "        if response.opt.no_response is None:\n            response.opt.no_response = request.opt.no_response\n", "", "No-Response not honoured")
R.seed("C09.e", F_RES, "        if not request.code.is_request():\n            raise error.UnsupportedMethod()\n", "", "non-request codes reach the handler lookup")
R.seed("C09.e", F_ERR, "class UnallowedMethod(MethodNotAllowed):", "class UnallowedMethod(NotFound):", "4.04 instead of 4.05")
R.seed("C09.f", F_RES, "            raise error.NotFound()\n        else:\n            return await child.render(subrequest)\n", "            return\n        else:\n            return await child.render(subrequest)\n", "unknown path returns None -> 5.00")
R.seed("C09.f", F_RES, "        except KeyError:\n            raise error.NotFound()\n        else:\n            # FIXME consider", "        except IndexError:\n            raise error.NotFound()\n        else:\n            # FIXME consider", "KeyError escapes -> 5.00")
R.seed("C09.f", F_RES, "            raise error.NotFound()\n        else:\n            # FIXME consider", "            raise error.BadRequest()\n        else:\n            # FIXME consider", "unknown path -> 4.00")
R.seed("C09.f", F_RES, "            raise KeyError()\n\n        remainder", "            raise ValueError()\n\n        remainder", "empty path -> ValueError -> 5.00")
R.seed("C09.f", F_RES, "            raise error.BadOption() from None\n", "            raise ValueError() from None\n", "unknown abbreviation -> 5.00")
R.seed("C09.f", F_RES, "        except KeyError:\n            # Unknown option\n", "        except IndexError:\n            # Unknown option\n", "unknown abbreviation -> KeyError -> 5.00")
R.seed("C09.f", F_RES, "        _expand_upa(request.request)\n", "", "abbreviated paths are not found")
R.seed("C09.g", F_IF, "        pipe.add_response(res, is_last=True)\n", "        pipe.add_response(res, is_last=False)\n")
R.seed("C09.g", F_IF, "        pipe.add_response(res, is_last=True)\n", "        pipe.add_response(res, is_last=True)\n        pipe.add_response(res, is_last=True)\n", "second add_response")
R.seed("C09.g", F_IF, "            res = await self.render(req)\n\n        pipe.add_response(res, is_last=True)\n", "            res = await self.render(req)\n            pipe.add_response(res, is_last=True)\n", "blockwise arm adds nothing")
R.seed("C09.h", F_TM, "                m.token = request.token\n", "", "response without the request's token")
R.seed("C09.h", F_TM, "                m.remote = request.remote.as_response_address()\n", "                m.remote = request.remote\n", "multicast responses from the group address")
R.seed("C09.h", F_TM, "            if not ev.is_last:\n                return True\n", "            return True\n", "handler never deregisters")
R.seed("C09.h", F_TM, "            if not ev.is_last:\n                return True\n", "            if ev.is_last:\n                return True\n", "inverted")
R.seed("C09.h", F_TM, "            if not ev.is_last:\n                return True\n", "", "notifications after the first are dropped")
R.seed("C09.i", F_PIPE, "        if self._event_callbacks is False:\n            if event.exception is not None:", "        if self._event_callbacks is None:\n            if event.exception is not None:", "events after the end are delivered")
R.seed("C09.i", F_PIPE, "        cbs = self._event_callbacks\n        self._event_callbacks = False\n", "        cbs = self._event_callbacks\n", "pipe never marked ended")
R.seed("C09.i", F_PIPE, "                self._event_callbacks.remove((cb, is_interest))\n", "                pass\n", "declining handlers stay registered")
R.seed("C09.i", F_PIPE, "        if not self._any_interest():\n            self._end()\n\n    def add_response(self", "    def add_response(self", "pipe does not end after the final event")
R.seed("C09.j", F_ERR, "class NotFound(ConstructionRenderableError):\n    code = codes.NOT_FOUND\n", "class NotFound(ConstructionRenderableError):\n    code = codes.BAD_REQUEST\n")
R.seed("C09.j", F_CODES, "    NOT_FOUND = 132\n", "    NOT_FOUND = 133\n")
R.seed("C09.j", F_CODES, "NOT_FOUND = Code.NOT_FOUND\n", "NOT_FOUND = Code.BAD_REQUEST\n", "module alias points at another member")
R.seed("C09.j", F_ERR, "return Message(code=self.code, payload=self.message.encode(\"utf8\"))", "return Message(code=codes.INTERNAL_SERVER_ERROR, payload=self.message.encode(\"utf8\"))", "every renderable error becomes 5.00")
R.seed("C09.j", F_ERR, "return Message(code=self.code, payload=self.message.encode(\"utf8\"))", "return Message(code=self.code, payload=repr(self).encode(\"utf8\"))", "diagnostic payload replaced")
R.seed("C09.j", F_ERR, "class HopLimitReached(ConstructionRenderableError):\n    code = codes.HOP_LIMIT_REACHED", "class HopLimitReached(ConstructionRenderableError):\n    code = codes.GATEWAY_TIMEOUT")
R.seed("C09.j", F_CODES, "    HOP_LIMIT_REACHED = (5 << 5) + 8\n", "    HOP_LIMIT_REACHED = (5 << 5) + 7\n")

R.seed("C09.k", "aiocoap/tokenmanager.py", "        for (_, _r), (_, stopper) in self.incoming_requests.items():\n            if remote == _r:\n                stoppers.append(stopper)", "        stoppers.extend(stopper for (_, stopper) in self.incoming_requests.values())", "an error for one peer cancels every peer's handlers")

R.seed("C09.l", F_RES, "        except KeyError:\n            raise error.NotFound()\n        else:\n            # FIXME consider carefully whether this switching-around is good.\n            # It probably is.\n            request.request = subrequest\n            return await child.render_to_pipe(request)", "            request.request = subrequest\n            return await child.render_to_pipe(request)\n        except KeyError:\n            raise error.NotFound()", "a KeyError raised by a handler is answered 4.04")
R.seed("C09.m", "aiocoap/messagemanager.py", "                1 << message.code.class_ - 1\n", "                (1 << message.code.class_) - 1\n", "No-Response=2 also suppresses 4.xx and 5.xx")

# C09.n: one live, tracked request per (token, remote)
R.seed("C09.n", F_TM, "            (pipe, stop) = self.incoming_requests.pop(key)\n            stop()\n", "            (pipe, stop) = self.incoming_requests.pop(key)\n",
       "the superseded request is forgotten but keeps running: two final responses on one token")
R.seed("C09.n", F_TM, "            (pipe, stop) = self.incoming_requests.pop(key)\n            stop()\n", "            (pipe, stop) = self.incoming_requests.pop(key)\n            self.loop.call_soon(stop)\n",
       "the superseded request is stopped only after its successor is registered: its end-of-interest hook deletes the successor's entry by key, the successor runs untracked")
R.seed("C09.n", F_TM, "        if key in self.incoming_requests:\n            # This is either", "        if False:\n            # This is either",
       "a request on an occupied (token, remote) is stored over the old entry without stopping it")
R.seed("C09.n", F_TM, "        self.incoming_requests[key] = (pipe, stop)\n", "        self.incoming_requests[(request.token,)] = (pipe, stop)\n",
       "stored under another key than the one looked up: the override never finds the live request")
R.seed("C09.n", F_TM, "        self.incoming_requests[key] = (pipe, stop)\n", "        self.incoming_requests[key] = (Pipe(request, self.log), stop)\n",
       "the tracked pipe is not the one that is rendered")
R.seed("C09.n", F_TM, "        self.context.render_to_pipe(pipe)\n", "        if request.opt.observe is None:\n            self.context.render_to_pipe(pipe)\n",
       "a tracked request that is never rendered gets no response at all")
R.seed("C09.n", F_TM, "        pipe.on_interest_end(on_end)\n", "", "entries of finished requests stay: a later request on the token 'overrides' a dead pipe, and the table no longer tells live requests from finished ones")

# seeds for the path-based generalisations: each one breaks the property through a spelling the clauses did not know
# before (partial objects, nested helpers, tables, aliases), so that accepting those spellings is shown not to blind them
R.seed("C09.a", F_PIPE, "            old_pr.add_response(msg, is_last=True)\n", "            respond = functools.partial(old_pr.add_response, is_last=False)\n            respond(msg)\n", "error response not final, through a partial object")
R.seed("C09.a", F_PIPE, "            try:\n                msg = e.to_message()\n", "            def rendition(exc):\n                return exc.to_message()\n            msg = rendition(e)\n            try:\n", "the renderer runs in a nested helper that is called outside the try")
R.seed("C09.b", F_PIPE, "            old_pr.add_response(Message(code=INTERNAL_SERVER_ERROR), is_last=True)\n", "            def bare(exc):\n                return Message(code=INTERNAL_SERVER_ERROR, payload=str(exc).encode())\n            old_pr.add_response(bare(e), is_last=True)\n", "exception text leaks through a nested helper")
R.seed("C09.b", F_PIPE, "                msg = Message(code=INTERNAL_SERVER_ERROR)\n", "                msg = Message(code=INTERNAL_SERVER_ERROR)\n                msg.opt.max_age = 0\n", "fallback message modified through its options")
R.seed("C09.c", F_PIPE, "        except Exception as e:\n            pipe.add_exception(e)\n", "        except Exception as e:\n            if isinstance(e, error.Error):\n                pipe.add_exception(e)\n", "only library errors are reported")
R.seed("C09.c", F_PIPE, "        except Exception as e:\n            pipe.add_exception(e)\n", "        except Exception as e:\n            pipe.add_exception(RuntimeError())\n", "another exception than the caught one is reported")
R.seed("C09.d", F_PROTO, "        return await self.serversite.render_to_pipe(pipe)", "        await self.serversite.render_to_pipe(pipe)\n        pipe.add_response(Message(code=NOT_FOUND), is_last=True)", "a second response after the site's")
R.seed("C09.e", F_RES, "        if response.code is None:\n", "        if response.code is None or request.code == Code.GET:\n", "a GET handler's code is overwritten")
R.seed("C09.e", F_RES, "            if request.code in (Code.GET, Code.FETCH):\n                response_default = Code.CONTENT\n            elif request.code == Code.DELETE:\n                response_default = Code.DELETED\n            else:\n                response_default = Code.CHANGED\n            response.code = response_default\n",
       "            response.code = {Code.GET: Code.CONTENT, Code.DELETE: Code.DELETED}.get(request.code, Code.CHANGED)\n", "table-driven defaults that forgot FETCH")
R.seed("C09.f", F_RES, "        except KeyError:\n            return True\n", "        except KeyError:\n            return False\n", "unknown path: no blockwise assembly")
R.seed("C09.f", F_RES, "            return await child.render_to_pipe(request)\n", "            return await self.render_to_pipe(request)\n", "delegation to the wrong object")
R.seed("C09.g", F_IF, "lambda: self.render(req)", "lambda: self.render_to_pipe(req)", "the cache is filled by something that is not the rendering")
R.seed("C09.h", F_TM, "                m.request = request\n", "                m.request = request\n                m.token = b\"\"\n", "token overwritten after the stamp")
R.seed("C09.i", F_PIPE, "            if not keep_calling:\n", "            if keep_calling:\n", "handlers that want to stay are removed, declining ones kept")
R.seed("C09.i", F_PIPE, "        if not self._any_interest():\n            self._end()\n\n    def add_response", "        if self._any_interest():\n            self._end()\n\n    def add_response", "pipe ends while there is interest")
R.seed("C09.i", F_PIPE, "        cbs = self._event_callbacks\n        self._event_callbacks = False\n        tombstone = self.Event(None, None, True)\n        [cb(tombstone) for (cb, _) in cbs]\n", "        cbs = self._event_callbacks\n        tombstone = self.Event(None, None, True)\n        [cb(tombstone) for (cb, _) in cbs]\n        self._event_callbacks = False\n", "pipe marked ended only after the tombstone went out")
R.seed("C09.j", F_ERR, "self.message.encode(\"utf8\")", "self.message.encode(\"ascii\")", "diagnostic payload not UTF-8")
R.seed("C09.m", "aiocoap/messagemanager.py", "                1 << message.code.class_ - 1\n", "                1 << message.code.class_\n", "mask shifted by one class")

# seeds for the second pass: events read by position / unpacking / keyword, sibling closures, conditional expressions
R.seed("C09.a", F_PIPE, "            old_pr.add_response(event.message, event.is_last)\n", "            old_pr.add_response(event[0], event[1])\n", "the exception slot of the event is passed as is_last (positional read of the wrong field)")
R.seed("C09.a", F_PIPE, "        if event.message is not None:\n            old_pr.add_response(event.message, event.is_last)\n            return not event.is_last\n",
       "        message, _exc, is_last = event\n        if message is not None:\n            old_pr.add_response(message, is_last)\n            return is_last\n", "unpacked event: registration inverted")
R.seed("C09.a", F_PIPE, "            old_pr.add_response(msg, is_last=True)\n", "            old_pr.add_response(msg, is_last=True if msg.payload else False)\n", "error response final only when it has a payload (conditional expression)")
R.seed("C09.b", F_PIPE, "            old_pr.add_response(Message(code=INTERNAL_SERVER_ERROR), is_last=True)\n\n        return False\n\n",
       "            old_pr.add_response(bare(e), is_last=True)\n\n        return False\n\n    def bare(exc):\n        return Message(code=INTERNAL_SERVER_ERROR, payload=str(exc).encode())\n\n", "exception text leaks through a sibling closure of the handler")
R.seed("C09.c", F_PIPE, "        self._add_event(self.Event(None, exception, True))\n", "        self._add_event(self.Event(exception, None, True))\n", "the exception is put into the message slot of the event")
R.seed("C09.c", F_PIPE, "        self._add_event(self.Event(None, exception, True))\n", "        self._add_event(self.Event(message=None, exception=exception, is_last=False))\n", "exception event not terminal (keyword construction)")
R.seed("C09.h", F_TM, "            if not ev.is_last:\n                return True\n", "            if not ev[0]:\n                return True\n", "registration follows the message slot instead of is_last (positional read)")

# seeds for the third pass: a default-code mapping is evaluated per method like the chain it replaces (absent rows included)
_CHAIN = "            if request.code in (Code.GET, Code.FETCH):\n                response_default = Code.CONTENT\n            elif request.code == Code.DELETE:\n                response_default = Code.DELETED\n            else:\n                response_default = Code.CHANGED\n            response.code = response_default\n"
R.seed("C09.e", F_RES, _CHAIN, "            response.code = {Code.GET: Code.CONTENT, Code.FETCH: Code.CONTENT, Code.DELETE: Code.DELETED, Code.POST: Code.CHANGED, Code.PUT: Code.CHANGED, Code.PATCH: Code.CHANGED}[request.code]\n",
       "table-driven defaults without a row for iPATCH: KeyError -> 5.00 after the handler succeeded")
R.seed("C09.e", F_RES, _CHAIN, "            response.code = dict.fromkeys((Code.GET, Code.FETCH), Code.CONTENT).get(request.code) or {Code.DELETE: Code.DELETED}.get(request.code)\n",
       "methods outside the tables keep code None")
R.seed("C09.e", F_RES, "        m = getattr(self, \"render_%s\" % str(request.code).lower(), None)\n", "        m = getattr(self, {c: \"render_%s\" % c.name.lower() for c in Code if c.is_request()}[request.code], None)\n",
       "handler names from a table computed from the registered methods: KeyError (5.00) for a request code outside the enum instead of 4.05")
R.seed("C09.e", F_RES, "        m = getattr(self, \"render_%s\" % str(request.code).lower(), None)\n", "        m = getattr(self, {c: \"render_%s\" % c.name for c in Code if c.is_request()}.get(request.code, \"\"), None)\n",
       "handler names from a computed table that are not lower-cased: no handler is ever found")
R.seed("C09.e", F_RES, _CHAIN, "            try:\n                response.code = {Code.GET: Code.CONTENT, Code.DELETE: Code.DELETED}[request.code]\n            except LookupError:\n                response.code = Code.CHANGED\n",
       "lookup with a KeyError fallback that forgot FETCH")
R.seed("C09.e", F_RES, _CHAIN, "            if request.code in {Code.GET: Code.CONTENT, Code.FETCH: Code.CONTENT, Code.DELETE: Code.DELETED}:\n                response.code = {Code.GET: Code.CONTENT, Code.FETCH: Code.CONTENT}[request.code]\n            else:\n                response.code = Code.CHANGED\n",
       "membership guard over one table, lookup in a smaller one: DELETE raises KeyError")

# ninth pass: the prelude of the render task raises nothing (C09.o); the render task is strongly held (C09.p)
F_MSG = "aiocoap/message.py"
R.seed("C09.o", F_MSG, "        payload = f\", {len(self.payload)} byte(s) payload\" if self.payload else \"\"\n", "        payload = f\", payload {self.payload.decode('utf8')}\" if self.payload else \"\"\n",
       "the request's repr, formatted eagerly into the render task's name, decodes the payload: UnicodeDecodeError before the task exists")
R.seed("C09.o", F_PROTO, "            name=\"Rendering for %r\" % pipe.request,\n", "            name=\"Rendering for %s\" % pipe.request.payload.decode(\"utf8\"),\n",
       "the task's name is computed from the payload text outside any handler")
R.seed("C09.p", F_PIPE, "    pipe.on_interest_end(task.cancel)\n", "    task.add_done_callback(lambda t: None)\n", "nothing keeps the render task: the loop's weak set is its only referent")
R.seed("C09.p", F_PIPE, "    pipe.on_interest_end(task.cancel)\n", "    import weakref\n    cancel = weakref.WeakMethod(task.cancel)\n    pipe.on_interest_end(lambda: cancel() and cancel()())\n",
       "the pipe holds only a weak method of the task")
R.seed("C09.p", F_PIPE, "    pipe.on_interest_end(task.cancel)\n", "    def stop():\n        task.cancel()\n    import weakref\n    pipe.on_interest_end(weakref.proxy(stop))\n",
       "the closure that captures the task is itself only weakly referenced")
